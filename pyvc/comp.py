# Generic comprehension contracts (used when no unit specific comp_hook answers).
#
# Supported shape: ONE `for target in iterable` clause over a list-like value of symbolic length, optional `if` clauses,
# side-effect free element expression.  The element expression of the REAL comprehension is executed once, symbolically, for a
# fresh index i (0 <= i < n); every path through it becomes a case (condition C_c(i), value v_c(i) | skipped | raises).
# Values created during that execution (fresh constants) are lifted to functions of i before quantifying.
#
#   [elt for x in L]                R fresh list, |R| = n, forall i<n: OR_c (C_c(i) and R[i] == v_c(i))
#   {elt for x in L if c}           R fresh set,  forall i<n: C_c(i) -> v_c(i) in R;   forall y in R: witness w(y) < n with C_c(w) and v_c(w) == y
#   all(elt for x in L if c)        stop index m in [0, n]: elements below m took a non-raising path and were skipped or truthy;
#                                   m < n -> element m was falsy;  result = (m == n)      (short circuit: nothing is said above m)
#   any(...)                        dual
# A raising path yields an exceptional outcome for SOME index (over-approximation: nothing is assumed about earlier elements).
import ast, z3
from .ty import *
from . import ty as _ty
from .core import Raise, Unsupported

def _isR(x): return isinstance(x, Raise)

def _same(a, b):
    if a is b: return True
    if z3.is_expr(a) and z3.is_expr(b): return a.eq(b)
    if isinstance(a, V) and isinstance(b, V):
        return a.t == b.t and a.ref == b.ref and (a.z is b.z or (z3.is_expr(a.z) and z3.is_expr(b.z) and a.z.eq(b.z)) or a.z == b.z if not z3.is_expr(a.z) else False)
    try: return a == b
    except Exception: return False

def _unchanged(h0, s):
    for r, c in h0.heap.items():
        c2 = s.heap.get(r)
        if isinstance(c, dict):
            if not isinstance(c2, dict) or set(c) != set(c2) or any(not _same(c[k], c2[k]) for k in c): return False
        elif not _same(c, c2): return False
    for k, v in h0.ghost.items():
        if k not in s.ghost or not _same(v, s.ghost[k]): return False
    return True

def _new_consts(exprs, marker, skip):
    found = {}
    seen = set()
    def walk(e):
        if e.get_id() in seen: return
        seen.add(e.get_id())
        if z3.is_quantifier(e): walk(e.body()); return
        if z3.is_app(e):
            d = e.decl(); nm = d.name()
            if d.kind() == z3.Z3_OP_UNINTERPRETED and '!' in nm:
                try: num = int(nm.rsplit('!', 1)[1])
                except ValueError: num = -1
                if num > marker and nm not in skip:
                    if d.arity() == 0: found[nm] = e
                    else: raise Unsupported('comprehension element creates a fresh function (%s)' % nm)
            for c in e.children(): walk(c)
    for e in exprs: walk(e)
    return found

class Cases:
    """symbolic execution of one comprehension element"""
    def __init__(self, eng, e, gen, st, lv, elts):
        t = lv.t; L = lv.z; self.t = t; self.L = L; self.n = list_len(t, L)
        marker = _ty._cnt[0]
        i = z3.Int(fresh_name('ci')); self.i = i
        h = st.fork(); base = len(h.pc)
        h.assume(z3.And(0 <= i, i < self.n)); h.assume(self.n >= 0)
        base2 = len(h.pc)
        item = eng.load_val(h, t.elem, list_get(t, L, i))
        raw = []        # (state, kind, payload)
        for y, o in eng.assign(h, gen.target, item):
            if _isR(o): raw.append((y, 'raise', o)); continue
            states = [y]
            for cnd in gen.ifs:
                nxt = []
                for s in states:
                    for s2, c in eng.ev(cnd, s):
                        if _isR(c): raw.append((s2, 'raise', c)); continue
                        for s3, val in eng.branch(s2, eng.truth(s2, c), 'comp-if@%s' % e.lineno):
                            if val: eng.narrow(s3, cnd, True); nxt.append(s3)
                            else: raw.append((s3, 'skip', None))
                states = nxt
            for s in states:
                for s2, vals in eng.evs(elts, s):
                    raw.append((s2, 'raise' if _isR(vals) else 'val', vals))
        exprs = []
        for s, kind, p in raw:
            if not _unchanged(h, s): raise Unsupported('comprehension element with side effects at %s' % eng.loc(e))
            exprs += s.pc[base2:]
            if kind == 'val':
                for v in p:
                    if v.ref is not None and isinstance(v.t, ObjT): raise Unsupported('comprehension yields objects at %s' % eng.loc(e))
                    z = eng.store_val(s, v)
                    if not z3.is_expr(z): raise Unsupported('comprehension yields a non-symbolic value (%s) at %s' % (v.t, eng.loc(e)))
                    exprs.append(z)
        new = _new_consts(exprs, marker, {i.decl().name()})
        self.lift = [(c, z3.Function(fresh_name('lift_' + nm.split('!')[0]), z3.IntSort(), c.sort())(i)) for nm, c in new.items()]
        self.cases = []
        for s, kind, p in raw:
            cond = z3.And(*s.pc[base2:]) if len(s.pc) > base2 else z3.BoolVal(True)
            vals = None
            if kind == 'val': vals = [(v.t, eng.store_val(s, v), eng.truth(s, v) if v.t not in (FUNC, MOD, CLS) else z3.BoolVal(True)) for v in p]
            self.cases.append((kind, cond, vals, p, s))
        self.eng = eng
    def at(self, z, idx):
        """term z (over the symbolic index) at index idx"""
        if self.lift: z = z3.substitute(z, *self.lift)
        return z3.substitute(z, (self.i, idx))
    def in_range(self, idx, hi=None): return z3.And(0 <= idx, idx < (self.n if hi is None else hi))
    def raising(self): return [c for c in self.cases if c[0] == 'raise']
    def normal(self): return [c for c in self.cases if c[0] != 'raise']

def _raise_outcomes(eng, st, C):
    out = []
    for kind, cond, vals, p, s in C.raising():
        x = st.fork(); i0 = z3.Int(fresh_name('craise'))
        x.assume(C.in_range(i0)); x.assume(C.at(cond, i0))
        out.append((x, p))
    return out

def _sources(eng, e, gen, st):
    """[(state, V(ListT) with inline content | Raise | python list)]"""
    if getattr(gen, 'is_async', 0): raise Unsupported('async comprehension at %s' % eng.loc(e))
    out = []
    for x, itv in eng.ev(gen.iter, st):
        if _isR(itv): out.append((x, itv)); continue
        for x2, lv in eng.to_list(x, itv, e):
            out.append((x2, lv))
    return out

def _elt_types(C):
    ts = None
    for kind, cond, vals, p, s in C.cases:
        if kind != 'val': continue
        cur = [v[0] for v in vals]
        ts = cur if ts is None else [join_types(a, b) for a, b in zip(ts, cur)]
    return ts

def generic(eng, e, st, kind):
    if len(e.generators) != 1: raise Unsupported('comprehension with %d for-clauses at %s (needs a comprehension contract)' % (len(e.generators), eng.loc(e)))
    gen = e.generators[0]
    if kind == 'dict': raise Unsupported('dict comprehension at %s (needs a comprehension contract)' % eng.loc(e))
    out = []
    for x, lv in _sources(eng, e, gen, st):
        if _isR(lv): out.append((x, lv)); continue
        if isinstance(lv, list): raise Unsupported('comprehension over a tuple at %s (needs a comprehension contract)' % eng.loc(e))
        if lv.t.elem == ANY:
            out.append((x, eng.alloc(x, ListT(ANY) if kind == 'list' else SetT(ANY), None))); continue
        C = Cases(eng, e, gen, x, lv, [e.elt])
        out.extend(_raise_outcomes(eng, x, C))
        ts = _elt_types(C)
        if ts is None:      # every path raises or skips
            if not any(c[0] == 'skip' for c in C.cases): continue
            et = ANY
        else: et = ts[0]
        i = z3.Int(fresh_name('qi'))
        if kind == 'list':
            if gen.ifs: raise Unsupported('filtering list comprehension at %s (needs a comprehension contract)' % eng.loc(e))
            rt = ListT(et); R = fresh_z(rt, 'comp')
            x.assume(list_len(rt, R) == C.n)
            alts = [z3.And(C.at(cond, i), list_get(rt, R, i) == C.at(coerce(V(vals[0][0], vals[0][1]), et).z if vals[0][0] != et else vals[0][1], i)) for k_, cond, vals, p, s in C.cases if k_ == 'val']
            x.assume(z3.ForAll([i], z3.Implies(C.in_range(i), z3.Or(*alts)), patterns=[list_get(rt, R, i)]))
            eng.assume_note('list comprehension: element i of the result is the element expression at element i of the iterable (expression executed symbolically once)')
            out.append((x, eng.alloc(x, rt, R)))
        else:
            if et == ANY:
                out.append((x, eng.alloc(x, SetT(ANY), None))); continue
            rt = SetT(et); R = fresh_z(rt, 'comp'); y = z3.Const(fresh_name('qy'), sort_of(et))
            wit = z3.Function(fresh_name('witness'), sort_of(et), z3.IntSort())
            vcases = [(cond, coerce(V(vals[0][0], vals[0][1]), et).z if vals[0][0] != et else vals[0][1]) for k_, cond, vals, p, s in C.cases if k_ == 'val']
            for cond, vz in vcases:
                x.assume(z3.ForAll([i], z3.Implies(z3.And(C.in_range(i), C.at(cond, i)), z3.Select(R, C.at(vz, i))), patterns=[list_get(C.t, C.L, i)]))
            x.assume(z3.ForAll([y], z3.Implies(z3.Select(R, y), z3.And(C.in_range(wit(y)), z3.Or(*[z3.And(C.at(cond, wit(y)), C.at(vz, wit(y)) == y) for cond, vz in vcases]))), patterns=[z3.Select(R, y)]))
            eng.assume_note('set comprehension: members are exactly the element expression over the admitted elements of the iterable')
            out.append((x, eng.alloc(x, rt, R)))
    return out

def all_any(eng, e, st, is_all):
    """all(<generator expression>) / any(<generator expression>) with short circuit"""
    g = e.args[0]
    if len(g.generators) != 1: raise Unsupported('all/any over %d for-clauses at %s' % (len(g.generators), eng.loc(e)))
    gen = g.generators[0]; out = []
    for x, lv in _sources(eng, g, gen, st):
        if _isR(lv): out.append((x, lv)); continue
        if isinstance(lv, list): raise Unsupported('all/any over a tuple at %s' % eng.loc(e))
        if lv.t.elem == ANY:
            out.append((x, mk_bool(is_all))); continue
        C = Cases(eng, g, gen, x, lv, [g.elt])
        out.extend(_raise_outcomes(eng, x, C))
        if not C.normal(): continue
        m = z3.Int(fresh_name('stop')); i = z3.Int(fresh_name('qi'))
        x.assume(z3.And(0 <= m, m <= C.n))
        def went_on(idx):      # element idx was evaluated without raising and did not decide the result
            alts = []
            for k_, cond, vals, p, s in C.normal():
                if k_ == 'skip': alts.append(C.at(cond, idx))
                else: alts.append(z3.And(C.at(cond, idx), C.at(vals[0][2] if is_all else z3.Not(vals[0][2]), idx)))
            return z3.Or(*alts)
        def decided(idx):
            alts = [z3.And(C.at(cond, idx), C.at(z3.Not(vals[0][2]) if is_all else vals[0][2], idx)) for k_, cond, vals, p, s in C.normal() if k_ == 'val']
            return z3.Or(*alts) if alts else z3.BoolVal(False)
        x.assume(z3.ForAll([i], z3.Implies(C.in_range(i, m), went_on(i)), patterns=[list_get(C.t, C.L, i)]))
        x.assume(z3.Implies(m < C.n, decided(m)))
        eng.assume_note('all()/any() over a generator: short circuit at the first deciding element; the element expression is executed symbolically once')
        r = (m == C.n) if is_all else (m < C.n)
        out.append((x, mk_bool(r)))
    return out
