# PyVC - symbolic executor / verification condition generator over Python ASTs.
#
# The executor walks the *real* AST of a function from /repo (see extract.py),
# forks at branches, cuts loops at sidecar invariants, replaces calls by
# contracts or axiomatised models, and records proof obligations
# (path condition |- goal) that solve.py hands to z3 / cvc5.
import ast, z3, builtins
from .ty import *

# --------------------------------------------------------------------------
# outcomes
class Raise:
    def __init__(self, exc): self.exc = exc      # Exc
class Ret:
    def __init__(self, v): self.v = v
class Brk: pass
class Cnt: pass
NORMAL = None

class Exc:
    """Exception instance.  cls is the dotted class name (builtins unqualified)."""
    def __init__(self, cls, args=(), attrs=None, origin=None):
        self.cls = cls; self.args = list(args); self.attrs = dict(attrs or {}); self.origin = origin
    def __repr__(self): return 'Exc(%s%s)' % (self.cls, ' @' + self.origin if self.origin else '')

class Closure:
    """A function defined in the verified source (def or lambda) with its defining env."""
    def __init__(self, node, env, cls=None, modinfo=None, name=None, selfv=None):
        self.node = node; self.env = env; self.cls = cls; self.modinfo = modinfo
        self.name = name or getattr(node, 'name', '<lambda>'); self.selfv = selfv

class Dotted:
    """Reference to an external / module-level name, e.g. 'os.path.join'."""
    def __init__(self, name): self.name = name
    def __repr__(self): return 'Dotted(%s)' % self.name

class BoundModel:
    """Method of a model-typed value: dotted method name + receiver."""
    def __init__(self, name, recv): self.name = name; self.recv = recv

class Obligation:
    def __init__(self, name, pc, goal, kind, loc, unit, note=''):
        self.name = name; self.pc = pc; self.goal = goal; self.kind = kind
        self.loc = loc; self.unit = unit; self.note = note
        self.verdict = None; self.by = None; self.ms = 0; self.model = None; self.inputs = None

# --------------------------------------------------------------------------
class State:
    def __init__(self):
        self.frames = []       # stack of dicts name -> V (+ '__fid__', '__cls__', '__closure__', '__mod__')
        self.heap = {}         # ref -> z3 expr (containers) | dict field->V (objects)
        self.pc = []           # list of z3 Bool
        self.ghost = {}        # name -> V / python values
        self.trace = []        # ghost event trace (python tuples), for effect obligations
        self.path = []         # branch decisions (for naming)
        self.exc_stack = []    # currently handled exceptions (for bare raise)
    def fork(self):
        s = State()
        s.frames = [dict(f) for f in self.frames]
        s.heap = {k: (dict(v) if isinstance(v, dict) else v) for k, v in self.heap.items()}
        s.pc = list(self.pc); s.ghost = dict(self.ghost); s.trace = list(self.trace)
        s.path = list(self.path); s.exc_stack = list(self.exc_stack)
        return s
    def assume(self, z):
        if z is True or z is None: return
        self.pc.append(z)

_ref = [0]
def new_ref():
    _ref[0] += 1
    return _ref[0]

# --------------------------------------------------------------------------
BUILTIN_EXC = {}
for _n in dir(builtins):
    _o = getattr(builtins, _n)
    if isinstance(_o, type) and issubclass(_o, BaseException):
        BUILTIN_EXC[_n] = [b.__name__ for b in _o.__mro__[1:] if issubclass(b, BaseException)]
BUILTIN_EXC['EnvironmentError'] = BUILTIN_EXC['OSError']; BUILTIN_EXC['IOError'] = BUILTIN_EXC['OSError']

class Engine:
    def __init__(self, registry, unit=None):
        self.reg = registry            # api.Registry
        self.unit = unit
        self.obligations = []
        self.assumptions = set()       # textual, for evidence
        self.unsat_cache = {}
        self.feas_timeout = 1000
        self._hq = {}
        self.loop_stack = []
        self.depth = 0
        self.stats = {'paths': 0, 'forks': 0, 'pruned': 0}
        self.lenient = 0
        self.axioms_used = set()
        self.sources = set()
        self.modinfo = None
        self.curfile = '?'

    # ---------------------------------------------------------------- util
    def loc(self, node):
        return '%s:%s' % (getattr(self, 'curfile', '?'), getattr(node, 'lineno', '?'))

    def has_quant(self, e):
        k = e.get_id()
        c = self._hq.get(k)
        if c is not None: return c
        r = False
        todo = [e]; seen = set()
        while todo:
            x = todo.pop()
            i = x.get_id()
            if i in seen: continue
            seen.add(i)
            if z3.is_quantifier(x): r = True; break
            todo.extend(x.children())
        self._hq[k] = r
        return r

    def feasible(self, st, extra=None):
        """Over-approximate path feasibility: quantified facts are ignored (keeps more paths, never fewer)."""
        s = z3.Solver(); s.set('timeout', self.feas_timeout)
        for p in st.pc:
            if not self.has_quant(p): s.add(p)
        if extra is not None and not self.has_quant(extra): s.add(extra)
        r = s.check()
        return r != z3.unsat

    def branch(self, st, c, tag=''):
        """Return [(st_true, True), (st_false, False)] for feasible sides."""
        c = z3.simplify(c) if z3.is_expr(c) else z3.BoolVal(bool(c))
        if z3.is_true(c): return [(st, True)]
        if z3.is_false(c): return [(st, False)]
        out = []
        self.stats['forks'] += 1
        for val in (True, False):
            cond = c if val else z3.Not(c)
            if self.feasible(st, cond):
                s2 = st.fork(); s2.assume(cond); s2.path.append((tag, val)); out.append((s2, val))
            else:
                self.stats['pruned'] += 1
        return out

    def oblige(self, st, name, goal, kind='assert', node=None, note=''):
        if isinstance(goal, (list, tuple)): goal = z3.And(*goal) if goal else z3.BoolVal(True)
        if goal is True: goal = z3.BoolVal(True)
        if goal is False: goal = z3.BoolVal(False)
        uname = self.unit.name if self.unit else '?'
        self.obligations.append(Obligation('%s/%s' % (uname, name), list(st.pc), goal, kind,
                                           self.loc(node) if node is not None else '', uname, note))

    def assume_note(self, text): self.assumptions.add(text)

    # ---------------------------------------------------------------- heap
    def alloc(self, st, t, content):
        r = new_ref(); st.heap[r] = content
        return V(t, None, r)
    def deref(self, st, v):
        """z3 expr of an immutable or container value."""
        if v.ref is not None:
            c = st.heap[v.ref]
            if isinstance(c, dict): raise Unsupported('object used as value')
            return c
        return v.z
    def store_val(self, st, v, t=None):
        """Value to put in a container / datatype: snapshot mutable things."""
        t = t or v.t
        if v.ref is not None:
            if isinstance(v.t, ObjT): raise Unsupported('object stored in container')
            return self.deref(st, v)
        if v.t != t: return coerce(v, t).z
        return v.z
    def load_val(self, st, t, z):
        if is_mutable(t):
            v = self.alloc(st, t, z); v.detached = True
            return v
        return V(t, z)
    def setcell(self, st, v, z):
        if v.ref is None: raise Unsupported('mutation of immutable value')
        if v.detached:
            raise Unsupported('mutation of a container obtained from another container (aliasing not modelled)')
        st.heap[v.ref] = z
    def new_obj(self, st, cls, fields):
        return self.alloc(st, ObjT(cls), dict(fields))
    def getfield(self, st, o, name):
        d = st.heap[o.ref]
        if name not in d: return None
        return d[name]
    def setfield(self, st, o, name, v): st.heap[o.ref][name] = v

    def fresh(self, st, t, p='v'):
        if isinstance(t, ObjT):
            spec = self.reg.classes.get(t.cls)
            if spec is None: raise Unsupported('fresh object of undeclared class %s' % t.cls)
            o = self.new_obj(st, t.cls, {})
            for f, ft in spec.fields.items():
                self.setfield(st, o, f, self.fresh(st, ft, p + '.' + f))
            return o
        if is_mutable(t): return self.alloc(st, t, fresh_z(t, p))
        if t == NONE: return mk_none()
        if t == FUNC: raise Unsupported('fresh function value')
        return V(t, fresh_z(t, p))

    def havoc(self, st, v, p='h'):
        """Havoc the content of a mutable value in place (objects: all fields recursively)."""
        if v.ref is None: return
        c = st.heap[v.ref]
        if isinstance(c, dict):
            for f, fv in list(c.items()):
                if fv.ref is not None: self.havoc(st, fv, p + '.' + f)
                elif fv.t in (FUNC, MOD, CLS, EXC) : pass
                elif fv.t == NONE: pass
                else: c[f] = V(fv.t, fresh_z(fv.t, p + '.' + f))
        else:
            st.heap[v.ref] = fresh_z(v.t, p)

    # ---------------------------------------------------------------- truth / compare
    def truth(self, st, v):
        t = v.t
        if t == BOOL: return v.z
        if t == INT: return v.z != 0
        if t == STR or t == BYTES: return z3.Length(self.deref(st, v)) > 0      # (a bytearray is a BYTES value in a heap cell)
        if t == NONE: return z3.BoolVal(False)
        if isinstance(t, OptT):
            inner = self.truth(st, V(t.base, opt_val(t, v.z))) if not is_mutable(t.base) else \
                    self.truth(st, self.load_val(st, t.base, opt_val(t, v.z)))
            return z3.And(z3.Not(opt_is_none(t, v.z)), inner)
        if isinstance(t, ListT): return list_len(t, self.deref(st, v)) > 0
        if isinstance(t, SetT):
            return self.deref(st, v) != z3.K(sort_of(t.elem), z3.BoolVal(False))
        if isinstance(t, DictT):
            return self.deref(st, v) != z3.K(sort_of(t.k), opt_none(opt(t.v)))
        if isinstance(t, TupleT): return z3.BoolVal(len(t.elems) > 0)
        if isinstance(t, ObjT):
            spec = self.reg.classes.get(t.cls)
            if spec is not None and spec.truth is not None: return spec.truth(self, st, v)
            return z3.BoolVal(True)
        if t in (FUNC, CLS, MOD): return z3.BoolVal(True)
        if isinstance(t, OpaqueT):
            if t.n in getattr(self.reg, 'always_truthy', ()): return z3.BoolVal(True)
            f = z3.Function('truthy_' + t.n, sort_of(t), z3.BoolSort())
            return f(v.z)
        raise Unsupported('truth value of %s' % t)

    def eq(self, st, a, b):
        """Python a == b as z3 Bool."""
        if getattr(self.reg, 'dyn', False) and (a.t.name() == 'Dyn' or b.t.name() == 'Dyn' or isinstance(a.t, (PyTupT, RecT, IterT)) or isinstance(b.t, (PyTupT, RecT, IterT))):
            from . import dyn
            return dyn.EQ(dyn.dynify(self, st, a), dyn.dynify(self, st, b))
        if a.t == NONE and b.t == NONE: return z3.BoolVal(True)
        if isinstance(a.t, ObjT) or isinstance(b.t, ObjT):
            if isinstance(a.t, ObjT) and isinstance(b.t, ObjT): return z3.BoolVal(a.ref == b.ref)
            return z3.BoolVal(False)
        if a.t == EXC or b.t == EXC or a.t == FUNC or b.t == FUNC:
            return z3.BoolVal(a.z is b.z)
        if a.t != b.t:
            h = getattr(self.reg, 'eq_hook', None)
            if h is not None:
                r = h(self, st, a, b)
                if r is not None: return r
            try: t = join_types(a.t, b.t)
            except Unsupported:
                if isinstance(a.t, OpaqueT) or isinstance(b.t, OpaqueT):
                    raise Unsupported('== between %s and %s' % (a.t, b.t))
                return z3.BoolVal(False)     # values of different Python types are unequal
            a = V(t, coerce(V(a.t, self.deref(st, a)), t).z) if a.t != t else a
            b = V(t, coerce(V(b.t, self.deref(st, b)), t).z) if b.t != t else b
        return val_eq(a.t, self.deref(st, a), self.deref(st, b))

    def is_none(self, st, v):
        if v.t == NONE: return z3.BoolVal(True)
        if isinstance(v.t, OptT): return opt_is_none(v.t, v.z)
        if isinstance(v.t, OpaqueT) and v.t.n == 'Dyn':
            from . import dyn
            return v.z == dyn.NONE_D                     # an abstract value may be None: both branches are explored
        return z3.BoolVal(False)

    # ---------------------------------------------------------------- exceptions
    def exc_bases(self, cls):
        if cls in BUILTIN_EXC: return [cls] + BUILTIN_EXC[cls]
        info = self.reg.exc_classes.get(cls) or self.reg.exc_classes.get(cls.split('.')[-1])
        if info is not None:
            out = [cls]
            for b in info:
                for x in self.exc_bases(b):
                    if x not in out: out.append(x)
            return out
        return [cls, 'Exception', 'BaseException']
    def exc_matches(self, exc, names):
        bases = self.exc_bases(exc.cls)
        short = [b.split('.')[-1] for b in bases]
        for n in names:
            if n in bases or n.split('.')[-1] in short: return True
        return False
    def raise_(self, st, cls, origin=None, args=(), attrs=None):
        return (st, Raise(Exc(cls, args, attrs, origin)))

    def guard(self, st, ok, exc_cls, node, what):
        """Split on a run-time check.  Returns (list of failing outcomes, ok-state or None)."""
        outs = []; okst = None
        for s2, val in self.branch(st, ok, what):
            if val: okst = s2
            else: outs.append(self.raise_(s2, exc_cls, '%s at %s' % (what, self.loc(node))))
        return outs, okst
