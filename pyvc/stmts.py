# PyVC - statements, loops with sidecar invariants, builtin container methods,
# contract application at call sites and verification of a unit.
import ast, z3
from .ty import *
from .core import *
from .execu import Exec, BoundMethod, BoundBuiltin, MUTATORS, _isR
from .view import SV, W

class Stmts(Exec):
    # ------------------------------------------------------------ blocks
    def exec_block(self, stmts, st):
        """-> list of (state, outcome) with outcome None|Ret|Raise|Brk|Cnt"""
        cur = [(st, NORMAL)]
        for s in stmts:
            nxt = []
            for (x, o) in cur:
                if o is not NORMAL: nxt.append((x, o)); continue
                nxt.extend(self.exec_stmt(s, x))
            cur = nxt
            if len(cur) > self.max_paths:
                raise Unsupported('path explosion (> %d paths) at %s' % (self.max_paths, self.loc(s)))
        return cur

    def exec_stmt(self, s, st):
        m = getattr(self, 'st_' + type(s).__name__, None)
        if m is None: raise Unsupported('statement %s at %s' % (type(s).__name__, self.loc(s)))
        return m(s, st)

    def st_Pass(self, s, st): return [(st, NORMAL)]
    def st_Global(self, s, st): raise Unsupported('global statement at %s' % self.loc(s))
    def st_Nonlocal(self, s, st): raise Unsupported('nonlocal statement at %s' % self.loc(s))
    def st_Import(self, s, st):
        for a in s.names:
            st.frames[-1][(a.asname or a.name).split('.')[0]] = V(MOD, Dotted(a.name if a.asname else a.name.split('.')[0]))
        return [(st, NORMAL)]
    def st_ImportFrom(self, s, st):
        mi = self.modinfo_of(st)
        base = mi.resolve_from(s) if mi is not None else (s.module or '')
        for a in s.names:
            tgt = base + '.' + a.name
            st.frames[-1][a.asname or a.name] = V(CLS, tgt) if self.is_exc_class(tgt) else V(MOD, Dotted(tgt))
        return [(st, NORMAL)]

    def st_Expr(self, s, st):
        if isinstance(s.value, ast.Constant): return [(st, NORMAL)]
        return [(x, v if _isR(v) else NORMAL) for x, v in self.ev(s.value, st)]

    def st_Return(self, s, st):
        if s.value is None: return [(st, Ret(mk_none()))]
        return [(x, v if _isR(v) else Ret(v)) for x, v in self.ev(s.value, st)]

    def st_Break(self, s, st): return [(st, Brk())]
    def st_Continue(self, s, st): return [(st, Cnt())]

    def st_FunctionDef(self, s, st):
        fr = st.frames[-1]
        clo = Closure(s, self.snapshot_env(st), fr.get('__cls__'), self.modinfo_of(st), name=None)
        clo.fid = fr['__fid__']; clo.nested = True
        clo.name = (fr.get('__qual__') or '?') + '.<locals>.' + s.name
        fr[s.name] = V(FUNC, clo)
        return [(st, NORMAL)]
    st_AsyncFunctionDef = st_FunctionDef

    def st_Assert(self, s, st):
        out = []
        for x, c in self.ev(s.test, st):
            if _isR(c): out.append((x, c)); continue
            for y, val in self.branch(x, self.truth(x, c), 'assert@%s' % s.lineno):
                if val: out.append((y, NORMAL))
                else: out.append(self.raise_(y, 'AssertionError', 'assert at %s' % self.loc(s)))
        return out

    def st_Raise(self, s, st):
        if s.exc is None:
            if not st.exc_stack: raise Unsupported('bare raise outside handler')
            return [(st, Raise(st.exc_stack[-1]))]
        out = []
        for x, v in self.ev(s.exc, st):
            if _isR(v): out.append((x, v)); continue
            if v.t == CLS: out.append((x, Raise(Exc(v.z, [], {}, self.loc(s)))))
            elif v.t == EXC: out.append((x, Raise(v.z)))
            else: raise Unsupported('raise of %s' % v.t)
        return out

    def st_Delete(self, s, st):
        cur = [(st, NORMAL)]
        for tgt in s.targets:
            nxt = []
            for x, o in cur:
                if o is not NORMAL: nxt.append((x, o)); continue
                if isinstance(tgt, ast.Name):
                    x.frames[-1].pop(tgt.id, None); nxt.append((x, NORMAL))
                elif isinstance(tgt, ast.Subscript) and not isinstance(tgt.slice, ast.Slice):
                    for y, vals in self.evs([tgt.value, tgt.slice], x):
                        if _isR(vals): nxt.append((y, vals)); continue
                        nxt.extend(self.del_item(y, vals[0], vals[1], tgt))
                else: raise Unsupported('del target at %s' % self.loc(s))
            cur = nxt
        return cur

    def del_item(self, st, c, k, node):
        t = c.t
        if isinstance(t, DictT):
            z = self.deref(st, c); kz = self.store_val(st, k, t.k); ot = opt(t.v)
            outs, ok = self.guard(st, z3.Not(opt_is_none(ot, z3.Select(z, kz))), 'KeyError', node, 'del of missing key')
            if ok is not None:
                self.setcell(ok, c, z3.Store(z, kz, opt_none(ot))); outs.append((ok, NORMAL))
            return outs
        if isinstance(t, ListT) and t.elem != ANY and k.t == INT:
            outs = []
            for x, r in self.bm_list_pop(st, c, [k], {}, node):
                outs.append((x, r if _isR(r) else NORMAL))
            return outs
        h = self.reg.delitem_hook
        if h is not None:
            r = h(self, st, c, k, node)
            if r is not None: return r
        raise Unsupported('del item on %s' % t)

    # ------------------------------------------------------------ assignment
    def st_Assign(self, s, st):
        out = []
        for x, v in self.ev(s.value, st):
            if _isR(v): out.append((x, v)); continue
            cur = [(x, NORMAL)]
            for tgt in s.targets:
                nxt = []
                for y, o in cur:
                    if o is not NORMAL: nxt.append((y, o)); continue
                    nxt.extend(self.assign(y, tgt, v))
                cur = nxt
            out.extend(cur)
        return out

    def st_AnnAssign(self, s, st):
        if s.value is None: return [(st, NORMAL)]
        out = []
        for x, v in self.ev(s.value, st):
            if _isR(v): out.append((x, v)); continue
            out.extend(self.assign(x, s.target, v))
        return out

    def retype_empty(self, st, v, t):
        """Give an empty literal ([] / {} / set()) its declared type."""
        if t is None: return v
        if isinstance(v.t, ListT) and v.t.elem == ANY and isinstance(t, ListT):
            return self.alloc(st, t, list_empty(t))
        if isinstance(v.t, DictT) and v.t.k == ANY:
            if isinstance(t, DictT): return self.alloc(st, t, z3.K(sort_of(t.k), opt_none(opt(t.v))))
            if isinstance(t, SetT): return self.alloc(st, t, z3.K(sort_of(t.elem), z3.BoolVal(False)))
        if isinstance(v.t, SetT) and v.t.elem == ANY and isinstance(t, SetT):
            return self.alloc(st, t, z3.K(sort_of(t.elem), z3.BoolVal(False)))
        return v

    def declared_local(self, st, name):
        lt = st.frames[-1].get('__ltypes__')
        return lt.get(name) if lt else None

    def assign(self, st, tgt, v):
        if isinstance(tgt, ast.Name):
            v = self.retype_empty(st, v, self.declared_local(st, tgt.id))
            st.frames[-1][tgt.id] = v
            return [(st, NORMAL)]
        if isinstance(tgt, (ast.Tuple, ast.List)):
            return self.unpack(st, tgt, v)
        if isinstance(tgt, ast.Attribute):
            out = []
            for x, b in self.ev(tgt.value, st):
                if _isR(b): out.append((x, b)); continue
                out.extend(self.setattr_(x, b, tgt.attr, v, tgt))
            return out
        if isinstance(tgt, ast.Subscript):
            if isinstance(tgt.slice, ast.Slice): raise Unsupported('slice assignment at %s' % self.loc(tgt))
            out = []
            for x, vals in self.evs([tgt.value, tgt.slice], st):
                if _isR(vals): out.append((x, vals)); continue
                out.extend(self.setitem(x, vals[0], vals[1], v, tgt))
            return out
        raise Unsupported('assignment target %s' % type(tgt).__name__)

    def setattr_(self, st, b, attr, v, node):
        if isinstance(b.t, ObjT):
            name = self.mangle(st, attr)
            spec = self.reg.classes.get(b.t.cls)
            ft = spec.fields.get(name) if spec else None
            if ft is None and spec: ft = spec.fields.get(attr)
            v = self.retype_empty(st, v, ft)
            if spec is not None and spec.strict and ft is None:
                raise Unsupported('assignment to undeclared field %s.%s at %s' % (b.t.cls, name, self.loc(node)))
            self.setfield(st, b, name, v)
            return [(st, NORMAL)]
        if isinstance(b.t, OpaqueT) and b.t.n == 'Dyn':
            st.trace.append(('setattr', attr))
            if getattr(getattr(self.reg, 'current_unit', None), 'dyn_attr_store', False):
                # opt-in (loop-free units): attribute stores on abstract objects are remembered; a later read of the same
                # attribute of a possibly aliased receiver sees them (ite chain, see getattr_)
                from . import dyn
                st.ghost['__dynstores'] = ((b.z, self.mangle(st, attr), dyn.dynify(self, st, v)),) + tuple(st.ghost.get('__dynstores', ()))
            return [(st, NORMAL)]
        if isinstance(b.t, OpaqueT):
            key = b.t.n + '.__setattr__.' + attr
            m = self.reg.find_model(key)
            if m is not None: return [(x, o if _isR(o) else NORMAL) for x, o in m(self, st, [b, v], {}, node)]
        if isinstance(b.t, OptT):
            outs, ok = self.guard(st, z3.Not(opt_is_none(b.t, b.z)), 'AttributeError', node, 'attribute assignment on None')
            if ok is not None: outs.extend(self.setattr_(ok, self.load_val(ok, b.t.base, opt_val(b.t, b.z)), attr, v, node))
            return outs
        if b.t == NONE:
            return [self.raise_(st, 'AttributeError', 'attribute assignment on None at %s' % self.loc(node))]
        raise Unsupported('attribute assignment on %s at %s' % (b.t, self.loc(node)))

    def setitem(self, st, c, k, v, node):
        t = c.t
        ph = getattr(self.reg, 'pre_setitem_hook', None)
        if ph is not None: ph(self, st, c, k, v, node)       # observer: may add obligations / ghost updates
        if isinstance(t, DictT):
            if t.k == ANY: raise Unsupported('store into untyped dict at %s (declare its type)' % self.loc(node))
            z = self.deref(st, c)
            self.setcell(st, c, z3.Store(z, self.store_val(st, k, t.k), opt_some(opt(t.v), self.store_val(st, v, t.v))))
            return [(st, NORMAL)]
        if isinstance(t, ListT):
            if t.elem == ANY: return [self.raise_(st, 'IndexError', 'store into empty list')]
            z = self.deref(st, c); n = list_len(t, z); ii = self.norm_index(k.z, n)
            outs, ok = self.guard(st, z3.And(0 <= ii, ii < n), 'IndexError', node, 'list assignment index out of range')
            if ok is not None:
                self.setcell(ok, c, list_mk(t, z3.Store(list_arr(t, z), ii, self.store_val(ok, v, t.elem)), n))
                outs.append((ok, NORMAL))
            return outs
        if isinstance(t, RecT):
            if z3.is_string_value(k.z): c.z[k.z.as_string()] = v; return [(st, NORMAL)]
        h = self.reg.setitem_hook
        if h is not None:
            r = h(self, st, c, k, v, node)
            if r is not None: return r
        raise Unsupported('item assignment on %s at %s' % (t, self.loc(node)))

    def unpack(self, st, tgt, v):
        n = len(tgt.elts)
        if any(isinstance(e, ast.Starred) for e in tgt.elts): raise Unsupported('starred unpack')
        if isinstance(v.t, TupleT):
            if len(v.t.elems) != n:
                return [self.raise_(st, 'ValueError', 'unpack arity at %s' % self.loc(tgt))]
            items = [self.load_val(st, et, tup_get(v.t, v.z, i)) for i, et in enumerate(v.t.elems)]
        elif isinstance(v.t, PyTupT):
            if v.t.n != n: return [self.raise_(st, 'ValueError', 'unpack arity at %s' % self.loc(tgt))]
            items = list(v.z)
        elif isinstance(v.t, ListT):
            z = self.deref(st, v)
            outs, ok = self.guard(st, list_len(v.t, z) == n, 'ValueError', tgt, 'unpack length')
            if ok is None: return outs
            st = ok
            items = [self.load_val(st, v.t.elem, list_get(v.t, z, i)) for i in range(n)]
            res = self._assign_items(st, tgt, items)
            return outs + res
        elif isinstance(v.t, OptT):
            outs, ok = self.guard(st, z3.Not(opt_is_none(v.t, v.z)), 'TypeError', tgt, 'unpack of None')
            if ok is not None: outs.extend(self.unpack(ok, tgt, self.load_val(ok, v.t.base, opt_val(v.t, v.z))))
            return outs
        elif v.t == NONE:
            return [self.raise_(st, 'TypeError', 'unpack of None at %s' % self.loc(tgt))]
        elif v.t.name() == 'Dyn':
            from . import dyn
            items = [V(v.t, dyn.ITEM(v.z, z3.IntVal(i))) for i in range(n)]
        else: raise Unsupported('unpack of %s at %s' % (v.t, self.loc(tgt)))
        return self._assign_items(st, tgt, items)

    def _assign_items(self, st, tgt, items):
        cur = [(st, NORMAL)]
        for e, it in zip(tgt.elts, items):
            nxt = []
            for y, o in cur:
                if o is not NORMAL: nxt.append((y, o)); continue
                nxt.extend(self.assign(y, e, it))
            cur = nxt
        return cur

    def st_AugAssign(self, s, st):
        # target op= value  ==  target = target op value (target evaluated once: fine for names/attrs/subscripts w/o effects)
        load = self.as_load(s.target)
        out = []
        for x, vals in self.evs([load, s.value], st):
            if _isR(vals): out.append((x, vals)); continue
            a, b = vals
            if isinstance(s.op, ast.Add) and isinstance(a.t, ListT):
                # list += iterable mutates in place
                out.extend([(y, o if _isR(o) else NORMAL) for y, o in self.call_builtin_method(x, a, 'extend', [b], {}, s)]); continue
            if isinstance(s.op, ast.BitOr) and isinstance(a.t, SetT):
                out.extend([(y, o if _isR(o) else NORMAL) for y, o in self.call_builtin_method(x, a, 'update', [b], {}, s)]); continue
            for y, r in self.binop(x, s.op, a, b, s):
                if _isR(r): out.append((y, r)); continue
                out.extend(self.assign(y, s.target, r))
        return out

    def as_load(self, t):
        import copy
        t2 = copy.copy(t); t2.ctx = ast.Load(); return t2

    # ------------------------------------------------------------ if / try / with
    def st_If(self, s, st):
        out = []
        for x, c in self.ev(s.test, st):
            if _isR(c): out.append((x, c)); continue
            for y, val in self.branch(x, self.truth(x, c), 'if@%s' % s.lineno):
                self.narrow(y, s.test, val)
                out.extend(self.exec_block(s.body if val else s.orelse, y))
        return out

    def narrow(self, st, test, val):
        """Flow typing for Optional values: after `if x:` / `if x is not None:` (or the negations) the
        name or self-attribute x is known not to be None on the corresponding branch."""
        t = test
        while isinstance(t, ast.UnaryOp) and isinstance(t.op, ast.Not): t = t.operand; val = not val
        target = None; nonnull_when = None
        if isinstance(t, ast.Compare) and len(t.ops) == 1 and isinstance(t.comparators[0], ast.Constant) and t.comparators[0].value is None:
            if isinstance(t.ops[0], ast.IsNot): target = t.left; nonnull_when = True
            elif isinstance(t.ops[0], ast.Is): target = t.left; nonnull_when = False
        elif isinstance(t, (ast.Name, ast.Attribute)): target = t; nonnull_when = True
        elif isinstance(t, ast.BoolOp) and isinstance(t.op, ast.And) and val:
            for sub in t.values: self.narrow(st, sub, True)
            return
        if target is None or val != nonnull_when: return
        return        # representation is never changed; Optional arguments are unwrapped at call sites when the path condition implies it
        if isinstance(target, ast.Name):
            fr = st.frames[-1]; v = fr.get(target.id)
            if isinstance(v, V) and isinstance(v.t, OptT): fr[target.id] = self.load_val(st, v.t.base, opt_val(v.t, v.z))
        elif isinstance(target, ast.Attribute) and isinstance(target.value, ast.Name):
            o = st.frames[-1].get(target.value.id)
            if isinstance(o, V) and isinstance(o.t, ObjT):
                name = self.mangle(st, target.attr)
                v = self.getfield(st, o, name)
                if v is not None and isinstance(v.t, OptT): self.setfield(st, o, name, self.load_val(st, v.t.base, opt_val(v.t, v.z)))

    def handler_names(self, h, st):
        if h.type is None: return ['BaseException']
        ts = h.type.elts if isinstance(h.type, ast.Tuple) else [h.type]
        names = []
        for t in ts:
            n = self.static_name(t)
            if n is None: raise Unsupported('computed exception class in except')
            # resolve through module imports
            try:
                v = self.lookup(st, n.split('.')[0], t)
                if v.t == CLS and '.' not in n: n = v.z
                elif v.t == MOD: n = v.z.name + n[len(n.split('.')[0]):]
            except Unsupported: pass
            names.append(n)
        return names

    def st_Try(self, s, st):
        res = self.exec_block(s.body, st)
        out = []
        for x, o in res:
            if _isR(o):
                handled = False
                for h in s.handlers:
                    if self.exc_matches(o.exc, self.handler_names(h, x)):
                        handled = True
                        if h.name: x.frames[-1][h.name] = V(EXC, o.exc)
                        x.exc_stack.append(o.exc)
                        for y, o2 in self.exec_block(h.body, x):
                            if y.exc_stack: y.exc_stack.pop()
                            if h.name: y.frames[-1].pop(h.name, None)
                            out.append((y, o2))
                        break
                if not handled: out.append((x, o))
            elif o is NORMAL and s.orelse:
                out.extend(self.exec_block(s.orelse, x))
            else:
                out.append((x, o))
        if not s.finalbody: return out
        fin = []
        for x, o in out:
            for y, o2 in self.exec_block(s.finalbody, x):
                fin.append((y, o if o2 is NORMAL else o2))
        return fin
    st_TryStar = None

    def st_With(self, s, st): return self.with_items(s.items, s.body, st, s)
    st_AsyncWith = st_With

    def with_items(self, items, body, st, node):
        if not items: return self.exec_block(body, st)
        it = items[0]
        out = []
        for x, mgr in self.ev(it.context_expr, st):
            if _isR(mgr): out.append((x, mgr)); continue
            for y, ent in self.call_special(x, mgr, '__aenter__' if isinstance(node, ast.AsyncWith) else '__enter__', [], node):
                if _isR(ent): out.append((y, ent)); continue
                cur = [(y, NORMAL)]
                if it.optional_vars is not None: cur = self.assign(y, it.optional_vars, ent)
                for z_, o in cur:
                    if o is not NORMAL: out.append((z_, o)); continue
                    for w, o2 in self.with_items(items[1:], body, z_, node):
                        exitname = '__aexit__' if isinstance(node, ast.AsyncWith) else '__exit__'
                        if _isR(o2):
                            ev = V(EXC, o2.exc)
                            for u, r in self.call_special(w, mgr, exitname, [V(CLS, o2.exc.cls), ev, mk_none()], node):
                                if _isR(r): out.append((u, r)); continue
                                for u2, val in self.branch(u, self.truth(u, r), 'with-exit'):
                                    out.append((u2, NORMAL if val else o2))
                        else:
                            for u, r in self.call_special(w, mgr, exitname, [mk_none(), mk_none(), mk_none()], node):
                                out.append((u, r if _isR(r) else o2))
        return out

    def call_special(self, st, obj, name, args, node):
        rs = self.getattr_(st, obj, name, node)
        out = []
        for x, f in rs:
            if _isR(f): out.append((x, f)); continue
            out.extend(self.call(x, f, args, {}, node))
        return out

    # ------------------------------------------------------------ loops
    def loop_spec(self, node):
        u = self.cur_unit_for_loops
        if u is None: return None
        ordn = self.loop_ordinals.get(id(node))
        return u.loops.get(ordn), ordn

    def modified_in(self, body):
        """Syntactic over-approximation of what a loop body modifies."""
        names = set(); paths = []; anycall = False
        for n in ast.walk(ast.Module(body=body, type_ignores=[])):
            if isinstance(n, ast.Name) and isinstance(n.ctx, (ast.Store, ast.Del)): names.add(n.id)
            elif isinstance(n, (ast.Attribute, ast.Subscript)) and isinstance(n.ctx, (ast.Store, ast.Del)):
                paths.append(n.value if isinstance(n, ast.Subscript) else n)
            elif isinstance(n, ast.AugAssign):
                if isinstance(n.target, ast.Name): names.add(n.target.id)
                else: paths.append(n.target if isinstance(n.target, ast.Attribute) else n.target.value)
            elif isinstance(n, ast.Call):
                anycall = True
                if isinstance(n.func, ast.Attribute) and n.func.attr in MUTATORS: paths.append(n.func.value)
            elif isinstance(n, ast.ExceptHandler) and n.name: names.add(n.name)
        return names, paths, anycall

    PURE_METHODS = {'get', 'items', 'keys', 'values', 'copy', 'startswith', 'endswith', 'encode', 'decode', 'hex',
                    'format', 'join', 'lower', 'upper', 'strip', 'find', 'replace', 'split', 'index', 'count', 'isdigit',
                    'union', 'intersection', 'difference', 'issubset', 'rstrip', 'lstrip', 'rsplit', 'partition'}

    def collect_effects(self, st, nodes, eff, depth=0):
        """Over-approximate what executing `nodes` may modify.  eff: dict with
        names(set), cells(list V), fields(list (obj, fname)), ghost(bool), everything(bool)."""
        if depth > 6: eff['everything'] = True; return
        def pure_eval(expr):
            x = st.fork()
            save = self.obligations; self.obligations = []
            try:
                rs = self.ev(expr, x)
            except (Unsupported, KeyError, AttributeError):
                return None
            finally:
                self.obligations = save
            if len(rs) != 1 or _isR(rs[0][1]): return None
            return rs[0][1]
        def is_pure_path(e):
            while isinstance(e, ast.Attribute): e = e.value
            return isinstance(e, ast.Name)
        def target(p):
            # p: expression whose value is mutated
            if isinstance(p, ast.Attribute):
                if not is_pure_path(p): eff['everything'] = True; return
                b = pure_eval(p.value)
                if b is not None and isinstance(b.t, ObjT): eff['fields'].append((b, self.mangle(st, p.attr)))
                else: eff['everything'] = True
            elif isinstance(p, ast.Name):
                try: v = self.lookup(st, p.id, p)
                except Unsupported: return          # local assigned inside the loop
                if v.ref is not None and not isinstance(v.t, ObjT): eff['cells'].append(v)
            else: eff['everything'] = True
        for top in nodes:
            for n in ast.walk(top):
                if isinstance(n, ast.Name) and isinstance(n.ctx, (ast.Store, ast.Del)): eff['names'].add(n.id)
                elif isinstance(n, ast.Attribute) and isinstance(n.ctx, (ast.Store, ast.Del)): target(n)
                elif isinstance(n, ast.Subscript) and isinstance(n.ctx, (ast.Store, ast.Del)): target(n.value)
                elif isinstance(n, ast.AugAssign):
                    if isinstance(n.target, ast.Name): eff['names'].add(n.target.id)
                    elif isinstance(n.target, ast.Attribute): target(n.target)
                    else: target(n.target.value)
                elif isinstance(n, ast.ExceptHandler) and n.name: eff['names'].add(n.name)
                elif isinstance(n, (ast.With, ast.AsyncWith)): eff['ghost'] = True
                elif isinstance(n, ast.Await): eff['ghost'] = True
                elif isinstance(n, ast.Call):
                    f = n.func
                    if isinstance(f, ast.Attribute) and f.attr in MUTATORS and is_pure_path(f.value):
                        b = pure_eval(f.value)
                        if b is not None and b.ref is not None and not isinstance(b.t, ObjT):
                            if isinstance(f.value, ast.Attribute): target(f.value)
                            else: eff['cells'].append(b)
                            continue
                    if not is_pure_path(f): eff['everything'] = True; continue
                    fv = pure_eval(f)
                    if fv is None: eff['everything'] = True; continue
                    self.callee_effects(st, fv, n, eff, depth)

    def callee_effects(self, st, fv, n, eff, depth):
        from .execu import BoundMethod, BoundBuiltin
        if fv.t == CLS:
            if self.is_exc_class(fv.z): return
            eff['ghost'] = True; return
        name = None; recv = None
        if fv.t == MOD: name = fv.z.name
        elif fv.t == FUNC:
            c = fv.z
            if isinstance(c, BoundBuiltin):
                if c.name in self.PURE_METHODS: return
                if c.name in MUTATORS:
                    if c.recv.ref is not None: eff['cells'].append(c.recv)
                    return
                eff['everything'] = True; return
            if isinstance(c, Closure):
                if self.reg.find_unit(c.name) is not None or self.reg.has_callable(c.name): name = c.name
                elif isinstance(c.node, ast.Lambda): self.collect_effects(st, [c.node.body], {**eff, 'names': set()}, depth + 1); return
                elif getattr(c, 'nested', False):
                    sub = dict(eff); sub['names'] = set()
                    self.collect_effects(st, c.node.body, sub, depth + 1)
                    for k in ('ghost', 'everything'): eff[k] = eff[k] or sub[k]
                    # nonlocal effects of nested functions on captured names are not supported
                    return
                else: eff['everything'] = True; return
            elif isinstance(c, BoundMethod): name = c.cls + '.' + c.name; recv = c.selfv
            elif isinstance(c, BoundModel): name = c.name; recv = c.recv
        elif fv.t.name() == 'Dyn':
            from . import dyn
            recv_z, attr = dyn.decode_attr(fv.z)
            if attr is not None and self.reg.find_model('Dyn.' + attr) is not None and ('Dyn.' + attr) not in self.reg.pure_names: eff['ghost'] = True
            return
        else:
            eff['everything'] = True; return
        u = self.reg.find_unit(name)
        if u is not None:
            if u.inline:
                eff['everything'] = True; return
            if u.modifies_ghost and not u.pure: eff['ghost'] = True
            pnames = list(u.params.keys())
            for path in u.modifies:
                parts = path.split('.')
                if recv is not None and parts[0] == pnames[0] and len(parts) == 2 and isinstance(recv.t, ObjT):
                    eff['fields'].append((recv, self.mangle(st, parts[1], recv.t.cls)))
                else: eff['everything'] = True
            return
        if name in self.reg.pure_names or any(__import__('fnmatch').fnmatchcase(name, p) for p in self.reg.pure_names): return
        if getattr(self.reg, 'dyn', False) and self.reg.find_model(name) is None and self.reg.find_opaque(name) is None:
            short = 'Dyn.' + name.split('.')[-1]
            if self.reg.find_model(short) is not None and short not in self.reg.pure_names: eff['ghost'] = True
            return
        if self.reg.find_model(name) is not None or self.reg.find_opaque(name) is not None:
            eff['ghost'] = True
            eff_fn = self.reg.model_effects.get(name)
            if eff_fn is not None: eff_fn(self, st, recv, n, eff)
            return
        eff['everything'] = True

    def havoc_loop(self, st, body, extra_nodes=()):
        eff = {'names': set(), 'cells': [], 'fields': [], 'ghost': False, 'everything': False}
        self.collect_effects(st, list(body) + list(extra_nodes), eff)
        names = eff['names']; cells = eff['cells']; fields = eff['fields']; everything = eff['everything']
        fr = st.frames[-1]
        if everything:
            self.assume_note('loop at %s: effects not resolved statically; all reachable heap havocked' % self.curfile)
            seen = set()
            for fv in list(fr.values()):
                if isinstance(fv, V) and fv.ref is not None: self.havoc_deep(st, fv, seen)
        else:
            for c in cells: self.havoc(st, c, 'loop')
            for (o, f) in fields:
                cur = self.getfield(st, o, f)
                spec = self.reg.classes.get(o.t.cls)
                ft = spec.fields.get(f) if spec else None
                if cur is None:
                    if ft is not None: self.setfield(st, o, f, self.fresh(st, ft, 'loop.' + f))
                    continue
                if cur.ref is not None and not isinstance(cur.t, ObjT): self.havoc(st, cur, 'loop.' + f)
                elif cur.ref is not None: pass
                elif ft is not None: self.setfield(st, o, f, self.fresh(st, ft, 'loop.' + f))
                elif cur.t not in (FUNC, MOD, CLS, EXC, NONE): self.setfield(st, o, f, V(cur.t, fresh_z(cur.t, 'loop.' + f)))
        for n in names:
            if n in fr and isinstance(fr[n], V):
                v = fr[n]
                lt = self.declared_local(st, n)
                if lt is not None: fr[n] = self.fresh(st, lt, n)
                elif v.ref is not None:
                    if isinstance(v.t, ObjT): continue
                    fr[n] = self.alloc(st, v.t, fresh_z(v.t, n))
                elif v.t in (FUNC, MOD, CLS, EXC, NONE) or isinstance(v.t, (PyTupT, RecT, IterT)):
                    fr.pop(n)       # unknown after havoc; use before re-assignment is Unsupported
                else: fr[n] = V(v.t, fresh_z(v.t, n))
        if eff['ghost'] or everything: self.havoc_ghost(st)

    def havoc_deep(self, st, v, seen):
        if v.ref is None or v.ref in seen: return
        seen.add(v.ref)
        c = st.heap[v.ref]
        if isinstance(c, dict):
            spec = self.reg.classes.get(v.t.cls)
            for f, fv in list(c.items()):
                if fv.ref is not None: self.havoc_deep(st, fv, seen)
                elif fv.t in (FUNC, MOD, CLS, EXC) or isinstance(fv.t, (PyTupT, RecT)): pass
                else:
                    ft = spec.fields.get(f) if spec else None
                    if ft is not None and is_mutable(ft): c[f] = self.fresh(st, ft, f)
                    elif ft is not None: c[f] = V(ft, fresh_z(ft, f))
                    elif fv.t != NONE: c[f] = V(fv.t, fresh_z(fv.t, f))
        else:
            if c is not None: st.heap[v.ref] = fresh_z(v.t, 'h')

    def havoc_ghost(self, st):
        for k, g in list(st.ghost.items()):
            if isinstance(g, V) and k not in self.reg.ghost_const:
                if g.ref is not None: self.havoc(st, g, k)
                elif g.t not in (FUNC, MOD, CLS, EXC, NONE): st.ghost[k] = V(g.t, fresh_z(g.t, k))

    def check_inv(self, st, spec, ordn, phase, old, k=None, node=None):
        if spec is None or spec.inv is None: return
        clauses = spec.inv(SV(self, st), SV(self, old), k) if spec.wants_k else spec.inv(SV(self, st), SV(self, old))
        for name, z in clauses:
            self.oblige(st, 'loop%s/%s:%s' % (ordn, phase, name), z, 'invariant', node)

    def assume_inv(self, st, spec, old, k=None):
        if spec is None or spec.inv is None: return
        clauses = spec.inv(SV(self, st), SV(self, old), k) if spec.wants_k else spec.inv(SV(self, st), SV(self, old))
        for name, z in clauses: st.assume(z)

    def st_While(self, s, st):
        spec, ordn = self.loop_spec(s)
        old = self.unit_old
        if spec is not None and spec.unroll:
            return self.unroll_while(s, st, spec.unroll)
        self.check_inv(st, spec, ordn, 'init', old, node=s)
        h = st.fork()
        self.havoc_loop(h, s.body, [ast.Expr(value=s.test)])
        self.assume_inv(h, spec, old)
        out = []
        for x, c in self.ev(s.test, h):
            if _isR(c): out.append((x, c)); continue
            for y, val in self.branch(x, self.truth(x, c), 'while@%s' % s.lineno):
                if val:
                    dec0 = spec.decreases(SV(self, y)) if spec is not None and spec.decreases else None
                    if dec0 is not None: self.oblige(y, 'loop%s/decreases-nonneg' % ordn, dec0 >= 0, 'termination', s)
                    for w, o in self.exec_block(s.body, y):
                        if o is NORMAL or isinstance(o, Cnt):
                            self.check_inv(w, spec, ordn, 'preserve', old, node=s)
                            if dec0 is not None:
                                self.oblige(w, 'loop%s/decreases' % ordn, spec.decreases(SV(self, w)) < dec0, 'termination', s)
                        elif isinstance(o, Brk): out.append((w, NORMAL))
                        else: out.append((w, o))
                else:
                    out.extend(self.exec_block(s.orelse, y) if s.orelse else [(y, NORMAL)])
        return out

    def unroll_while(self, s, st, n):
        out = []; cur = [st]
        for it in range(n + 1):
            nxt = []
            for x0 in cur:
                for x, c in self.ev(s.test, x0):
                    if _isR(c): out.append((x, c)); continue
                    for y, val in self.branch(x, self.truth(x, c), 'while@%s' % s.lineno):
                        if not val: out.append((y, NORMAL)); continue
                        if it == n: raise Unsupported('while loop at %s exceeds unroll bound %d' % (self.loc(s), n))
                        for w, o in self.exec_block(s.body, y):
                            if o is NORMAL or isinstance(o, Cnt): nxt.append(w)
                            elif isinstance(o, Brk): out.append((w, NORMAL))
                            else: out.append((w, o))
            cur = nxt
            if not cur: break
        return out

    def st_For(self, s, st):
        spec, ordn = self.loop_spec(s)
        old = self.unit_old
        out = []
        for x, itv in self.ev(s.iter, st):
            if _isR(itv): out.append((x, itv)); continue
            for x2, lv in self.to_list(x, itv, s):
                if _isR(lv): out.append((x2, lv)); continue
                live = itv if (isinstance(itv.t, ListT) and itv.ref is not None and not isinstance(itv.ref, tuple) and is_mutable(itv.t.elem)) else None
                out.extend(self.for_list(s, x2, lv, spec, ordn, old, live))
        return out
    st_AsyncFor = None

    def for_list(self, s, st, lv, spec, ordn, old, live=None):
        """lv: python list of V (unrolled) or V of ListT (symbolic length, invariant cut)."""
        out = []
        if isinstance(lv, list):
            cur = [st]
            for item in lv:
                nxt = []
                for x in cur:
                    for y, o in self.assign(x, s.target, item):
                        if o is not NORMAL: out.append((y, o)); continue
                        for w, o2 in self.exec_block(s.body, y):
                            if o2 is NORMAL or isinstance(o2, Cnt): nxt.append(w)
                            elif isinstance(o2, Brk): out.append((w, NORMAL))
                            else: out.append((w, o2))
                cur = nxt
            for x in cur:
                out.extend(self.exec_block(s.orelse, x) if s.orelse else [(x, NORMAL)])
            return out
        t = lv.t
        L = self.deref(st, lv) if lv.ref is not None else lv.z
        if t.elem == ANY:
            return self.exec_block(s.orelse, st) if s.orelse else [(st, NORMAL)]
        n = list_len(t, L)
        kname = '__k%s' % ordn
        self.check_inv_k(st, spec, ordn, 'init', old, z3.IntVal(0), L, s)
        h = st.fork()
        self.havoc_loop(h, s.body, [ast.Assign(targets=[s.target], value=ast.Constant(value=None))])
        k = z3.Int(fresh_name('k'))
        h.assume(z3.And(0 <= k, k <= n))
        h.frames[-1][kname] = V(INT, k)
        h.frames[-1]['__iter%s' % ordn] = V(t, L)
        self.assume_inv_k(h, spec, old, k, L)
        if live is not None:
            # list of mutable elements iterated in place: the elements are write-through references into the list cell;
            # the list keeps its length (the invariant must describe its content after k iterations)
            Lh = h.heap[live.ref]
            h.assume(list_len(t, Lh) == n)
        for y, val in self.branch(h, k < n, 'for@%s' % s.lineno):
            if val:
                if live is not None: item = V(t.elem, None, ('listitem', live.ref, k, t))
                else: item = self.load_val(y, t.elem, list_get(t, L, k))
                for y2, o in self.assign(y, s.target, item):
                    if o is not NORMAL: out.append((y2, o)); continue
                    for w, o2 in self.exec_block(s.body, y2):
                        if o2 is NORMAL or isinstance(o2, Cnt):
                            self.check_inv_k(w, spec, ordn, 'preserve', old, k + 1, L, s)
                        elif isinstance(o2, Brk): out.append((w, NORMAL))
                        else: out.append((w, o2))
            else:
                out.extend(self.exec_block(s.orelse, y) if s.orelse else [(y, NORMAL)])
        return out

    def check_inv_k(self, st, spec, ordn, phase, old, k, L, node):
        if spec is None or spec.inv is None: return
        for name, z in spec.inv(SV(self, st), SV(self, old), k, L):
            self.oblige(st, 'loop%s/%s:%s' % (ordn, phase, name), z, 'invariant', node)
    def assume_inv_k(self, st, spec, old, k, L):
        if spec is None or spec.inv is None: return
        for name, z in spec.inv(SV(self, st), SV(self, old), k, L): st.assume(z)

    def to_list(self, st, v, node):
        """Iterable -> [(state, python list of V | V(ListT))]"""
        t = v.t
        if isinstance(t, ListT): return [(st, V(t, self.deref(st, v)))]
        if isinstance(t, TupleT):
            return [(st, [self.load_val(st, et, tup_get(t, v.z, i)) for i, et in enumerate(t.elems)])]
        if isinstance(t, PyTupT): return [(st, list(v.z))]
        if isinstance(t, SetT):
            if t.elem == ANY: return [(st, [])]
            return [(st, self.perm_of_set(st, t, self.deref(st, v)))]
        if isinstance(t, DictT):
            if t.k == ANY: return [(st, [])]
            return [(st, self.perm_of_keys(st, t, self.deref(st, v)))]
        if isinstance(t, IterT): return [(st, v.z)]
        h = self.reg.iter_hook
        if h is not None:
            r = h(self, st, v, node)
            if r is not None: return r
        raise Unsupported('iteration over %s at %s' % (t, self.loc(node)))

    def perm_of_set(self, st, t, S, alt=None):
        """Arbitrary-order listing of a set: fresh list, duplicate free, same members.
        alt = (member(k), trigger(k)): the same membership stated over another term (e.g. the dictionary), so that
        quantified contract clauses over that term instantiate the listing facts by e-matching."""
        S0 = S; S = fresh_z(t, 'setv'); kk = z3.Const(fresh_name('k'), sort_of(t.elem))
        st.assume(z3.ForAll([kk], z3.Select(S, kk) == z3.Select(S0, kk)))
        lt = ListT(t.elem); L = fresh_z(lt, 'setiter')
        i = z3.Int(fresh_name('i')); j = z3.Int(fresh_name('j')); k = z3.Const(fresh_name('k'), sort_of(t.elem))
        n = list_len(lt, L)
        st.assume(n >= 0)
        st.assume(z3.ForAll([i], z3.Implies(z3.And(0 <= i, i < n), z3.Select(S, list_get(lt, L, i))), patterns=[list_get(lt, L, i)]))
        idx = z3.Function(fresh_name('idx'), sort_of(t.elem), z3.IntSort())
        st.assume(z3.ForAll([k], z3.Implies(z3.Select(S, k), z3.And(0 <= idx(k), idx(k) < n, list_get(lt, L, idx(k)) == k)), patterns=[z3.Select(S, k)]))
        st.assume(z3.ForAll([i], z3.Implies(z3.And(0 <= i, i < n), idx(list_get(lt, L, i)) == i), patterns=[list_get(lt, L, i)]))
        if alt is not None:
            member, trigger = alt
            st.assume(z3.ForAll([k], z3.Implies(member(k), z3.And(0 <= idx(k), idx(k) < n, list_get(lt, L, idx(k)) == k)), patterns=[trigger(k)]))
            st.assume(z3.ForAll([i], z3.Implies(z3.And(0 <= i, i < n), member(list_get(lt, L, i))), patterns=[list_get(lt, L, i)]))
        self.assume_note('set/dict iteration order is arbitrary (fresh duplicate-free listing of the members)')
        v = V(lt, L); v.src = ('listing', idx, n)
        return v

    def perm_of_keys(self, st, t, D):
        ks = z3.Lambda([z3.Const('kk', sort_of(t.k))], z3.Not(opt_is_none(opt(t.v), z3.Select(D, z3.Const('kk', sort_of(t.k))))))
        return self.perm_of_set(st, SetT(t.k), ks, alt=(lambda k: z3.Not(opt_is_none(opt(t.v), z3.Select(D, k))), lambda k: z3.Select(D, k)))
