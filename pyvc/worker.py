# PyVC worker: verify one unit (or list the units) of one property's contract file.
# usage: python3-vt -m pyvc.worker <Cxx> --list | <unit-name> [--both]
import sys, os, json, importlib, time, traceback, z3, hashlib
sys.path.insert(0, os.path.dirname(os.path.dirname(os.path.abspath(__file__))))
from pyvc.api import Registry
from pyvc.ty import *
from pyvc.core import Unsupported
from pyvc.verifier import Verifier, AnchorLost, Vacuous
from pyvc import extract, solve, builtin_models, modelval

def load(prop):
    reg = Registry()
    builtin_models.install(reg)
    reg.exc_classes = extract.exception_classes()
    mod = importlib.import_module('contracts.' + prop)
    units = mod.build(reg)
    return reg, mod, units

def axioms_for(reg, eng):
    ax = []
    for name in sorted(eng.axioms_used):
        f = reg.axioms.get(name)
        if f is not None: ax.extend(f())
    for name, f in reg.axioms.items():
        if name.startswith('always:'): ax.extend(f())
    return ax

def main():
    prop = sys.argv[1]
    reg, mod, units = load(prop)
    if sys.argv[2] == '--list':
        print(json.dumps([{'name': u.name, 'file': u.file, 'qual': u.qual, 'verify': u.verify, 'note': u.note,
                           'kind': getattr(u, 'kind', 'unit')} for u in units]))
        return 0
    uname = sys.argv[2]; both = '--both' in sys.argv
    u = [x for x in units if x.name == uname][0]
    reg.current_unit = u
    res = {'unit': u.name, 'file': u.file, 'qual': u.qual, 'status': 'ok', 'obligations': [], 'assumptions': [],
           'trusted': list(reg.trusted), 'note': u.note}
    t0 = time.time()
    try:
        if getattr(u, 'kind', 'unit') == 'watch':
            # not under contract: only its source hash is tracked; covered by the bounded native search alone
            mi = extract.load(u.file)
            fnode, ci = mi.find_func(u.qual)
            if fnode is None: raise AnchorLost('%s::%s not found' % (u.file, u.qual))
            res['sha256'] = mi.sha(fnode); res['lines'] = [fnode.lineno, fnode.end_lineno]; res['watch_only'] = True
            res['wall_s'] = 0; res['generated'] = 0
            print(json.dumps(res)); return 0
        if getattr(u, 'kind', 'unit') == 'lemma':
            # pure lemma over contracts: u.lemma(reg) -> list of (name, hyps, goal)
            from pyvc.core import Obligation
            eng = Verifier(reg, u)
            obs = []
            for name, hyps, goal in u.lemma(reg, eng):
                obs.append(Obligation('%s/%s' % (u.name, name), list(hyps), goal, 'lemma', '', u.name))
            res['sha256'] = hashlib.sha256(repr(u.name).encode()).hexdigest(); res['lines'] = None
        else:
            mi = extract.load(u.file)
            fnode, ci = mi.find_func(u.qual)
            if fnode is None: raise AnchorLost('%s::%s not found' % (u.file, u.qual))
            res['sha256'] = mi.sha(fnode); res['lines'] = [fnode.lineno, fnode.end_lineno]
            eng = Verifier(reg, u)
            obs = eng.verify_unit(u)
            res['vacuity'] = eng.vacuity; res['stats'] = eng.stats
            extra = sorted(x for x in eng.sources if not (x[0] == u.file and x[1] == fnode.lineno))
            if extra:
                res['inlined_sources'] = [list(x[:3]) for x in extra]
                res['sha256'] = hashlib.sha256((res['sha256'] + ''.join(x[3] for x in extra)).encode()).hexdigest()
        ax = axioms_for(reg, eng)
        res['axioms'] = sorted(eng.axioms_used)
        res['assumptions'] = sorted(eng.assumptions)
        if not obs and u.verify:
            res['status'] = 'vacuous'; res['detail'] = 'zero obligations generated'
        # cover / canary: some path is satisfiable together with the axioms
        only = os.environ.get('PYVC_ONLY')
        shard = None
        for a in sys.argv:
            if a.startswith('--shard='): shard = tuple(int(x) for x in a[8:].split('/'))
        res['generated'] = len(obs)
        undecided_siblings = {}
        for idx, ob in enumerate(obs):
            if only and only not in ob.name: continue
            if shard is not None and idx % shard[1] != shard[0]: continue
            import re as _re
            basen = _re.sub(r'/path\d+$', '', ob.name)
            if undecided_siblings.get(basen, 0) >= 2:
                # two sibling paths of the same clause already exhausted every solver: do not spend the budget again
                ob.verdict = 'undecided'; ob.by = 'skipped: 2 sibling paths of this clause are already undecided'; ob.ms = 0
            else:
                solve.discharge(ob, ax, both=both)
                if ob.verdict == 'undecided': undecided_siblings[basen] = undecided_siblings.get(basen, 0) + 1
            if os.environ.get('PYVC_DUMP') and ob.verdict != 'discharged':
                s_ = z3.Solver()
                for a in ax: s_.add(a)
                for p_ in ob.pc: s_.add(p_)
                s_.add(z3.Not(ob.goal))
                os.makedirs(os.environ['PYVC_DUMP'], exist_ok=True)
                open(os.path.join(os.environ['PYVC_DUMP'], ob.name.replace('/', '_') + '.smt2'), 'w').write(s_.to_smt2())
            d = {'name': ob.name, 'kind': ob.kind, 'verdict': ob.verdict, 'by': ob.by, 'ms': ob.ms, 'loc': ob.loc, 'note': ob.note}
            if ob.verdict == 'refuted' or (ob.verdict == 'undecided' and getattr(ob, 'candidate', False)):
                d['candidate_model'] = ob.verdict != 'refuted'
                d['goal'] = str(z3.simplify(ob.goal))[:400]
                try:
                    d['inputs'] = modelval.inputs_from_model(eng, ob.model) if ob.model is not None else None
                except Exception as ex:
                    d['inputs'] = None; d['inputs_error'] = repr(ex)
                d['model'] = str(ob.model)[:3000] if ob.model is not None else getattr(ob, 'solver_out', None)
            res['obligations'].append(d)
        # canary: the negation of 'False' must be refutable, i.e. the axioms + some path are consistent
        if getattr(u, 'kind', 'unit') != 'lemma':
            sat_paths = 0
            s = z3.Solver(); s.set('timeout', 5000)
            for a in ax: s.add(a)
            if eng.unit_old is not None:
                for p in eng.unit_old.pc: s.add(p)
            r = s.check()
            res['canary'] = {'entry_state_with_axioms': str(r)}
            if r == z3.unsat:
                res['status'] = 'vacuous'; res['detail'] = 'axioms + precondition inconsistent'
    except AnchorLost as ex:
        res['status'] = 'anchor-lost'; res['detail'] = str(ex)
    except Vacuous as ex:
        res['status'] = 'vacuous'; res['detail'] = str(ex)
    except Unsupported as ex:
        res['status'] = 'unsupported'; res['detail'] = str(ex)
    except z3.Z3Exception as ex:
        # a sort error while building a term: the changed code uses values in a way the encoding does not cover
        res['status'] = 'unsupported'; res['detail'] = 'encoding error (%s): %s' % (ex, traceback.format_exc()[-600:])
    except (KeyError, AttributeError, TypeError) as ex:
        # typically a contract clause referring to a local/field that no longer exists or changed its type
        res['status'] = 'anchor-lost'; res['detail'] = 'contract could not be evaluated on the current source (%r): %s' % (ex, traceback.format_exc()[-600:])
    except Exception as ex:
        res['status'] = 'crash'; res['detail'] = traceback.format_exc()
    res['wall_s'] = round(time.time() - t0, 3)
    print(json.dumps(res))
    return 0

if __name__ == '__main__':
    sys.exit(main())
