# PyVC - discharge of proof obligations: z3 (API) first, cvc5 / z3-new CLI on unknown.
import z3, time, subprocess, tempfile, os, re

Z3_TIMEOUT_MS = int(os.environ.get('PYVC_Z3_TIMEOUT_MS', '20000'))
CVC5_TIMEOUT_S = int(os.environ.get('PYVC_CVC5_TIMEOUT_S', '20'))

def _smt2(solver):
    txt = solver.to_smt2()
    return txt

def run_cvc5(smt2, timeout):
    # z3 prints (set-info :status ...) and uses seq.nth_i etc.; cvc5 needs ALL logic
    txt = re.sub(r'\(set-info :status [a-z]+\)', '', smt2)
    txt = '(set-logic ALL)\n' + txt
    with tempfile.NamedTemporaryFile('w', suffix='.smt2', delete=False, dir=os.environ.get('PYVC_TMP', None)) as f:
        f.write(txt); name = f.name
    try:
        p = subprocess.run(['/usr/bin/cvc5', '--strings-exp', '--tlimit=%d' % (timeout * 1000), name],
                           capture_output=True, text=True, timeout=timeout + 5)
        out = p.stdout.strip().split('\n')[0] if p.stdout.strip() else ''
        if out in ('unsat', 'sat', 'unknown'): return out, p.stdout[:2000]
        return 'error:' + (p.stdout + p.stderr).strip().replace('\n', ' ')[:300], ''
    except subprocess.TimeoutExpired:
        return 'unknown', 'timeout'
    finally:
        os.unlink(name)

def run_z3new(smt2, timeout, seed):
    with tempfile.NamedTemporaryFile('w', suffix='.smt2', delete=False, dir=os.environ.get('PYVC_TMP', None)) as f:
        f.write(smt2); name = f.name
    try:
        p = subprocess.run(['z3-new', '-T:%d' % timeout, 'smt.random_seed=%d' % seed, name], capture_output=True, text=True, timeout=timeout + 5)
        out = p.stdout.strip().split('\n')[0] if p.stdout.strip() else ''
        if out in ('unsat', 'sat', 'unknown'): return out
        return 'unknown'
    except subprocess.TimeoutExpired:
        return 'unknown'
    finally:
        os.unlink(name)

def discharge(ob, axioms=(), both=False, want_model=True):
    """Sets ob.verdict in {'discharged','refuted','undecided'}, ob.by, ob.ms, ob.model."""
    t0 = time.time()
    if z3.is_true(z3.simplify(ob.goal)):
        ob.verdict = 'discharged'; ob.by = 'simplifier'; ob.ms = 0; return ob
    s = z3.Solver(); s.set('timeout', Z3_TIMEOUT_MS)
    for a in axioms: s.add(a)
    for p in ob.pc: s.add(p)
    s.add(z3.Not(ob.goal))
    r = s.check()
    ob.ms = int((time.time() - t0) * 1000)
    if r == z3.unsat:
        ob.verdict = 'discharged'; ob.by = 'z3-%s' % z3.get_version_string()
        if both:
            r2, _ = run_cvc5(_smt2(s), CVC5_TIMEOUT_S)
            ob.second = r2
            if r2 == 'sat': ob.verdict = 'disagreement'
        return ob
    if r == z3.sat:
        ob.verdict = 'refuted'; ob.by = 'z3'
        try: ob.model = s.model()
        except z3.Z3Exception: ob.model = None
        return ob
    # unknown: second opinions
    txt = _smt2(s)
    r2, out = run_cvc5(txt, CVC5_TIMEOUT_S)
    ob.ms = int((time.time() - t0) * 1000)
    if r2 == 'unsat': ob.verdict = 'discharged'; ob.by = 'cvc5-1.0'; return ob
    for seed in (7,):
        r3 = run_z3new(txt, 5, seed)
        if r3 == 'unsat':
            ob.verdict = 'discharged'; ob.by = 'z3-new(seed %d)' % seed; ob.ms = int((time.time() - t0) * 1000); return ob
        if r3 == 'sat' or r2 == 'sat':
            break
    if r2 == 'sat':
        ob.verdict = 'refuted'; ob.by = 'cvc5'; ob.model = None; ob.solver_out = out; return ob
    ob.verdict = 'undecided'; ob.by = 'z3:%s cvc5:%s' % (s.reason_unknown(), r2)
    # candidate counter-model: e-matching only (no MBQI); satisfies the ground part and the instances made
    try:
        s2 = z3.Solver(); s2.set('timeout', 5000); s2.set('smt.mbqi', False)
        for a in axioms: s2.add(a)
        for p in ob.pc: s2.add(p)
        s2.add(z3.Not(ob.goal))
        r4 = s2.check()
        if r4 != z3.unsat:
            ob.model = s2.model(); ob.candidate = True
        elif r4 == z3.unsat:
            ob.verdict = 'discharged'; ob.by = 'z3-5.1.0(ematching)'
    except z3.Z3Exception:
        pass
    ob.ms = int((time.time() - t0) * 1000)
    return ob
