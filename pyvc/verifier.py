# PyVC - builtin container/str methods, contract application, unit verification.
import ast, z3
from .ty import *
from .core import *
from .execu import BoundMethod, BoundBuiltin, _isR
from .stmts import Stmts
from .view import SV, W
from . import extract

class Verifier(Stmts):
    max_paths = 400
    cur_unit_for_loops = None
    unit_old = None

    # ------------------------------------------------------------ builtin methods
    def call_builtin_method(self, st, r, name, args, kwargs, node):
        t = r.t
        ph = getattr(self.reg, 'pre_method_hook', None)
        if ph is not None: ph(self, st, r, name, args, node)       # observer: may add obligations / ghost updates, never changes the result
        m = getattr(self, 'bm_%s_%s' % (self.kind_of(t), name), None)
        if m is None:
            h = self.reg.find_model('%s.%s' % (self.kind_of(t), name))
            if h is not None: return h(self, st, [r] + args, kwargs, node)
            raise Unsupported('method %s.%s at %s' % (self.kind_of(t), name, self.loc(node)))
        return m(st, r, args, kwargs, node)

    def kind_of(self, t):
        if isinstance(t, ListT): return 'list'
        if isinstance(t, SetT): return 'set'
        if isinstance(t, DictT): return 'dict'
        if isinstance(t, TupleT): return 'tuple'
        if isinstance(t, RecT): return 'rec'
        return t.name()

    def need_typed(self, r, node):
        t = r.t
        if (isinstance(t, ListT) and t.elem == ANY) or (isinstance(t, SetT) and t.elem == ANY) or (isinstance(t, DictT) and t.k == ANY):
            raise Unsupported('mutation of an untyped empty literal at %s: declare the variable/field type in the contract' % self.loc(node))

    # bytearray: a BYTES value living in a heap cell
    def bm_bytes_extend(self, st, r, args, kw, node):
        if r.ref is None: raise Unsupported('extend on an immutable bytes value at %s' % self.loc(node))
        a = args[0]
        if a.t != BYTES: raise Unsupported('bytearray.extend with %s at %s' % (a.t, self.loc(node)))
        self.setcell(st, r, z3.Concat(self.deref(st, r), self.deref(st, a)))
        return [(st, mk_none())]

    # list
    def bm_list_append(self, st, r, args, kw, node):
        self.need_typed(r, node); t = r.t; z = self.deref(st, r); n = list_len(t, z)
        self.setcell(st, r, list_mk(t, z3.Store(list_arr(t, z), n, self.store_val(st, args[0], t.elem)), n + 1))
        return [(st, mk_none())]
    def bm_list_insert(self, st, r, args, kw, node):
        self.need_typed(r, node); t = r.t; z = self.deref(st, r); n = list_len(t, z)
        i0 = args[0].z; ii = z3.If(i0 < 0, z3.If(i0 + n < 0, z3.IntVal(0), i0 + n), z3.If(i0 > n, n, i0))
        x = self.store_val(st, args[1], t.elem)
        nz = fresh_z(t, 'ins'); j = z3.Int(fresh_name('j'))
        st.assume(list_len(t, nz) == n + 1)
        st.assume(z3.ForAll([j], list_get(t, nz, j) == z3.If(j < ii, list_get(t, z, j), z3.If(j == ii, x, list_get(t, z, j - 1))),
                            patterns=[list_get(t, nz, j)]))
        self.setcell(st, r, nz)
        return [(st, mk_none())]
    def bm_list_pop(self, st, r, args, kw, node):
        t = r.t
        if t.elem == ANY: return [self.raise_(st, 'IndexError', 'pop from empty list at %s' % self.loc(node))]
        z = self.deref(st, r); n = list_len(t, z)
        if not args:
            outs, ok = self.guard(st, n > 0, 'IndexError', node, 'pop from empty list')
            if ok is not None:
                self.setcell(ok, r, list_mk(t, list_arr(t, z), n - 1))
                outs.append((ok, self.load_val(ok, t.elem, list_get(t, z, n - 1))))
            return outs
        i0 = args[0].z; ii = z3.If(i0 < 0, i0 + n, i0)
        outs, ok = self.guard(st, z3.And(0 <= ii, ii < n), 'IndexError', node, 'pop index out of range')
        if ok is not None:
            nz = fresh_z(t, 'pop'); j = z3.Int(fresh_name('j'))
            ok.assume(list_len(t, nz) == n - 1)
            ok.assume(z3.ForAll([j], list_get(t, nz, j) == z3.If(j < ii, list_get(t, z, j), list_get(t, z, j + 1)), patterns=[list_get(t, nz, j)]))
            self.setcell(ok, r, nz)
            outs.append((ok, self.load_val(ok, t.elem, list_get(t, z, ii))))
        return outs
    def bm_list_extend(self, st, r, args, kw, node):
        out = []
        for x, lv in self.to_list(st, args[0], node):
            if _isR(lv): out.append((x, lv)); continue
            if isinstance(lv, list):
                for it in lv: self.bm_list_append(x, r, [it], {}, node)
            else:
                self.need_typed(r, node)
                self.setcell(x, r, self.list_concat(x, r.t, self.deref(x, r), lv.z))
            out.append((x, mk_none()))
        return out
    def bm_list_copy(self, st, r, args, kw, node): return [(st, self.alloc(st, r.t, self.deref(st, r)))]
    def bm_list_clear(self, st, r, args, kw, node):
        if r.t.elem != ANY: self.setcell(st, r, list_empty(r.t))
        return [(st, mk_none())]

    # set
    def bm_set_add(self, st, r, args, kw, node):
        self.need_typed(r, node); z = self.deref(st, r)
        self.setcell(st, r, z3.Store(z, self.store_val(st, args[0], r.t.elem), True)); return [(st, mk_none())]
    def bm_set_discard(self, st, r, args, kw, node):
        if r.t.elem == ANY: return [(st, mk_none())]
        z = self.deref(st, r)
        self.setcell(st, r, z3.Store(z, self.store_val(st, args[0], r.t.elem), False)); return [(st, mk_none())]
    def bm_set_remove(self, st, r, args, kw, node):
        if r.t.elem == ANY: return [self.raise_(st, 'KeyError', 'remove from empty set')]
        z = self.deref(st, r); k = self.store_val(st, args[0], r.t.elem)
        outs, ok = self.guard(st, z3.Select(z, k), 'KeyError', node, 'set.remove of missing element')
        if ok is not None:
            self.setcell(ok, r, z3.Store(z, k, False)); outs.append((ok, mk_none()))
        return outs
    def bm_set_pop(self, st, r, args, kw, node):
        # removes and returns an ARBITRARY member; KeyError on the empty set
        if r.t.elem == ANY: return [self.raise_(st, 'KeyError', 'pop from an empty set')]
        z = self.deref(st, r); x = fresh_z(r.t.elem, 'popped')
        empty = z3.K(sort_of(r.t.elem), z3.BoolVal(False))
        outs, ok = self.guard(st, z != empty, 'KeyError', node, 'pop from an empty set')
        if ok is not None:
            ok.assume(z3.Select(z, x))
            self.setcell(ok, r, z3.Store(z, x, False)); outs.append((ok, V(r.t.elem, x)))
        return outs
    def bm_set_copy(self, st, r, args, kw, node): return [(st, self.alloc(st, r.t, self.deref(st, r)))]
    def bm_set_isdisjoint(self, st, r, args, kw, node):
        a = args[0]
        if not isinstance(a.t, SetT) or a.t != r.t: raise Unsupported('isdisjoint with %s' % a.t)
        k = z3.Const(fresh_name('k'), sort_of(r.t.elem))
        return [(st, mk_bool(z3.ForAll([k], z3.Not(z3.And(z3.Select(self.deref(st, r), k), z3.Select(self.deref(st, a), k))))))]
    def bm_set_update(self, st, r, args, kw, node):
        self.need_typed(r, node)
        a = args[0]
        if isinstance(a.t, SetT):
            if a.t.elem == ANY: return [(st, mk_none())]
            za, zb = self.deref(st, r), self.deref(st, a)
            k = z3.Const(fresh_name('k'), sort_of(r.t.elem))
            self.setcell(st, r, z3.Lambda([k], z3.Or(z3.Select(za, k), z3.Select(zb, k))))
            return [(st, mk_none())]
        out = []
        for x, lv in self.to_list(st, a, node):
            if _isR(lv): out.append((x, lv)); continue
            if isinstance(lv, list):
                for it in lv: self.bm_set_add(x, r, [it], {}, node)
            else:
                za = self.deref(x, r); k = z3.Const(fresh_name('k'), sort_of(r.t.elem)); i = z3.Int(fresh_name('i'))
                lt = lv.t
                self.setcell(x, r, z3.Lambda([k], z3.Or(z3.Select(za, k),
                    z3.Exists([i], z3.And(0 <= i, i < list_len(lt, lv.z), list_get(lt, lv.z, i) == k)))))
            out.append((x, mk_none()))
        return out

    # dict
    def bm_dict_get(self, st, r, args, kw, node):
        t = r.t
        d = args[1] if len(args) > 1 else mk_none()
        if t.k == ANY: return [(st, d)]
        z = self.deref(st, r); o = z3.Select(z, self.store_val(st, args[0], t.k)); ot = opt(t.v)
        out = []
        for x, val in self.branch(st, opt_is_none(ot, o), 'dict.get'):
            if val: out.append((x, d))
            else: out.append((x, self.load_val(x, t.v, opt_val(ot, o))))
        return out
    def bm_dict_setdefault(self, st, r, args, kw, node):
        self.need_typed(r, node); t = r.t
        z = self.deref(st, r); k = self.store_val(st, args[0], t.k); o = z3.Select(z, k); ot = opt(t.v)
        out = []
        for x, val in self.branch(st, opt_is_none(ot, o), 'dict.setdefault'):
            if val:
                d = self.retype_empty(x, args[1] if len(args) > 1 else mk_none(), t.v)
                dv = self.store_val(x, d, t.v)
                self.setcell(x, r, z3.Store(z, k, opt_some(ot, dv)))
                if is_mutable(t.v):
                    out.append((x, self.dict_item_ref(x, r, k)))
                else: out.append((x, d))
            else:
                if is_mutable(t.v): out.append((x, self.dict_item_ref(x, r, k)))
                else: out.append((x, self.load_val(x, t.v, opt_val(ot, o))))
        return out
    def dict_item_ref(self, st, d, k):
        """Mutable element of a dict: a write-through reference (d[k] is re-stored on mutation)."""
        t = d.t
        v = V(t.v, None, ('item', d.ref, k))
        return v
    def bm_dict_pop(self, st, r, args, kw, node):
        t = r.t
        if t.k == ANY:
            return [(st, args[1])] if len(args) > 1 else [self.raise_(st, 'KeyError', 'pop from empty dict')]
        z = self.deref(st, r); k = self.store_val(st, args[0], t.k); o = z3.Select(z, k); ot = opt(t.v)
        out = []
        for x, val in self.branch(st, opt_is_none(ot, o), 'dict.pop'):
            if val:
                if len(args) > 1: out.append((x, args[1]))
                else: out.append(self.raise_(x, 'KeyError', 'dict.pop of missing key at %s' % self.loc(node)))
            else:
                self.setcell(x, r, z3.Store(z, k, opt_none(ot)))
                out.append((x, self.load_val(x, t.v, opt_val(ot, o))))
        return out
    def bm_dict_copy(self, st, r, args, kw, node):
        if r.t.k == ANY: return [(st, self.alloc(st, r.t, None))]
        return [(st, self.alloc(st, r.t, self.deref(st, r)))]
    def bm_dict_keys(self, st, r, args, kw, node):
        if r.t.k == ANY: return [(st, V(IterT(), []))]
        t = r.t; D = self.deref(st, r); kk = z3.Const(fresh_name('kk'), sort_of(t.k))
        return [(st, self.alloc(st, SetT(t.k), z3.Lambda([kk], z3.Not(opt_is_none(opt(t.v), z3.Select(D, kk))))))]
    def bm_dict_values(self, st, r, args, kw, node):
        t = r.t
        if t.k == ANY: return [(st, V(IterT(), []))]
        D = self.deref(st, r); ks = self.perm_of_keys(st, t, D)
        lt = ListT(t.v); L = fresh_z(lt, 'values'); i = z3.Int(fresh_name('i'))
        klt = ks.t
        st.assume(list_len(lt, L) == list_len(klt, ks.z))
        st.assume(z3.ForAll([i], z3.Implies(z3.And(0 <= i, i < list_len(lt, L)),
                  list_get(lt, L, i) == opt_val(opt(t.v), z3.Select(D, list_get(klt, ks.z, i)))), patterns=[list_get(lt, L, i)]))
        r_ = V(IterT(), V(lt, L)); r_.src = ('dict-values', t, D)
        return [(st, r_)]
    def bm_dict_items(self, st, r, args, kw, node):
        t = r.t
        if t.k == ANY: return [(st, V(IterT(), []))]
        D = self.deref(st, r); ks = self.perm_of_keys(st, t, D)
        v = V(IterT(), self.items_of(st, t, D, ks)); v.src = ('dict-items', t, D)       # lets sorted() hooks see the dictionary
        return [(st, v)]
    def items_of(self, st, t, D, ks):
        tt = TupleT(t.k, t.v); lt = ListT(tt); L = fresh_z(lt, 'items'); i = z3.Int(fresh_name('i'))
        klt = ks.t
        st.assume(list_len(lt, L) == list_len(klt, ks.z))
        st.assume(z3.ForAll([i], z3.Implies(z3.And(0 <= i, i < list_len(lt, L)),
                  list_get(lt, L, i) == tup_mk(tt, [list_get(klt, ks.z, i), opt_val(opt(t.v), z3.Select(D, list_get(klt, ks.z, i)))])),
                  patterns=[list_get(lt, L, i)]))
        if getattr(ks, 'src', None) is not None and ks.src[0] == 'listing':
            # every present key has its item in the listing (triggered by a lookup in the dictionary, so that contract clauses
            # quantified over keys reach the per-index loop invariants)
            idx = ks.src[1]; k = z3.Const(fresh_name('k'), sort_of(t.k))
            st.assume(z3.ForAll([k], z3.Implies(z3.Not(opt_is_none(opt(t.v), z3.Select(D, k))),
                      list_get(lt, L, idx(k)) == tup_mk(tt, [k, opt_val(opt(t.v), z3.Select(D, k))])), patterns=[z3.Select(D, k)]))
        return V(lt, L)
    def bm_dict_update(self, st, r, args, kw, node):
        self.need_typed(r, node)
        a = args[0]
        if isinstance(a.t, DictT):
            if a.t.k == ANY: return [(st, mk_none())]
            za, zb = self.deref(st, r), self.deref(st, a); ot = opt(r.t.v)
            k = z3.Const(fresh_name('k'), sort_of(r.t.k))
            self.setcell(st, r, z3.Lambda([k], z3.If(opt_is_none(ot, z3.Select(zb, k)), z3.Select(za, k), z3.Select(zb, k))))
            return [(st, mk_none())]
        raise Unsupported('dict.update with %s' % a.t)

    # str / bytes
    def bm_str_startswith(self, st, r, args, kw, node):
        a = args[0]
        if isinstance(a.t, TupleT): return [(st, mk_bool(z3.Or(*[z3.PrefixOf(tup_get(a.t, a.z, i), r.z) for i in range(len(a.t.elems))])))]
        return [(st, mk_bool(z3.PrefixOf(a.z, r.z)))]
    def bm_str_endswith(self, st, r, args, kw, node):
        a = args[0]
        if isinstance(a.t, TupleT): return [(st, mk_bool(z3.Or(*[z3.SuffixOf(tup_get(a.t, a.z, i), r.z) for i in range(len(a.t.elems))])))]
        return [(st, mk_bool(z3.SuffixOf(a.z, r.z)))]
    def bm_str_lstrip(self, st, r, args, kw, node):
        h = self.reg.find_model('str.lstrip')
        if h is not None: return h(self, st, [r] + args, kw, node)
        raise Unsupported('str.lstrip')
    bm_bytes_startswith = bm_str_startswith; bm_bytes_endswith = bm_str_endswith
    def bm_str_encode(self, st, r, args, kw, node):
        if args and not (z3.is_string_value(args[0].z) and args[0].z.as_string().lower().replace('-', '') == 'utf8'):
            g = z3.Function('ENC_locale_replace', z3.StringSort(), sort_of(BYTES))       # some other codec: uninterpreted
            return [(st, V(BYTES, g(r.z)))]
        f = z3.Function('utf8_encode', z3.StringSort(), sort_of(BYTES)); self.use_axiom('utf8')
        return [(st, V(BYTES, f(r.z)))]
    def bm_bytes_decode(self, st, r, args, kw, node):
        f = z3.Function('utf8_decode', sort_of(BYTES), z3.StringSort()); self.use_axiom('utf8')
        g = z3.Function('utf8_valid', sort_of(BYTES), z3.BoolSort())
        outs, ok = self.guard(st, g(r.z), 'UnicodeDecodeError', node, 'decode of invalid utf8')
        if ok is not None: outs.append((ok, V(STR, f(r.z))))
        return outs
    def bm_bytes_hex(self, st, r, args, kw, node):
        f = z3.Function('bytes_hex', sort_of(BYTES), z3.StringSort()); self.use_axiom('hex')
        return [(st, V(STR, f(r.z)))]
    def bm_str_format(self, st, r, args, kw, node):
        h = self.reg.find_model('str.format')
        if h is not None:
            x = h(self, st, [r] + args, kw, node)
            if x is not None: return x
        return [(st, V(STR, fresh_z(STR, 'fmt')))]
    def bm_str_lower(self, st, r, args, kw, node):
        f = z3.Function('str_lower', z3.StringSort(), z3.StringSort()); return [(st, V(STR, f(r.z)))]
    def bm_str_upper(self, st, r, args, kw, node):
        f = z3.Function('str_upper', z3.StringSort(), z3.StringSort()); return [(st, V(STR, f(r.z)))]
    def bm_str_strip(self, st, r, args, kw, node):
        f = z3.Function('str_strip', z3.StringSort(), z3.StringSort()); return [(st, V(STR, f(r.z)))]
    def bm_str_find(self, st, r, args, kw, node):
        start = args[1].z if len(args) > 1 else z3.IntVal(0)
        return [(st, mk_int(z3.IndexOf(r.z, args[0].z, start)))]
    def bm_str_replace(self, st, r, args, kw, node):
        f = z3.Function('str_replace_all', z3.StringSort(), z3.StringSort(), z3.StringSort(), z3.StringSort())
        return [(st, V(STR, f(r.z, args[0].z, args[1].z)))]
    def bm_str_join(self, st, r, args, kw, node):
        out = []
        for x, lv in self.to_list(st, args[0], node):
            if _isR(lv): out.append((x, lv)); continue
            if isinstance(lv, list):
                zs = []
                for i, it in enumerate(lv):
                    if i: zs.append(r.z)
                    zs.append(it.z)
                e = z3.StringVal('') if r.t == STR else z3.Empty(sort_of(BYTES))
                out.append((x, V(r.t, z3.Concat(*zs) if len(zs) > 1 else (zs[0] if zs else e))))
            else:
                f = z3.Function('join_' + r.t.name(), sort_of(r.t), sort_of(lv.t), sort_of(r.t)); self.use_axiom('join_' + r.t.name())
                out.append((x, V(r.t, f(r.z, lv.z))))
        return out
    bm_bytes_join = bm_str_join

    # ------------------------------------------------------------ deref of write-through dict items
    def deref(self, st, v):
        if isinstance(v.ref, tuple) and v.ref[0] == 'listitem':
            _, lref, idx, lt = v.ref
            return list_get(lt, st.heap[lref], idx)
        if isinstance(v.ref, tuple) and v.ref[0] == 'item':
            _, dref, k = v.ref
            D = st.heap[dref]
            # dict value type: find from v.t
            return opt_val(opt(v.t), z3.Select(D, k))
        return Stmts.deref(self, st, v)
    def setcell(self, st, v, z):
        if isinstance(v.ref, tuple) and v.ref[0] == 'listitem':
            _, lref, idx, lt = v.ref
            L = st.heap[lref]
            st.heap[lref] = list_mk(lt, z3.Store(list_arr(lt, L), idx, z), list_len(lt, L))
            return
        if isinstance(v.ref, tuple) and v.ref[0] == 'item':
            _, dref, k = v.ref
            st.heap[dref] = z3.Store(st.heap[dref], k, opt_some(opt(v.t), z))
            return
        return Stmts.setcell(self, st, v, z)

    # ------------------------------------------------------------ contracts at call sites
    def bind_unit_args(self, st, u, args, kwargs, node):
        names = list(u.params.keys())
        bound = {}
        if len(args) > len(names): raise Unsupported('too many args for %s at %s' % (u.dotted, self.loc(node)))
        for n, v in zip(names, args): bound[n] = v
        for k, v in kwargs.items(): bound[k] = v
        fnode = self.unit_node(u)
        a = fnode.args
        params = [p.arg for p in a.posonlyargs + a.args]
        nd = len(a.defaults)
        for i, p in enumerate(params):
            if p not in bound:
                j = i - (len(params) - nd)
                if j < 0: raise Unsupported('missing argument %s for %s at %s' % (p, u.dotted, self.loc(node)))
                bound[p] = self.ev(a.defaults[j], st)[0][1]
        # coerce to declared types
        for n, t in u.params.items():
            if n in bound and isinstance(t, T):
                v = bound[n]
                if v.t != t and v.ref is None and not is_mutable(t) and v.t not in (FUNC, EXC, MOD, CLS):
                    try: bound[n] = coerce(v, t)
                    except Unsupported: raise Unsupported('argument %s of %s: have %s, contract declares %s at %s' % (n, u.dotted, v.t, t, self.loc(node)))
        return bound

    def unit_node(self, u):
        mi = extract.load(u.file)
        node, ci = mi.find_func(u.qual)
        if node is None: raise AnchorLost('%s::%s' % (u.file, u.qual))
        return node

    def apply_contract(self, st, u, args, kwargs, node):
        if u.inline:
            mi = extract.load(u.file); fnode, ci = mi.find_func(u.qual)
            if fnode is None: raise AnchorLost('%s::%s' % (u.file, u.qual))
            clo = Closure(fnode, {}, ci.qual if ci else None, mi, name=u.dotted)
            return self.inline(st, clo, args, kwargs, node)
        bound = self.bind_unit_args(st, u, args, kwargs, node)
        captured = {}
        for n_ in getattr(u, 'closure', ()):
            # free variables of a nested function: the very cells of the enclosing activation (aliased, not copied)
            for fr_ in reversed(st.frames):
                if n_ in fr_: captured[n_] = fr_[n_]; break
            else: raise Unsupported('closure variable %s of %s not found at %s' % (n_, u.dotted, self.loc(node)))
        fr = self.push_frame(st); fr.update(captured); fr.update(bound); fr['__contract_frame__'] = True
        sv = SV(self, st)
        if u.requires is not None:
            for name, z in u.requires(sv):
                self.oblige(st, 'call:%s/pre:%s@%s' % (u.name, name, getattr(node, 'lineno', '?')), z, 'precondition', node)
        old = st.fork()
        out = []
        # exceptional outcomes
        for cls, cond in u.raises.items():
            c = cond(SV(self, old)) if callable(cond) else z3.BoolVal(True)
            if c is False: continue
            x = st.fork()
            if c is not True: x.assume(c)
            if not self.feasible(x): continue
            self.havoc_modifies(x, u)
            for name, ecls, fn in u.ensures_exc:
                if ecls == cls or ecls == '*': x.assume(fn(SV(self, old), SV(self, x)))
            self.pop_frame(x)
            out.append((x, Raise(Exc(cls, [], {}, 'contract of %s at %s' % (u.name, self.loc(node))))))
        self.havoc_modifies(st, u)
        res = self.fresh(st, u.result, 'res_' + u.name.split('.')[-1]) if u.result != NONE else mk_none()
        for name, fn in u.ensures:
            z = fn(SV(self, old), SV(self, st), W(self, st, res))
            if isinstance(z, (list, tuple)):
                for q in z: st.assume(q)
            else: st.assume(z)
        self.pop_frame(st)
        if self.feasible(st): out.append((st, res))
        return out

    def havoc_modifies(self, st, u):
        fr = st.frames[-1]
        for path in u.modifies:
            parts = path.split('.')
            v = fr.get(parts[0])
            if v is None: continue
            obj = None; fname = None
            for p in parts[1:]:
                obj = v
                d = st.heap[v.ref]
                fname = p if p in d else self.mangle(st, p, v.t.cls)
                if fname not in d:
                    spec = self.reg.classes.get(v.t.cls)
                    ft = spec.fields.get(fname) if spec else None
                    if ft is None: raise Unsupported('modifies path %s: no field %s' % (path, p))
                    d[fname] = self.fresh(st, ft, fname)
                v = d[fname]
            if v.ref is not None and not isinstance(v.ref, tuple): self.havoc(st, v, path)
            elif obj is not None:
                spec = self.reg.classes.get(obj.t.cls)
                ft = spec.fields.get(fname) if spec else None
                t = ft or v.t
                st.heap[obj.ref][fname] = self.fresh(st, t, path)
        if u.modifies_ghost and not u.pure: self.havoc_ghost_listed(st, u)

    def havoc_ghost_listed(self, st, u):
        names = u.modifies_ghost if isinstance(u.modifies_ghost, (list, tuple)) else None
        if names is None:
            self.havoc_ghost(st); return
        for k in names:
            g = st.ghost.get(k)
            if isinstance(g, V):
                if g.ref is not None: self.havoc(st, g, k)
                else: st.ghost[k] = V(g.t, fresh_z(g.t, k))

    # ------------------------------------------------------------ verification of a unit
    def number_loops(self, fnode):
        self.loop_ordinals = {}
        n = 0
        def walk(node):
            nonlocal n
            for ch in ast.iter_child_nodes(node):
                if isinstance(ch, (ast.FunctionDef, ast.AsyncFunctionDef, ast.Lambda, ast.ClassDef)): continue
                if isinstance(ch, (ast.For, ast.While, ast.AsyncFor)):
                    n += 1; self.loop_ordinals[id(ch)] = n
                walk(ch)
        walk(fnode)
        return n

    def init_state(self, u, fnode, ci, mi):
        st = State()
        fr = self.push_frame(st, cls=ci.qual if ci else None)
        fr['__mod__'] = mi; fr['__qual__'] = u.dotted; fr['__ltypes__'] = u.locals_types
        if u.ghost_init is not None: u.ghost_init(self, st)
        a = fnode.args
        params = [p.arg for p in a.posonlyargs + a.args + a.kwonlyargs]
        for p in params:
            if p not in u.params: raise AnchorLost('%s: parameter %s has no declared type (signature changed?)' % (u.dotted, p))
        for p in u.params:
            if p not in params: raise AnchorLost('%s: declared parameter %s no longer exists' % (u.dotted, p))
        for p, t in u.params.items():
            if callable(t) and not isinstance(t, T): fr[p] = t(self, st)
            else: fr[p] = self.fresh(st, t, p)
        for p, t in (getattr(u, 'block_locals', None) or {}).items():
            fr[p] = t(self, st) if (callable(t) and not isinstance(t, T)) else self.fresh(st, t, p)
        for p, t in u.params.items():
            v = fr[p]
            if isinstance(v.t, ObjT):
                spec = self.reg.classes.get(v.t.cls)
                if spec is not None and spec.invariant is not None:
                    for name, z in spec.invariant(W(self, st, v)): st.assume(z)
        return st

    def verify_unit(self, u):
        self.unit = u
        mi = extract.load(u.file)
        fnode, ci = mi.find_func(u.qual)
        if fnode is None: raise AnchorLost('%s::%s not found' % (u.file, u.qual))
        self.modinfo = mi; self.curfile = u.file
        nloops = self.number_loops(fnode)
        for k in u.loops:
            if k > nloops: raise AnchorLost('%s: loop #%d has a contract but the function has only %d loops' % (u.dotted, k, nloops))
        self.cur_unit_for_loops = u
        self.max_paths = u.max_paths
        st = self.init_state(u, fnode, ci, mi)
        sv = SV(self, st)
        if u.requires is not None:
            for name, z in u.requires(sv): st.assume(z)
        if u.entry_hook is not None: u.entry_hook(self, st)
        # vacuity: precondition satisfiable
        s = z3.Solver(); s.set('timeout', 10000)
        for p in st.pc: s.add(p)
        r = s.check()
        self.vacuity = {'requires_sat': str(r)}
        if r == z3.unsat: raise Vacuous('%s: precondition is unsatisfiable' % u.dotted)
        old = st.fork(); self.unit_old = old
        body = fnode.body
        blk = getattr(u, 'block', None)
        if blk is not None:
            # block unit: statements [start, end) of the function body (top level), found by the text they start with.
            # The statements before the block are NOT executed: what the block needs from them is the declared entry
            # condition over u.block_locals (requires) -- an ASSUMED contract, listed in the evidence.
            def find(marker, frm=0):
                for i in range(frm, len(body)):
                    if ast.unparse(body[i]).lstrip().startswith(marker): return i
                return None
            a = find(blk[0]); b = len(body) if blk[1] is None else (find(blk[1], (a or 0) + 1) if a is not None else None)
            if a is None or b is None: raise AnchorLost('%s: block marker %r not found' % (u.dotted, blk[0] if a is None else blk[1]))
            self.assume_note('BLOCK UNIT: only lines %d-%d of %s are verified; the statements before them are summarised by the assumed entry condition over %s'
                             % (body[a].lineno, body[b - 1].end_lineno, u.qual, ', '.join(sorted(getattr(u, 'block_locals', {}) or {}))))
            body = body[a:b]
        res = self.exec_block(body, st)
        self.stats['paths'] = len(res)
        normal = 0
        for i, (x, o) in enumerate(res):
            tag = 'path%d' % (i + 1)
            if _isR(o):
                allowed = None
                for cls in u.raises:
                    if self.exc_matches(o.exc, [cls]): allowed = cls; break
                if allowed is None:
                    self.oblige(x, 'raises:%s/%s' % (o.exc.cls, tag), False, 'exception-discipline', None,
                                note='%s escapes (%s)' % (o.exc.cls, o.exc.origin))
                else:
                    cond = u.raises[allowed]
                    if callable(cond):
                        c = cond(SV(self, old))
                        if c is not True: self.oblige(x, 'raises-when:%s/%s' % (allowed, tag), c, 'exception-discipline')
                    for name, ecls, fn in u.ensures_exc:
                        if ecls == '*' or self.exc_matches(o.exc, [ecls]):
                            self.oblige(x, 'post-exc:%s/%s' % (name, tag), fn(SV(self, old), SV(self, x)), 'postcondition')
                if u.exit_hook is not None: u.exit_hook(self, x, o, tag)
                continue
            normal += 1
            rv = o.v if isinstance(o, Ret) else mk_none()
            if u.result != NONE and u.result is not None and rv.t != u.result and rv.ref is None and rv.t not in (FUNC, EXC, MOD, CLS):
                try: rv = coerce(rv, u.result)
                except Unsupported: raise Unsupported('%s returns %s, contract declares %s' % (u.dotted, rv.t, u.result))
            for name, fn in u.ensures:
                z = fn(SV(self, old), SV(self, x), W(self, x, rv))
                self.oblige(x, 'post:%s/%s' % (name, tag), z, 'postcondition')
            if u.exit_hook is not None: u.exit_hook(self, x, o, tag)
        self.vacuity['normal_paths'] = normal
        self.vacuity['paths'] = len(res)
        return self.obligations

class AnchorLost(Exception): pass
class Vacuous(Exception): pass
