# PyVC - contract DSL used by the sidecar files in /verif/contracts.
import z3, fnmatch
from .ty import *
from . import extract

class LoopSpec:
    """Loop contract, keyed by loop ordinal (source order, 1-based) inside the function.
    inv(cur, old)            for while loops      -> list of (name, z3 Bool)
    inv(cur, old, k, L)      for for loops; k = number of completed iterations, L = iterated list (z3)
    """
    def __init__(self, inv=None, decreases=None, unroll=0):
        self.inv = inv; self.decreases = decreases; self.unroll = unroll
        self.wants_k = False

class ClassSpec:
    def __init__(self, name, fields, invariant=None, strict=False, methods=(), truth=None):
        self.name = name; self.fields = dict(fields); self.invariant = invariant
        self.strict = strict; self.methods = set(methods); self.truth = truth

class Unit:
    """A function of /repo under contract."""
    def __init__(self, file, qual, params, prop, requires=None, ensures=(), raises=None,
                 ensures_exc=(), loops=None, modifies=(), result=NONE, verify=True, inline=False,
                 locals_types=None, name=None, ghost_init=None, note='', max_paths=400,
                 modifies_ghost=True, canary=None, replay=None, entry_hook=None, exit_hook=None,
                 pure=False):
        self.file = file; self.qual = qual; self.params = params; self.prop = prop
        self.requires = requires; self.ensures = list(ensures); self.raises = dict(raises or {})
        self.ensures_exc = list(ensures_exc); self.loops = dict(loops or {})
        self.modifies = list(modifies); self.result = result; self.verify = verify
        self.inline = inline; self.locals_types = dict(locals_types or {})
        modname = file[4:-3].replace('/', '.') if file.startswith('pym/') else file[:-3].replace('/', '.')
        self.dotted = modname + '.' + qual
        self.name = name or qual
        self.ghost_init = ghost_init; self.note = note; self.max_paths = max_paths
        self.modifies_ghost = modifies_ghost; self.canary = canary; self.replay = replay
        self.entry_hook = entry_hook; self.exit_hook = exit_hook; self.pure = pure
        self.variant = None

class Registry:
    def __init__(self):
        self.units = {}          # dotted -> Unit
        self.models = {}         # dotted name / 'Type.method' -> fn(eng, st, args, kwargs, node)
        self.attr_models = {}
        self.opaque = {}         # pattern -> result type
        self.classes = {}        # cls qual -> ClassSpec
        self.constants = {}      # dotted -> fn(eng, st) -> V
        self.lenient = ['print', 'logging.*', '*.warning', '*.info', '*.debug', 'colorize', 'bob.tty.*', 'str.format']
        self.inline_patterns = []
        self.ghost_const = set()
        self.exc_classes = {}
        self.binop_hook = self.compare_hook = self.contains_hook = self.index_hook = None
        self.comp_hook = self.star_call_hook = self.delitem_hook = self.setitem_hook = self.iter_hook = None
        self.axioms = {}         # name -> fn() -> list of z3 Bool
        self.trusted = []        # textual trusted-base entries
        self.pure_names = {'len', 'isinstance', 'str', 'int', 'bool', 'repr', 'range', 'enumerate', 'sorted', 'min', 'max', 'abs', 'print', 'list', 'tuple', 'set', 'frozenset', 'dict', 'bytes', 'hasattr', 'id'}
        self.model_effects = {}
        self._classinfo = {}

    # Dyn mode is switched on by dyn.install(reg); a unit opts out with `unit.dyn = False` (strict typed mode)
    @property
    def dyn(self): return getattr(self, '_dyn', False) and getattr(getattr(self, 'current_unit', None), 'dyn', True)
    @dyn.setter
    def dyn(self, v): self._dyn = v
    def add(self, u):
        self.units[u.dotted] = u; return u
    def model(self, *names):
        def deco(f):
            for n in names: self.models[n] = f
            return f
        return deco
    def find_unit(self, name):
        if name is None: return None
        u = self.units.get(name)
        if u is not None: return u
        return None
    def find_model(self, name):
        m = self.models.get(name)
        if m is not None: return m
        for pat, f in self.models.items():
            if ('*' in pat) and fnmatch.fnmatchcase(name, pat): return f
        return None
    def find_opaque(self, name):
        if name in self.opaque: return self.opaque[name]
        for pat, t in self.opaque.items():
            if '*' in pat and fnmatch.fnmatchcase(name, pat): return t
        return None
    def has_callable(self, name):
        return self.find_unit(name) is not None or self.find_model(name) is not None or self.find_opaque(name) is not None
    def is_lenient(self, name, eng):
        return any(fnmatch.fnmatchcase(name, p) for p in self.lenient)
    def inline_ok(self, qual):
        return any(fnmatch.fnmatchcase(qual, p) for p in self.inline_patterns)
    def find_class(self, qual):
        if qual in self._classinfo: return self._classinfo[qual]
        mi = extract.load_module_of(qual)
        ci = mi.find_class(qual) if mi is not None else None
        self._classinfo[qual] = ci
        return ci

def forall(sorts, fn, patterns=None):
    vs = [z3.Const(fresh_name('q'), s) for s in sorts]
    body = fn(*vs)
    return z3.ForAll(vs, body, patterns=patterns(*vs) if patterns else [])
def exists(sorts, fn):
    vs = [z3.Const(fresh_name('q'), s) for s in sorts]
    return z3.Exists(vs, fn(*vs))
I = z3.IntSort()

class Watch:
    """A function of /repo that the property depends on but that is NOT under contract (outside the verified
    subset).  Only its source hash is recorded; it is covered by the bounded native search and listed as unverified."""
    kind = 'watch'; verify = False
    def __init__(self, file, qual, why):
        self.file = file; self.qual = qual; self.name = 'watch:' + qual; self.note = 'NOT PROVED (bounded native search only): ' + why
