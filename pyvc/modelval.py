# PyVC - turn a z3 counter-model into concrete Python inputs for native replay.
import z3
from .ty import *

def z_to_py(m, t, z, depth=0):
    if t == INT:
        v = m.eval(z, model_completion=True); return v.as_long()
    if t == BOOL: return z3.is_true(m.eval(z, model_completion=True))
    if t == STR:
        v = m.eval(z, model_completion=True)
        return v.as_string() if z3.is_string_value(v) else str(v)
    if t == BYTES:
        n = m.eval(z3.Length(z), model_completion=True).as_long()
        out = []
        for i in range(min(n, 4096)):
            b = m.eval(z[i], model_completion=True)
            out.append(b.as_long() if z3.is_bv_value(b) else 0)
        return {'__bytes__': bytes(out).hex()}
    if t == NONE: return None
    if isinstance(t, OptT):
        if z3.is_true(m.eval(opt_is_none(t, z), model_completion=True)): return None
        return z_to_py(m, t.base, opt_val(t, z), depth + 1)
    if isinstance(t, TupleT):
        return {'__tuple__': [z_to_py(m, et, tup_get(t, z, i), depth + 1) for i, et in enumerate(t.elems)]}
    if isinstance(t, ListT):
        n = m.eval(list_len(t, z), model_completion=True).as_long()
        return [z_to_py(m, t.elem, list_get(t, z, i), depth + 1) for i in range(max(0, min(n, 64)))]
    if isinstance(t, OpaqueT):
        return {'__opaque__': str(m.eval(z, model_completion=True))}
    if isinstance(t, (SetT, DictT)):
        return {'__array__': str(m.eval(z, model_completion=True))[:500]}
    return {'__unknown__': str(t)}

def value_to_py(eng, st, m, v, seen=None):
    seen = seen if seen is not None else set()
    if v.t in (FUNC, MOD, CLS, EXC) or isinstance(v.t, (PyTupT, RecT, IterT)): return {'__static__': str(v.t)}
    if isinstance(v.t, ObjT):
        if v.ref in seen: return {'__cycle__': True}
        seen.add(v.ref)
        return {'__obj__': v.t.cls, 'fields': {f: value_to_py(eng, st, m, fv, seen) for f, fv in st.heap[v.ref].items()}}
    z = eng.deref(st, v) if v.ref is not None else v.z
    if z is None: return []
    return z_to_py(m, v.t, z)

def inputs_from_model(eng, m):
    st = eng.unit_old
    out = {}
    fr = st.frames[0]
    for k, v in fr.items():
        if k.startswith('__') or not isinstance(v, V): continue
        try: out[k] = value_to_py(eng, st, m, v)
        except Exception as ex: out[k] = {'__error__': repr(ex)}
    g = {}
    for k, v in st.ghost.items():
        if isinstance(v, V):
            try: g[k] = value_to_py(eng, st, m, v)
            except Exception as ex: g[k] = {'__error__': repr(ex)}
    if g: out['__ghost__'] = g
    return out
