# PyVC - extraction of the real source: every run re-parses /repo's working tree.
#
# What extraction drops: comments, docstrings (string expression statements are
# no-ops), type annotations, and the decorators staticmethod/classmethod/property/
# abstractmethod (interpreted, not executed).  Nothing else is rewritten.
import ast, hashlib, os

REPO = os.environ.get('VERIF_REPO', '/repo')

class ClassInfo:
    def __init__(self, qual, node, modinfo, outer=None):
        self.qual = qual; self.node = node; self.modinfo = modinfo
        self.methods = {}; self.consts = {}; self.nested = {}
        self.bases = []
        for b in node.bases:
            n = _static_name(b)
            if n: self.bases.append(n)
        for s in node.body:
            if isinstance(s, (ast.FunctionDef, ast.AsyncFunctionDef)): self.methods[s.name] = s
            elif isinstance(s, ast.Assign) and len(s.targets) == 1 and isinstance(s.targets[0], ast.Name):
                self.consts[s.targets[0].id] = s.value
            elif isinstance(s, ast.ClassDef):
                self.nested[s.name] = ClassInfo(qual + '.' + s.name, s, modinfo, self)
    def find_method(self, name, reg=None):
        if name in self.methods: return (self.methods[name], self.qual)
        short = self.qual.split('.')[-1].lstrip('_')
        if name.startswith('__') and not name.endswith('__'):
            pass
        for b in self.bases:
            bi = self.modinfo.find_class(b)
            if bi is not None:
                r = bi.find_method(name)
                if r is not None: return r
        return None
    def find_const(self, name):
        if name in self.consts: return self.consts[name]
        for b in self.bases:
            bi = self.modinfo.find_class(b)
            if bi is not None:
                r = bi.find_const(name)
                if r is not None: return r
        return None

def _static_name(f):
    parts = []
    while isinstance(f, ast.Attribute): parts.append(f.attr); f = f.value
    if isinstance(f, ast.Name): parts.append(f.id); return '.'.join(reversed(parts))
    return None

class ModInfo:
    cache = {}
    def __init__(self, relpath):
        self.relpath = relpath
        path = os.path.join(REPO, relpath)
        self.src = open(path, encoding='utf8').read()
        self.tree = ast.parse(self.src, filename=path)
        self.lines = self.src.split('\n')
        mod = relpath
        if mod.startswith('pym/'): mod = mod[4:]
        self.modname = mod[:-3].replace('/', '.')
        if self.modname.endswith('.__init__'): self.modname = self.modname[:-9]
        self.funcs = {}; self.classes = {}; self.imports = {}; self.consts = {}
        for s in self.tree.body: self._top(s)
    def _top(self, s):
        if isinstance(s, (ast.FunctionDef, ast.AsyncFunctionDef)): self.funcs[s.name] = s
        elif isinstance(s, ast.ClassDef): self.classes[s.name] = ClassInfo(self.modname + '.' + s.name, s, self)
        elif isinstance(s, ast.Import):
            for a in s.names:
                if a.asname: self.imports[a.asname] = a.name
                else: self.imports[a.name.split('.')[0]] = a.name.split('.')[0]
        elif isinstance(s, ast.ImportFrom):
            base = self.resolve_from(s)
            for a in s.names: self.imports[a.asname or a.name] = (base + '.' + a.name) if base else a.name
        elif isinstance(s, ast.Assign) and len(s.targets) == 1 and isinstance(s.targets[0], ast.Name):
            self.consts[s.targets[0].id] = s.value
        elif isinstance(s, (ast.If, ast.Try)):
            for b in getattr(s, 'body', []): self._top(b)
    def resolve_from(self, s):
        if s.level == 0: return s.module or ''
        parts = self.modname.split('.')
        base = parts[:len(parts) - s.level]
        if s.module: base = base + s.module.split('.')
        return '.'.join(base)
    def find_class(self, name):
        """name relative to this module (possibly dotted for nested classes) or fully qualified."""
        parts = name.split('.')
        if name.startswith(self.modname + '.'): parts = name[len(self.modname) + 1:].split('.')
        ci = self.classes.get(parts[0])
        if ci is None:
            tgt = self.imports.get(parts[0])
            if tgt is not None and tgt.startswith('bob.'):
                mi = load_module_of(tgt)
                if mi is not None: return mi.find_class('.'.join([tgt.split('.')[-1]] + parts[1:]))
            return None
        for p in parts[1:]:
            ci = ci.nested.get(p)
            if ci is None: return None
        return ci
    def find_func(self, qual):
        """qual: 'func', 'Class.method', 'Class.Nested.method', 'func.<locals>.inner'"""
        parts = qual.split('.')
        if parts[0] in self.funcs and len(parts) == 1: return self.funcs[parts[0]], None
        if parts[0] in self.funcs and len(parts) >= 3 and parts[1] == '<locals>':
            node = self.funcs[parts[0]]
            return _find_local(node, parts[2:]), None
        ci = self.classes.get(parts[0]); i = 1
        while ci is not None and i < len(parts) - 1 and parts[i] in ci.nested:
            ci = ci.nested[parts[i]]; i += 1
        if ci is None: return None, None
        rest = parts[i:]
        m = ci.methods.get(rest[0])
        if m is None: return None, ci
        if len(rest) == 1: return m, ci
        if rest[1] == '<locals>': return _find_local(m, rest[2:]), ci
        return None, ci
    def segment(self, node):
        return '\n'.join(self.lines[node.lineno - 1: node.end_lineno])
    def sha(self, node): return hashlib.sha256(self.segment(node).encode()).hexdigest()

def _find_local(node, parts):
    for s in ast.walk(node):
        if isinstance(s, (ast.FunctionDef, ast.AsyncFunctionDef)) and s is not node and s.name == parts[0]:
            if len(parts) == 1: return s
            if parts[1] == '<locals>': return _find_local(s, parts[2:])
    return None

def load(relpath):
    if relpath not in ModInfo.cache: ModInfo.cache[relpath] = ModInfo(relpath)
    return ModInfo.cache[relpath]

def load_module_of(dotted):
    """'bob.utils.replacePath' -> ModInfo of pym/bob/utils.py (longest module prefix that exists)."""
    parts = dotted.split('.')
    for n in range(len(parts), 0, -1):
        rel = 'pym/' + '/'.join(parts[:n]) + '.py'
        if os.path.exists(os.path.join(REPO, rel)): return load(rel)
        rel = 'pym/' + '/'.join(parts[:n]) + '/__init__.py'
        if os.path.exists(os.path.join(REPO, rel)): return load(rel)
    return None

def exception_classes():
    """class name -> base names, for every class in pym/bob deriving (transitively) from an exception."""
    import builtins
    out = {}
    allc = {}
    for root, _, files in os.walk(os.path.join(REPO, 'pym/bob')):
        for f in files:
            if not f.endswith('.py'): continue
            rel = os.path.relpath(os.path.join(root, f), REPO)
            try: mi = load(rel)
            except SyntaxError: continue
            def walk(ci):
                allc[ci.qual] = ci
                for n in ci.nested.values(): walk(n)
            for ci in mi.classes.values(): walk(ci)
    def is_exc(name, seen=()):
        short = name.split('.')[-1]
        o = getattr(builtins, short, None)
        if isinstance(o, type) and issubclass(o, BaseException): return True
        for q, ci in allc.items():
            if q.split('.')[-1] == short and q not in seen:
                return any(is_exc(b, seen + (q,)) for b in ci.bases)
        return False
    for q, ci in allc.items():
        if any(is_exc(b, (q,)) for b in ci.bases):
            out[q] = ci.bases; out[q.split('.')[-1]] = ci.bases
    return out
