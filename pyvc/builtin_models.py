# PyVC - models of Python builtins (axiomatised; each is part of the trusted base).
import ast, z3
from .ty import *
from .core import *
from .execu import _isR

def install(reg):
    M = reg.model

    @M('len')
    def _len(e, st, args, kw, node):
        v = args[0]; t = v.t
        if isinstance(t, ListT): return [(st, mk_int(0) if t.elem == ANY else mk_int(list_len(t, e.deref(st, v))))]
        if t in (STR, BYTES): return [(st, mk_int(z3.Length(v.z)))]
        if isinstance(t, TupleT): return [(st, mk_int(len(t.elems)))]
        if isinstance(t, PyTupT): return [(st, mk_int(t.n))]
        if isinstance(t, (SetT, DictT)):
            if (t.elem if isinstance(t, SetT) else t.k) == ANY: return [(st, mk_int(0))]
            f = z3.Function('card_' + t.name(), sort_of(t), z3.IntSort()); e.use_axiom('card')
            n = f(e.deref(st, v)); st.assume(n >= 0)
            empty = z3.K(sort_of(t.elem), z3.BoolVal(False)) if isinstance(t, SetT) else z3.K(sort_of(t.k), opt_none(opt(t.v)))
            st.assume((n == 0) == (e.deref(st, v) == empty))
            return [(st, mk_int(n))]
        if isinstance(t, IterT):
            lv = v.z
            return [(st, mk_int(len(lv)) if isinstance(lv, list) else mk_int(list_len(lv.t, lv.z)))]
        return None

    @M('isinstance')
    def _isinstance(e, st, args, kw, node):
        v, c = args
        names = []
        def cn(x):
            if x.t == MOD: return x.z.name
            if x.t == CLS: return x.z
            return None
        if isinstance(c.t, PyTupT): names = [cn(x) for x in c.z]
        else: names = [cn(c)]
        if None in names: return None
        pyt = {INT: 'int', BOOL: 'bool', STR: 'str', BYTES: 'bytes', NONE: 'NoneType', FLOAT: 'float'}
        t = v.t
        if isinstance(t, OptT):
            out = []
            for x, val in e.branch(st, opt_is_none(t, v.z), 'isinstance-none'):
                if val: out.append((x, mk_bool(False)))
                else: out.extend(_isinstance(e, x, [V(t.base, opt_val(t, v.z)), c], kw, node))
            return out
        if t in pyt:
            n = pyt[t]; ok = n in names or (n == 'bool' and 'int' in names)
            return [(st, mk_bool(ok))]
        if isinstance(t, ListT): return [(st, mk_bool('list' in names))]
        if isinstance(t, (TupleT, PyTupT)): return [(st, mk_bool('tuple' in names))]
        if isinstance(t, DictT) or isinstance(t, RecT): return [(st, mk_bool('dict' in names))]
        if isinstance(t, SetT): return [(st, mk_bool('set' in names or 'frozenset' in names))]
        if t == EXC: return [(st, mk_bool(e.exc_matches(v.z, names)))]
        h = reg.models.get('isinstance:' + t.name()) or reg.models.get('isinstance:Py' + t.name())
        if h is not None: return h(e, st, args, kw, node)
        return None

    @M('str')
    def _str(e, st, args, kw, node):
        if not args: return [(st, mk_str(''))]
        return [(st, e.to_str(st, args[0]))]
    @M('repr')
    def _repr(e, st, args, kw, node): return [(st, V(STR, fresh_z(STR, 'repr')))]
    @M('bool')
    def _bool(e, st, args, kw, node): return [(st, mk_bool(e.truth(st, args[0])))]
    @M('int')
    def _int(e, st, args, kw, node):
        v = args[0]
        if v.t == INT: return [(st, v)]
        if v.t == BOOL: return [(st, coerce(v, INT))]
        if v.t == STR:
            ok = z3.Function('int_parsable', z3.StringSort(), z3.BoolSort())
            f = z3.Function('int_of_str', z3.StringSort(), z3.IntSort())
            outs, okst = e.guard(st, ok(v.z), 'ValueError', node, 'int() of non-numeric string')
            if okst is not None: outs.append((okst, mk_int(f(v.z))))
            return outs
        return None
    @M('bytes')
    def _bytes(e, st, args, kw, node):
        if not args: return [(st, mk_bytes(b''))]
        v = args[0]
        if v.t == BYTES: return [(st, v)]
        if v.t == INT:
            r = fresh_z(BYTES, 'zeros'); st.assume(z3.Length(r) == v.z)
            return [(st, V(BYTES, r))]
        return None
    @M('print')
    def _print(e, st, args, kw, node): return [(st, mk_none())]
    @M('id')
    def _id(e, st, args, kw, node): return [(st, mk_int(fresh_z(INT, 'id')))]
    @M('range')
    def _range(e, st, args, kw, node):
        if len(args) == 1: lo, hi = z3.IntVal(0), args[0].z
        elif len(args) == 2: lo, hi = args[0].z, args[1].z
        else: return None
        lo = z3.simplify(lo); hi = z3.simplify(hi)
        if z3.is_int_value(lo) and z3.is_int_value(hi) and hi.as_long() - lo.as_long() <= 8:
            return [(st, V(IterT(), [mk_int(i) for i in range(lo.as_long(), hi.as_long())]))]
        lt = ListT(INT); L = fresh_z(lt, 'range'); i = z3.Int(fresh_name('i'))
        st.assume(list_len(lt, L) == z3.If(hi > lo, hi - lo, 0))
        st.assume(z3.ForAll([i], list_get(lt, L, i) == lo + i, patterns=[list_get(lt, L, i)]))
        return [(st, V(IterT(), V(lt, L)))]
    @M('list')
    def _list(e, st, args, kw, node):
        if getattr(reg, 'dyn', False) and getattr(getattr(reg, 'current_unit', None), 'dyn_literals', True):
            from . import dyn
            return [(st, dyn.fresh('list'))]
        if not args: return [(st, e.alloc(st, ListT(ANY), None))]
        out = []
        for x, lv in e.to_list(st, args[0], node):
            if _isR(lv): out.append((x, lv)); continue
            if isinstance(lv, list): out.append((x, e.mk_list(x, lv, node)))
            else: out.append((x, e.alloc(x, lv.t, lv.z)))
        return out
    @M('tuple')
    def _tuple(e, st, args, kw, node):
        if not args: return [(st, V(TupleT(), tup_mk(TupleT(), [])))]
        out = []
        for x, lv in e.to_list(st, args[0], node):
            if _isR(lv): out.append((x, lv)); continue
            if isinstance(lv, list): out.append((x, e.mk_tuple(x, lv)))
            else: out.append((x, V(IterT(), lv)))       # tuple of symbolic length: immutable listing
        return out
    @M('set', 'frozenset')
    def _set(e, st, args, kw, node):
        if getattr(reg, 'dyn', False) and getattr(getattr(reg, 'current_unit', None), 'dyn_literals', True):
            from . import dyn
            return [(st, dyn.fresh('set'))]
        if not args: return [(st, e.alloc(st, SetT(ANY), None))]
        a = args[0]
        if isinstance(a.t, SetT): return [(st, e.alloc(st, a.t, e.deref(st, a)))]
        if a.src is not None and a.src[0] == 'dict-values':
            # set(d.values()) = { v | exists k. d[k] == v }  (exact, avoids going through an arbitrary listing)
            _, dt, D = a.src; ot_ = opt(dt.v)
            v_ = z3.Const(fresh_name('v'), sort_of(dt.v)); k_ = z3.Const(fresh_name('k'), sort_of(dt.k))
            z = z3.Lambda([v_], z3.Exists([k_], z3.And(z3.Not(opt_is_none(ot_, z3.Select(D, k_))), opt_val(ot_, z3.Select(D, k_)) == v_)))
            return [(st, e.alloc(st, SetT(dt.v), z))]
        out = []
        for x, lv in e.to_list(st, a, node):
            if _isR(lv): out.append((x, lv)); continue
            if isinstance(lv, list):
                if not lv: out.append((x, e.alloc(x, SetT(ANY), None))); continue
                et = lv[0].t; z = z3.K(sort_of(et), z3.BoolVal(False))
                for it in lv: z = z3.Store(z, e.store_val(x, it, et), True)
                out.append((x, e.alloc(x, SetT(et), z)))
            else:
                lt = lv.t; k = z3.Const(fresh_name('k'), sort_of(lt.elem)); i = z3.Int(fresh_name('i'))
                z = z3.Lambda([k], z3.Exists([i], z3.And(0 <= i, i < list_len(lt, lv.z), list_get(lt, lv.z, i) == k)))
                out.append((x, e.alloc(x, SetT(lt.elem), z)))
        return out
    @M('dict')
    def _dict(e, st, args, kw, node):
        if getattr(reg, 'dyn', False) and getattr(getattr(reg, 'current_unit', None), 'dyn_literals', True):
            from . import dyn
            return [(st, dyn.fresh('dict'))]
        if not args and not kw: return [(st, e.alloc(st, DictT(ANY, ANY), None))]
        if len(args) == 1 and isinstance(args[0].t, DictT): return [(st, e.alloc(st, args[0].t, e.deref(st, args[0])))]
        return None
    @M('enumerate')
    def _enumerate(e, st, args, kw, node):
        out = []
        for x, lv in e.to_list(st, args[0], node):
            if _isR(lv): out.append((x, lv)); continue
            if isinstance(lv, list):
                out.append((x, V(IterT(), [e.mk_tuple(x, [mk_int(i), it]) for i, it in enumerate(lv)])))
            else:
                lt = lv.t; tt = TupleT(INT, lt.elem); rt = ListT(tt); L = fresh_z(rt, 'enum'); i = z3.Int(fresh_name('i'))
                x.assume(list_len(rt, L) == list_len(lt, lv.z))
                x.assume(z3.ForAll([i], list_get(rt, L, i) == tup_mk(tt, [i, list_get(lt, lv.z, i)]), patterns=[list_get(rt, L, i)]))
                out.append((x, V(IterT(), V(rt, L))))
        return out
    @M('min', 'max')
    def _minmax(e, st, args, kw, node):
        if len(args) == 2 and args[0].t == INT and args[1].t == INT:
            name = e.static_name(node.func)
            a, b = args[0].z, args[1].z
            return [(st, mk_int(z3.If(a <= b, a, b) if name == 'min' else z3.If(a >= b, a, b)))]
        return None
    @M('zip')
    def _zip(e, st, args, kw, node):
        if len(args) != 2 or not all(isinstance(a.t, ListT) for a in args): return None
        a, b = args; ta, tb = a.t, b.t
        if ta.elem == ANY or tb.elem == ANY: return [(st, V(IterT(), []))]
        za, zb = e.deref(st, a), e.deref(st, b)
        tt = TupleT(ta.elem, tb.elem); lt = ListT(tt); L = fresh_z(lt, 'zipped'); i = z3.Int(fresh_name('i'))
        na, nb = list_len(ta, za), list_len(tb, zb)
        st.assume(list_len(lt, L) == z3.If(na < nb, na, nb))
        st.assume(z3.ForAll([i], z3.Implies(z3.And(0 <= i, i < list_len(lt, L)), list_get(lt, L, i) == tup_mk(tt, [list_get(ta, za, i), list_get(tb, zb, i)])), patterns=[list_get(lt, L, i)]))
        return [(st, V(lt, L))]
    @M('bytearray')
    def _bytearray(e, st, args, kw, node):
        if args: return None
        return [(st, e.alloc(st, BYTES, z3.Empty(sort_of(BYTES))))]
    @M('abs')
    def _abs(e, st, args, kw, node):
        if args[0].t == INT: return [(st, mk_int(z3.If(args[0].z >= 0, args[0].z, -args[0].z)))]
        return None
    @M('super')
    def _super(e, st, args, kw, node): raise Unsupported('super() at %s' % e.loc(node))
    @M('sorted')
    def _sorted(e, st, args, kw, node):
        h = reg.models.get('sorted:hook')
        if h is not None:
            r = h(e, st, args, kw, node)
            if r is not None: return r
        if len(args) == 1 and not kw and isinstance(args[0].t, IterT) and isinstance(args[0].z, V) and isinstance(args[0].z.t, ListT):
            args = [args[0].z]          # dict.items()/keys() listing: sorted() of it is, again, only known to have the same length
        if len(args) == 1 and not kw and isinstance(args[0].t, ListT) and args[0].t.elem != ANY:
            # sorted(list): an (uninterpreted) function of the list content with the same length; nothing else is assumed
            lt = args[0].t; L = e.deref(st, args[0])
            f = z3.Function('py_sorted_' + lt.name(), sort_of(lt), sort_of(lt)); R = f(L)
            st.assume(list_len(lt, R) == list_len(lt, L))
            return [(st, V(lt, R))]
        return None
    @M('hasattr')
    def _hasattr(e, st, args, kw, node):
        o, n = args
        if isinstance(o.t, ObjT) and z3.is_string_value(n.z):
            return [(st, mk_bool(e.getfield(st, o, n.z.as_string()) is not None))]
        return None
