# PyVC - views used by contract clauses: total (unchecked) access to symbolic state.
import z3
from .ty import *

class W:
    """A value seen in a state.  Operators build z3 terms; indexing is total (no checks)."""
    def __init__(self, eng, st, v): self._e = eng; self._st = st; self.v = v
    @property
    def t(self): return self.v.t
    @property
    def z(self):
        v = self.v
        if v.ref is not None: return self._e.deref(self._st, v)
        return v.z
    def _w(self, v): return W(self._e, self._st, v)
    def __getattr__(self, name):
        if name.startswith('_') and not name.startswith('__'): raise AttributeError(name)
        return self.f(name)
    def f(self, name):
        v = self.v
        if isinstance(v.t, ObjT):
            d = self._st.heap[v.ref]
            if name in d: return self._w(d[name])
            for k in d:
                if k.endswith(name) and k.startswith('_') and k[1:].split('__')[0] and k == '_%s%s' % (k[1:].split('__')[0], name):
                    return self._w(d[k])
            raise KeyError('no field %s in %s (have %s)' % (name, v.t.cls, sorted(d)))
        if isinstance(v.t, RecT): return self._w(v.z[name])
        raise KeyError('field access %s on %s' % (name, v.t))
    def has(self, name):
        try: self.f(name); return True
        except KeyError: return False
    # containers
    def len(self):
        t = self.t
        if isinstance(t, ListT): return list_len(t, self.z)
        if t in (STR, BYTES): return z3.Length(self.z)
        raise TypeError('len of %s' % t)
    def __getitem__(self, i):
        t = self.t
        if isinstance(i, W): i = i.z
        if isinstance(t, ListT):
            return self._w(V(t.elem, list_get(t, self.z, i)))
        if isinstance(t, TupleT): return self._w(V(t.elems[i], tup_get(t, self.z, i)))
        if isinstance(t, PyTupT): return self._w(self.v.z[i])
        if isinstance(t, DictT):
            return self._w(V(opt(t.v), z3.Select(self.z, i)))
        if isinstance(t, SetT): return z3.Select(self.z, i)
        if t == STR: return self._w(V(STR, z3.SubString(self.z, i, 1)))
        raise TypeError('index on %s' % t)
    def has_key(self, k):
        t = self.t
        if isinstance(k, W): k = k.z
        if isinstance(t, DictT): return z3.Not(opt_is_none(opt(t.v), z3.Select(self.z, k)))
        if isinstance(t, SetT): return z3.Select(self.z, k)
        raise TypeError
    def contains(self, k): return self.has_key(k)
    def is_none(self):
        t = self.t
        if t == NONE: return z3.BoolVal(True)
        if isinstance(t, OptT): return opt_is_none(t, self.z)
        return z3.BoolVal(False)
    def opt_eq(self, z):
        """value is not None and equals z (robust against the static type being None / T / Optional[T])"""
        t = self.t
        if t == NONE: return z3.BoolVal(False)
        if isinstance(t, OptT): return z3.And(z3.Not(opt_is_none(t, self.z)), opt_val(t, self.z) == z)
        return self.z == z
    def some(self):
        t = self.t
        if isinstance(t, OptT): return self._w(V(t.base, opt_val(t, self.z)))
        return self
    def __eq__(self, o): return self.z == (o.z if isinstance(o, W) else o)
    def __ne__(self, o): return self.z != (o.z if isinstance(o, W) else o)
    def __lt__(self, o): return self.z < (o.z if isinstance(o, W) else o)
    def __le__(self, o): return self.z <= (o.z if isinstance(o, W) else o)
    def __gt__(self, o): return self.z > (o.z if isinstance(o, W) else o)
    def __ge__(self, o): return self.z >= (o.z if isinstance(o, W) else o)
    def __add__(self, o): return self.z + (o.z if isinstance(o, W) else o)
    def __sub__(self, o): return self.z - (o.z if isinstance(o, W) else o)
    def __radd__(self, o): return o + self.z
    def __rsub__(self, o): return o - self.z
    __hash__ = None
    def same_object(self, o): return self.v.ref is not None and self.v.ref == o.v.ref

class GhostView:
    def __init__(self, eng, st): self._e = eng; self._st = st
    def __getattr__(self, name):
        g = self._st.ghost[name]
        if isinstance(g, V): return W(self._e, self._st, g)
        return g
    def has(self, name): return name in self._st.ghost

class SV:
    """View of a state: s.<local or parameter>, s.ghost.<name>"""
    def __init__(self, eng, st): self._e = eng; self._st = st
    def __getattr__(self, name):
        if name == 'ghost': return GhostView(self._e, self._st)
        if name.startswith('_'): raise AttributeError(name)
        return self.var(name)
    def var(self, name):
        for fr in reversed(self._st.frames):
            if name in fr: return W(self._e, self._st, fr[name])
            if not fr.get('__transparent__'): break
        raise KeyError('no variable %s (have %s)' % (name, [k for k in self._st.frames[-1] if not k.startswith('__')]))
    def has(self, name): return name in self._st.frames[-1]
    @property
    def trace(self): return self._st.trace
    @property
    def st(self): return self._st
    @property
    def eng(self): return self._e
