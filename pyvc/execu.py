# PyVC - expression and statement semantics (mixin for core.Engine).
import ast, z3
from .ty import *
from .core import *

def _isR(x): return isinstance(x, Raise)

class BoundMethod:
    def __init__(self, cls, name, selfv, node=None): self.cls = cls; self.name = name; self.selfv = selfv; self.node = node
class BoundBuiltin:
    def __init__(self, name, recv): self.name = name; self.recv = recv

MUTATORS = {'append', 'insert', 'pop', 'remove', 'add', 'discard', 'update', 'extend', 'clear',
            'setdefault', 'sort', 'reverse', 'popitem', 'difference_update', 'intersection_update'}

class Exec(Engine):
    # ------------------------------------------------------------ frames
    def push_frame(self, st, fid=None, cls=None, closure=None):
        fr = {'__fid__': fid if fid is not None else new_ref(), '__cls__': cls, '__closure__': closure}
        st.frames.append(fr); return fr
    def pop_frame(self, st): st.frames.pop()

    def mangle(self, st, name, cls=None):
        cls = cls if cls is not None else st.frames[-1].get('__cls__')
        if cls and name.startswith('__') and not name.endswith('__'):
            return '_%s%s' % (cls.split('.')[-1].lstrip('_'), name)
        return name

    def lookup(self, st, name, node=None):
        fr = st.frames[-1]
        if name in fr: return fr[name]
        clo = fr.get('__closure__')
        while clo is not None:
            # lexical parent: most recent live frame of the defining function
            parent = None
            for f in reversed(st.frames[:-1]):
                if f['__fid__'] == clo.fid: parent = f; break
            if parent is not None:
                if name in parent: return parent[name]
                clo = parent.get('__closure__'); continue
            if name in clo.env: return clo.env[name]
            clo = clo.env.get('__closure__') if isinstance(clo.env, dict) else None
        mi = self.modinfo_of(st)
        v = self.lookup_module(mi, name)
        if v is not None: return v
        if getattr(self.reg, 'dyn', False): return V(MOD, Dotted('?.' + name))
        raise Unsupported('unbound name %s at %s' % (name, self.loc(node)))

    def modinfo_of(self, st):
        for f in reversed(st.frames):
            if f.get('__mod__') is not None: return f['__mod__']
        return self.modinfo

    def lookup_module(self, mi, name):
        if mi is not None:
            if name in mi.funcs:
                return V(FUNC, Closure(mi.funcs[name], {}, None, mi, name=mi.modname + '.' + name))
            if name in mi.classes: return V(CLS, mi.modname + '.' + name)
            if name in mi.imports:
                tgt = mi.imports[name]
                if tgt in self.reg.exc_classes or tgt.split('.')[-1] in self.reg.exc_classes:
                    return V(CLS, tgt)
                return V(MOD, Dotted(tgt))
            if name in mi.consts:
                return self.const_expr(mi, mi.consts[name])
        if name in BUILTIN_EXC: return V(CLS, name)
        if name in ('True', 'False', 'None'): raise AssertionError
        if hasattr(builtins, name): return V(MOD, Dotted(name))
        return None

    def const_expr(self, mi, node):
        """Evaluate a module/class-level constant expression (literals only)."""
        st = State(); st.frames = [{'__fid__': 0, '__cls__': None, '__closure__': None, '__mod__': mi}]
        rs = self.ev(node, st)
        if len(rs) != 1 or _isR(rs[0][1]): raise Unsupported('non-constant module level value')
        return rs[0][1]

    # ------------------------------------------------------------ expressions
    def ev(self, e, st):
        m = getattr(self, 'ev_' + type(e).__name__, None)
        if m is None: raise Unsupported('expression %s at %s' % (type(e).__name__, self.loc(e)))
        if self.lenient:
            try: return m(e, st)
            except Unsupported:
                return [(st, V(STR, fresh_z(STR, 'lenient')))]
        return m(e, st)

    def evs(self, exprs, st):
        res = [(st, [])]
        for e in exprs:
            nxt = []
            for (s, vals) in res:
                if _isR(vals): nxt.append((s, vals)); continue
                for (s2, v) in self.ev(e, s):
                    nxt.append((s2, v if _isR(v) else vals + [v]))
            res = nxt
        return res

    def ev_Constant(self, e, st):
        c = e.value
        if c is None: return [(st, mk_none())]
        if isinstance(c, bool): return [(st, mk_bool(c))]
        if isinstance(c, int): return [(st, mk_int(c))]
        if isinstance(c, str): return [(st, mk_str(c))]
        if isinstance(c, bytes): return [(st, mk_bytes(c))]
        if isinstance(c, float): return [(st, V(FLOAT, z3.RealVal(c)))]
        if c is Ellipsis: return [(st, mk_none())]
        raise Unsupported('constant %r' % (c,))

    def ev_Name(self, e, st): return [(st, self.lookup(st, e.id, e))]

    def ev_JoinedStr(self, e, st):
        # f-string: value is an opaque string built from the parts (formatting not modelled)
        parts = []
        cur = [(st, [])]
        out = []
        for s, vals in self.evs([v.value if isinstance(v, ast.FormattedValue) else v for v in e.values], st):
            if _isR(vals): out.append((s, vals)); continue
            zs = []
            for v in vals:
                if v.t == STR: zs.append(v.z)
                else: zs.append(self.to_str(s, v).z)
            out.append((s, V(STR, z3.Concat(*zs) if len(zs) > 1 else (zs[0] if zs else z3.StringVal('')))))
        return out

    def to_str(self, st, v):
        if v.t == STR: return v
        if v.t == INT:
            f = z3.Function('py_str_int', z3.IntSort(), z3.StringSort())
            self.use_axiom('str_int')
            return V(STR, f(v.z))
        if v.t == NONE: return mk_str('None')
        if v.t == BOOL: return V(STR, z3.If(v.z, z3.StringVal('True'), z3.StringVal('False')))
        if v.t == EXC or v.t in (FUNC, CLS, MOD) or isinstance(v.t, ObjT):
            return V(STR, fresh_z(STR, 'str'))
        if v.ref is not None: z = self.deref(st, v)
        else: z = v.z
        f = z3.Function('py_str_' + v.t.name(), sort_of(v.t), z3.StringSort())
        return V(STR, f(z))

    def use_axiom(self, name): self.axioms_used.add(name)

    def ev_Tuple(self, e, st):
        out = []
        for s, vals in self.evs(e.elts, st):
            if _isR(vals): out.append((s, vals)); continue
            out.append((s, self.mk_tuple(s, vals)))
        return out
    def mk_tuple(self, st, vals):
        if any(isinstance(v.t, (ObjT,)) or v.t in (FUNC, EXC, MOD, CLS) for v in vals):
            return V(PyTupT(len(vals)), list(vals))
        vals = [v if v.ref is None else V(v.t, self.deref(st, v)) for v in vals]
        t = TupleT(*[v.t for v in vals])
        return V(t, tup_mk(t, [v.z for v in vals]))

    def ev_List(self, e, st):
        if getattr(self.reg, 'dyn', False) and getattr(getattr(self.reg, 'current_unit', None), 'dyn_literals', True) and self.reg.dyn:
            return self.dyn_literal(e, st, list(e.elts))
        out = []
        for s, vals in self.evs(e.elts, st):
            if _isR(vals): out.append((s, vals)); continue
            out.append((s, self.mk_list(s, vals, e)))
        return out
    def mk_list(self, st, vals, node=None, elem=None):
        if not vals and elem is None:
            return self.alloc(st, ListT(ANY), None)     # element type fixed at first use
        et = elem
        for v in vals: et = v.t if et is None else join_types(et, v.t)
        t = ListT(et)
        z = list_empty(t)
        for i, v in enumerate(vals):
            z = list_mk(t, z3.Store(list_arr(t, z), i, self.store_val(st, v, et)), z3.IntVal(i + 1))
        return self.alloc(st, t, z)
    def dyn_literal(self, e, st, parts):
        from . import dyn
        out = []
        for s, vals in self.evs(parts, st):
            if _isR(vals): out.append((s, vals)); continue
            out.append((s, dyn.fresh('literal')))
        return out

    def ev_Set(self, e, st):
        if getattr(self.reg, 'dyn', False) and getattr(getattr(self.reg, 'current_unit', None), 'dyn_literals', True):
            return self.dyn_literal(e, st, list(e.elts))
        out = []
        for s, vals in self.evs(e.elts, st):
            if _isR(vals): out.append((s, vals)); continue
            et = None
            for v in vals: et = v.t if et is None else join_types(et, v.t)
            t = SetT(et); z = z3.K(sort_of(et), z3.BoolVal(False))
            for v in vals: z = z3.Store(z, self.store_val(s, v, et), True)
            out.append((s, self.alloc(s, t, z)))
        return out
    def ev_Dict(self, e, st):
        if getattr(self.reg, 'dyn', False) and getattr(getattr(self.reg, 'current_unit', None), 'dyn_literals', True):
            return self.dyn_literal(e, st, [k for k in e.keys if k is not None] + list(e.values))
        if any(k is None for k in e.keys): raise Unsupported('dict unpacking')
        out = []
        for s, vals in self.evs(list(e.keys) + list(e.values), st):
            if _isR(vals): out.append((s, vals)); continue
            n = len(e.keys); ks = vals[:n]; vs = vals[n:]
            if n == 0:
                out.append((s, self.alloc(s, DictT(ANY, ANY), None))); continue
            kt = None; vt = None
            for k in ks: kt = k.t if kt is None else join_types(kt, k.t)
            hetero = False
            for v in vs:
                try: vt = v.t if vt is None else join_types(vt, v.t)
                except Unsupported: hetero = True
            if hetero or any(v.ref is not None and isinstance(v.t, ObjT) for v in vs):
                # record-like literal: keep as python-side record
                if not all(z3.is_string_value(k.z) for k in ks if k.t == STR) or any(k.t != STR for k in ks):
                    raise Unsupported('heterogeneous dict with non-literal keys')
                out.append((s, V(RecT(), {k.z.as_string(): v for k, v in zip(ks, vs)}))); continue
            t = DictT(kt, vt); z = z3.K(sort_of(kt), opt_none(opt(vt)))
            for k, v in zip(ks, vs):
                z = z3.Store(z, self.store_val(s, k, kt), opt_some(opt(vt), self.store_val(s, v, vt)))
            out.append((s, self.alloc(s, t, z)))
        return out

    def ev_Lambda(self, e, st):
        fr = st.frames[-1]
        clo = Closure(e, self.snapshot_env(st), fr.get('__cls__'), self.modinfo_of(st))
        clo.fid = fr['__fid__']
        return [(st, V(FUNC, clo))]
    def snapshot_env(self, st):
        d = dict(st.frames[-1]); return d

    def ev_IfExp(self, e, st):
        out = []
        for s, c in self.ev(e.test, st):
            if _isR(c): out.append((s, c)); continue
            for s2, val in self.branch(s, self.truth(s, c), 'ifexp@%s' % e.lineno):
                self.narrow(s2, e.test, val)
                out.extend(self.ev(e.body if val else e.orelse, s2))
        return out

    def ev_BoolOp(self, e, st):
        is_and = isinstance(e.op, ast.And)
        def go(i, s):
            rs = self.ev(e.values[i], s)
            if i == len(e.values) - 1: return rs
            out = []
            for s2, v in rs:
                if _isR(v): out.append((s2, v)); continue
                for s3, val in self.branch(s2, self.truth(s2, v), 'boolop@%s' % e.lineno):
                    self.narrow(s3, e.values[i], val)
                    if val == is_and: out.extend(go(i + 1, s3))
                    else: out.append((s3, v))
            return out
        return go(0, st)

    def ev_UnaryOp(self, e, st):
        out = []
        for s, v in self.ev(e.operand, st):
            if _isR(v): out.append((s, v)); continue
            if isinstance(v.t, OptT) and not isinstance(e.op, ast.Not):
                outs, ok = self.guard(s, z3.Not(opt_is_none(v.t, v.z)), 'TypeError', e, 'unary operator on None')
                out.extend(outs)
                if ok is None: continue
                s = ok; v = self.load_val(ok, v.t.base, opt_val(v.t, v.z))
            if isinstance(e.op, ast.Not): out.append((s, mk_bool(z3.Not(self.truth(s, v)))))
            elif isinstance(e.op, ast.USub) and v.t in (INT, BOOL): out.append((s, mk_int(-coerce(v, INT).z)))
            elif isinstance(e.op, ast.UAdd) and v.t == INT: out.append((s, v))
            elif isinstance(e.op, ast.Invert) and v.t == INT: out.append((s, mk_int(-v.z - 1)))
            elif isinstance(v.t, OpaqueT) and v.t.n == 'Dyn':
                # abstract value: the result is an (uninterpreted) function of the operand
                from . import dyn
                f = z3.Function('DYN_UNARY_' + type(e.op).__name__, dyn.D, dyn.D); out.append((s, V(v.t, f(v.z))))
            else: raise Unsupported('unary %s on %s' % (type(e.op).__name__, v.t))
        return out

    def ev_BinOp(self, e, st):
        out = []
        for s, vals in self.evs([e.left, e.right], st):
            if _isR(vals): out.append((s, vals)); continue
            out.extend(self.binop(s, e.op, vals[0], vals[1], e))
        return out

    def binop(self, st, op, a, b, node):
        for which, v in ((0, a), (1, b)):
            if isinstance(v.t, OptT) and v.ref is None:
                # arithmetic on an Optional: TypeError if it is None, otherwise the operation on the value
                outs, ok = self.guard(st, z3.Not(opt_is_none(v.t, v.z)), 'TypeError', node, 'operand is None')
                if ok is not None:
                    u = self.load_val(ok, v.t.base, opt_val(v.t, v.z))
                    outs.extend(self.binop(ok, op, u if which == 0 else a, b if which == 0 else u, node))
                return outs
        ta, tb = a.t, b.t
        if ta == BOOL and tb in (INT, BOOL) and not isinstance(op, (ast.BitAnd, ast.BitOr, ast.BitXor)): a = coerce(a, INT); ta = INT
        if tb == BOOL and ta == INT: b = coerce(b, INT); tb = INT
        if ta == INT and tb == INT:
            if isinstance(op, ast.Add): return [(st, mk_int(a.z + b.z))]
            if isinstance(op, ast.Sub): return [(st, mk_int(a.z - b.z))]
            if isinstance(op, ast.Mult): return [(st, mk_int(a.z * b.z))]
            if isinstance(op, (ast.FloorDiv, ast.Mod)):
                outs, ok = self.guard(st, b.z != 0, 'ZeroDivisionError', node, 'division by zero')
                if ok is not None:
                    # python floor semantics; z3 div/mod are euclidean: equal for positive divisor
                    q = z3.If(b.z > 0, a.z / b.z, (-a.z) / (-b.z))
                    r = a.z - q * b.z
                    outs.append((ok, mk_int(q if isinstance(op, ast.FloorDiv) else r)))
                return outs
            if isinstance(op, (ast.BitAnd, ast.BitOr, ast.BitXor, ast.LShift, ast.RShift)):
                az, bz = z3.simplify(a.z), z3.simplify(b.z)
                if z3.is_int_value(az) and z3.is_int_value(bz):
                    x, y = az.as_long(), bz.as_long()
                    r = {ast.BitAnd: lambda: x & y, ast.BitOr: lambda: x | y, ast.BitXor: lambda: x ^ y,
                         ast.LShift: lambda: x << y, ast.RShift: lambda: x >> y}[type(op)]()
                    return [(st, mk_int(r))]
                f = z3.Function('py_' + type(op).__name__.lower(), z3.IntSort(), z3.IntSort(), z3.IntSort())
                if isinstance(op, ast.BitOr): self.use_axiom('bitor')
                return [(st, mk_int(f(a.z, b.z)))]
        if ta == BOOL and tb == BOOL:
            if isinstance(op, ast.BitAnd): return [(st, mk_bool(z3.And(a.z, b.z)))]
            if isinstance(op, ast.BitOr): return [(st, mk_bool(z3.Or(a.z, b.z)))]
            if isinstance(op, ast.BitXor): return [(st, mk_bool(z3.Xor(a.z, b.z)))]
        if ta == tb and ta in (STR, BYTES) and isinstance(op, ast.Add):
            return [(st, V(ta, z3.Concat(a.z, b.z)))]
        if ta == STR and isinstance(op, ast.Mod):
            return [(st, V(STR, fresh_z(STR, 'fmt')))]          # %-formatting: opaque text
        if ta == BYTES and tb == INT and isinstance(op, ast.Mult):
            # repetition stays symbolic (long unit concatenations make the sequence solver crawl)
            f = z3.Function('py_bytes_repeat', sort_of(BYTES), z3.IntSort(), sort_of(BYTES))
            return [(st, V(BYTES, f(a.z, b.z)))]
        if ta == STR and tb == INT and isinstance(op, ast.Mult):
            f = z3.Function('py_str_repeat', z3.StringSort(), z3.IntSort(), z3.StringSort())
            return [(st, V(STR, f(a.z, b.z)))]
        if isinstance(ta, ListT) and isinstance(tb, ListT) and isinstance(op, ast.Add):
            t = self.unify_list(st, a, b)
            za, zb = self.deref(st, a), self.deref(st, b)
            return [(st, self.alloc(st, t, self.list_concat(st, t, za, zb)))]
        if isinstance(ta, SetT) and isinstance(tb, SetT) and ta == tb:
            za, zb = self.deref(st, a), self.deref(st, b)
            k = z3.Const(fresh_name('k'), sort_of(ta.elem))
            if isinstance(op, ast.BitOr): z = z3.Lambda([k], z3.Or(z3.Select(za, k), z3.Select(zb, k)))
            elif isinstance(op, ast.BitAnd): z = z3.Lambda([k], z3.And(z3.Select(za, k), z3.Select(zb, k)))
            elif isinstance(op, ast.Sub): z = z3.Lambda([k], z3.And(z3.Select(za, k), z3.Not(z3.Select(zb, k))))
            else: raise Unsupported('set op')
            return [(st, self.alloc(st, ta, z))]
        if isinstance(ta, TupleT) and isinstance(tb, TupleT) and isinstance(op, ast.Add):
            t = TupleT(*(ta.elems + tb.elems))
            zs = [tup_get(ta, a.z, i) for i in range(len(ta.elems))] + [tup_get(tb, b.z, i) for i in range(len(tb.elems))]
            return [(st, V(t, tup_mk(t, zs)))]
        h = self.reg.binop_hook
        if h is not None:
            r = h(self, st, op, a, b, node)
            if r is not None: return r
        raise Unsupported('binop %s on %s, %s at %s' % (type(op).__name__, ta, tb, self.loc(node)))

    def unify_list(self, st, a, b):
        if a.t.elem == ANY: return b.t
        if b.t.elem == ANY: return a.t
        if a.t != b.t: raise Unsupported('list types differ')
        return a.t
    def list_concat(self, st, t, za, zb):
        r = fresh_z(t, 'cat'); i = z3.Int(fresh_name('i'))
        la, lb = list_len(t, za), list_len(t, zb)
        st.assume(list_len(t, r) == la + lb)
        st.assume(z3.ForAll([i], list_get(t, r, i) == z3.If(i < la, list_get(t, za, i), list_get(t, zb, i - la)),
                            patterns=[list_get(t, r, i)]))
        return r

    def ev_Compare(self, e, st):
        out = []
        for s, vals in self.evs([e.left] + list(e.comparators), st):
            if _isR(vals): out.append((s, vals)); continue
            # chained comparisons: conjunction (operands already evaluated once, left to right)
            rs = [(s, z3.BoolVal(True))]
            for i, op in enumerate(e.ops):
                nxt = []
                for s2, acc in rs:
                    for s3, r in self.compare(s2, op, vals[i], vals[i + 1], e):
                        nxt.append((s3, r if _isR(r) else z3.And(acc, r)))
                rs = [(a, b) for a, b in nxt]
                if any(_isR(r) for _, r in rs):
                    out.extend([(a, b) for a, b in rs if _isR(b)]); rs = [(a, b) for a, b in rs if not _isR(b)]
            out.extend([(a, mk_bool(z3.simplify(b))) for a, b in rs])
        return out

    def compare(self, st, op, a, b, node):
        if isinstance(op, ast.Is) or isinstance(op, ast.IsNot):
            neg = isinstance(op, ast.IsNot)
            if b.t == NONE or a.t == NONE:
                x = a if b.t == NONE else b
                r = self.is_none(st, x)
            elif a.t == BOOL and b.t == BOOL: r = a.z == b.z
            elif isinstance(a.t, ObjT) and isinstance(b.t, ObjT): r = z3.BoolVal(a.ref == b.ref)
            elif a.ref is not None and b.ref is not None: r = z3.BoolVal(a.ref == b.ref)
            else: raise Unsupported("'is' on %s, %s" % (a.t, b.t))
            return [(st, z3.Not(r) if neg else r)]
        if isinstance(op, (ast.Eq, ast.NotEq)):
            r = self.eq(st, a, b)
            return [(st, z3.Not(r) if isinstance(op, ast.NotEq) else r)]
        if isinstance(op, (ast.In, ast.NotIn)):
            r = self.contains(st, b, a, node)
            return [(st, z3.Not(r) if isinstance(op, ast.NotIn) else r)]
        # ordering
        ta, tb = a.t, b.t
        if ta == BOOL: a = coerce(a, INT); ta = INT
        if tb == BOOL: b = coerce(b, INT); tb = INT
        if ta == INT and tb == INT:
            r = {ast.Lt: a.z < b.z, ast.LtE: a.z <= b.z, ast.Gt: a.z > b.z, ast.GtE: a.z >= b.z}[type(op)]
            return [(st, r)]
        if ta == tb and ta in (STR, BYTES):
            r = self.seq_order(ta, type(op), a.z, b.z)
            return [(st, r)]
        if (ta == NONE or tb == NONE or isinstance(ta, OptT) or isinstance(tb, OptT)):
            # ordering with None raises TypeError when the None case is feasible
            na, nb = self.is_none(st, a), self.is_none(st, b)
            outs, ok = self.guard(st, z3.Not(z3.Or(na, nb)), 'TypeError', node, 'ordering comparison with None')
            if ok is not None:
                a2 = V(ta.base, opt_val(ta, a.z)) if isinstance(ta, OptT) else a
                b2 = V(tb.base, opt_val(tb, b.z)) if isinstance(tb, OptT) else b
                outs.extend(self.compare(ok, op, a2, b2, node))
            return outs
        h = self.reg.compare_hook
        if h is not None:
            r = h(self, st, op, a, b, node)
            if r is not None: return r
        raise Unsupported('comparison %s on %s, %s at %s' % (type(op).__name__, ta, tb, self.loc(node)))

    def seq_order(self, t, op, a, b):
        if t == STR:
            lt = z3.StrLT(a, b) if hasattr(z3, 'StrLT') else (a < b)
            le = z3.StrLE(a, b) if hasattr(z3, 'StrLE') else (a <= b)
            # a < b, a <= b on strings are lexicographic in z3 (str.<, str.<=)
            return {ast.Lt: a < b, ast.LtE: a <= b, ast.Gt: b < a, ast.GtE: b <= a}[op]
        # bytes: uninterpreted strict total order consistent with the 'bytes_order' axioms
        f = z3.Function('bytes_lt', sort_of(BYTES), sort_of(BYTES), z3.BoolSort())
        self.use_axiom('bytes_lt')
        return {ast.Lt: f(a, b), ast.LtE: z3.Or(f(a, b), a == b), ast.Gt: f(b, a), ast.GtE: z3.Or(f(b, a), a == b)}[op]

    def contains(self, st, cont, x, node):
        t = cont.t
        if t in (STR, BYTES) and x.t == t: return z3.Contains(cont.z, x.z)
        if isinstance(t, SetT):
            if t.elem == ANY: return z3.BoolVal(False)
            return z3.Select(self.deref(st, cont), self.store_val(st, x, t.elem))
        if isinstance(t, DictT):
            if t.k == ANY: return z3.BoolVal(False)
            return z3.Not(opt_is_none(opt(t.v), z3.Select(self.deref(st, cont), self.store_val(st, x, t.k))))
        if isinstance(t, ListT):
            if t.elem == ANY: return z3.BoolVal(False)
            z = self.deref(st, cont); i = z3.Int(fresh_name('i'))
            xz = self.store_val(st, x, t.elem)
            return z3.Exists([i], z3.And(0 <= i, i < list_len(t, z), val_eq(t.elem, list_get(t, z, i), xz)))
        if isinstance(t, TupleT):
            ors = []
            for i, et in enumerate(t.elems):
                ors.append(self.eq(st, V(et, tup_get(t, cont.z, i)), x))
            return z3.Or(*ors) if ors else z3.BoolVal(False)
        if isinstance(t, RecT):
            if x.t == STR and z3.is_string_value(x.z): return z3.BoolVal(x.z.as_string() in cont.z)
        if isinstance(t, PyTupT):
            ors = [self.eq(st, it, x) for it in cont.z]
            return z3.Or(*ors) if ors else z3.BoolVal(False)
        h = self.reg.contains_hook
        if h is not None:
            r = h(self, st, cont, x, node)
            if r is not None: return r
        raise Unsupported("'in' on %s at %s" % (t, self.loc(node)))

    # ---- attribute
    def ev_Attribute(self, e, st):
        out = []
        for s, b in self.ev(e.value, st):
            if _isR(b): out.append((s, b)); continue
            out.extend(self.getattr_(s, b, e.attr, e))
        return out

    def getattr_(self, st, b, attr, node):
        t = b.t
        if isinstance(t, ObjT):
            name = self.mangle(st, attr)
            fv = self.getfield(st, b, name)
            if fv is None and name != attr: fv = self.getfield(st, b, attr)
            if fv is not None: return [(st, fv)]
            # class-level constant / method
            ci = self.reg.find_class(t.cls)
            if ci is not None:
                m = ci.find_method(attr) or ci.find_method(name)
                if m is not None:
                    mnode, owner = m
                    if self.is_property(mnode):
                        return self.call_method(st, BoundMethod(owner, mnode.name, b, mnode), [], {}, node)
                    return [(st, V(FUNC, BoundMethod(owner, mnode.name, b, mnode)))]
                c = ci.find_const(attr)
                if c is not None: return [(st, self.const_expr(ci.modinfo, c))]
            spec = self.reg.classes.get(t.cls)
            if spec is not None and attr in spec.methods:
                return [(st, V(FUNC, BoundModel(t.cls + '.' + attr, b)))]
            if self.reg.has_callable(t.cls + '.' + attr):
                return [(st, V(FUNC, BoundModel(t.cls + '.' + attr, b)))]
            outs = [self.raise_(st, 'AttributeError', 'no attribute %s on %s at %s' % (attr, t.cls, self.loc(node)))]
            return outs
        if t == MOD:
            name = b.z.name + '.' + attr
            if name in self.reg.constants: return [(st, self.reg.constants[name](self, st))]
            return [(st, V(MOD, Dotted(name)))]
        if t == CLS:
            if (b.z + '.' + attr) in self.reg.constants: return [(st, self.reg.constants[b.z + '.' + attr](self, st))]
            ci = self.reg.find_class(b.z)
            if ci is not None:
                c = ci.find_const(attr)
                if c is not None: return [(st, self.const_expr(ci.modinfo, c))]
                if attr in ci.nested: return [(st, V(CLS, ci.qual + '.' + attr))]
                m = ci.find_method(attr) or ci.find_method(self.mangle(st, attr, b.z))
                if m is not None:
                    mnode, owner = m
                    return [(st, V(FUNC, BoundMethod(owner, mnode.name, None, mnode)))]
            return [(st, V(MOD, Dotted(b.z + '.' + attr)))]
        if t == EXC:
            if attr in b.z.attrs: return [(st, b.z.attrs[attr])]
            if attr == 'errno':
                v = V(INT, fresh_z(INT, 'errno')); b.z.attrs['errno'] = v; return [(st, v)]
            if attr == 'args': raise Unsupported('exception args')
            v = V(STR, fresh_z(STR, 'excattr')); return [(st, v)]
        if t in (STR, BYTES, INT) or isinstance(t, (ListT, SetT, DictT, TupleT, OptT)):
            if isinstance(t, OptT):
                outs, ok = self.guard(st, z3.Not(opt_is_none(t, b.z)), 'AttributeError', node, "attribute '%s' of None" % attr)
                if ok is not None:
                    outs.extend(self.getattr_(ok, self.load_val(ok, t.base, opt_val(t, b.z)), attr, node))
                return outs
            return [(st, V(FUNC, BoundBuiltin(attr, b)))]
        if t == NONE:
            return [self.raise_(st, 'AttributeError', "attribute '%s' of None at %s" % (attr, self.loc(node)))]
        if isinstance(t, OpaqueT):
            key = t.n + '.' + attr
            if key in self.reg.attr_models: return self.reg.attr_models[key](self, st, b, node)
            if t.n == 'Dyn':
                from . import dyn
                name = self.mangle(st, attr); z = dyn.ATTR(b.z, z3.StringVal(name))
                for rz, an, vz in reversed(st.ghost.get('__dynstores', ())):
                    if an == name: z = z3.If(b.z == rz, vz, z)
                return [(st, V(t, z))]
            return [(st, V(FUNC, BoundModel(key, b)))]
        if isinstance(t, RecT):
            return [(st, V(FUNC, BoundBuiltin(attr, b)))]
        if t == FUNC:
            raise Unsupported('attribute %s of function' % attr)
        raise Unsupported('attribute %s on %s at %s' % (attr, t, self.loc(node)))

    def is_property(self, fnode):
        for d in fnode.decorator_list:
            if isinstance(d, ast.Name) and d.id == 'property': return True
        return False

    # ---- subscript
    def ev_Subscript(self, e, st):
        out = []
        if isinstance(e.slice, ast.Slice):
            parts = [e.value] + [x if x is not None else ast.Constant(value=None) for x in (e.slice.lower, e.slice.upper, e.slice.step)]
            for s, vals in self.evs(parts, st):
                if _isR(vals): out.append((s, vals)); continue
                out.extend(self.slice_(s, vals[0], vals[1], vals[2], vals[3], e))
            return out
        for s, vals in self.evs([e.value, e.slice], st):
            if _isR(vals): out.append((s, vals)); continue
            out.extend(self.index(s, vals[0], vals[1], e))
        return out

    def norm_index(self, i, n):
        return z3.If(i < 0, i + n, i)

    def index(self, st, c, i, node):
        t = c.t
        if isinstance(t, ListT):
            if t.elem == ANY: return [self.raise_(st, 'IndexError', 'index into empty list at %s' % self.loc(node))]
            z = self.deref(st, c); n = list_len(t, z); ii = self.norm_index(coerce(i, INT).z, n)
            outs, ok = self.guard(st, z3.And(0 <= ii, ii < n), 'IndexError', node, 'list index out of range')
            if ok is not None: outs.append((ok, self.load_val(ok, t.elem, list_get(t, z, ii))))
            return outs
        if isinstance(t, TupleT):
            iz = z3.simplify(i.z)
            if not z3.is_int_value(iz): raise Unsupported('symbolic tuple index')
            k = iz.as_long()
            if k < 0: k += len(t.elems)
            if not (0 <= k < len(t.elems)): return [self.raise_(st, 'IndexError', 'tuple index at %s' % self.loc(node))]
            return [(st, self.load_val(st, t.elems[k], tup_get(t, c.z, k)))]
        if isinstance(t, PyTupT):
            iz = z3.simplify(i.z); k = iz.as_long()
            return [(st, c.z[k])]
        if isinstance(t, DictT):
            if t.k == ANY: return [self.raise_(st, 'KeyError', 'lookup in empty dict at %s' % self.loc(node))]
            z = self.deref(st, c); kz = self.store_val(st, i, t.k); o = z3.Select(z, kz); ot = opt(t.v)
            outs, ok = self.guard(st, z3.Not(opt_is_none(ot, o)), 'KeyError', node, 'key lookup')
            if ok is not None: outs.append((ok, self.load_val(ok, t.v, opt_val(ot, o))))
            return outs
        if t in (STR, BYTES):
            n = z3.Length(c.z); ii = self.norm_index(i.z, n)
            outs, ok = self.guard(st, z3.And(0 <= ii, ii < n), 'IndexError', node, 'string index out of range')
            if ok is not None:
                if t == STR: outs.append((ok, V(STR, z3.SubString(c.z, ii, 1))))
                else: outs.append((ok, V(INT, z3.BV2Int(c.z[ii]))))
            return outs
        if isinstance(t, RecT):
            if z3.is_string_value(i.z):
                k = i.z.as_string()
                if k in c.z: return [(st, c.z[k])]
                return [self.raise_(st, 'KeyError', 'record key %s at %s' % (k, self.loc(node)))]
        if isinstance(t, OptT):
            outs, ok = self.guard(st, z3.Not(opt_is_none(t, c.z)), 'TypeError', node, 'subscript of None')
            if ok is not None: outs.extend(self.index(ok, self.load_val(ok, t.base, opt_val(t, c.z)), i, node))
            return outs
        if t == NONE: return [self.raise_(st, 'TypeError', 'subscript of None at %s' % self.loc(node))]
        h = self.reg.index_hook
        if h is not None:
            r = h(self, st, c, i, node)
            if r is not None: return r
        raise Unsupported('subscript on %s at %s' % (t, self.loc(node)))

    def clamp_slice(self, lo, hi, n):
        def norm(x, dflt):
            if x.t == NONE: return dflt
            z = x.z
            z = z3.If(z < 0, z + n, z)
            return z3.If(z < 0, z3.IntVal(0), z3.If(z > n, n, z))
        return norm(lo, z3.IntVal(0)), norm(hi, n)

    def slice_(self, st, c, lo, hi, step, node):
        if step.t != NONE: raise Unsupported('slice step')
        t = c.t
        if t in (STR, BYTES):
            n = z3.Length(c.z); a, b = self.clamp_slice(lo, hi, n)
            ln = z3.If(b > a, b - a, z3.IntVal(0))
            return [(st, V(t, z3.SubSeq(c.z, a, ln) if t == BYTES else z3.SubString(c.z, a, ln)))]
        if isinstance(t, ListT):
            z = self.deref(st, c); n = list_len(t, z); a, b = self.clamp_slice(lo, hi, n)
            r = fresh_z(t, 'slice'); i = z3.Int(fresh_name('i'))
            st.assume(list_len(t, r) == z3.If(b > a, b - a, 0))
            st.assume(z3.ForAll([i], list_get(t, r, i) == list_get(t, z, i + a), patterns=[list_get(t, r, i)]))
            return [(st, self.alloc(st, t, r))]
        raise Unsupported('slice of %s' % t)

    def ev_Await(self, e, st):
        # 'await f(...)': the call's model/contract is responsible for yield points
        st.frames[-1]['__await__'] = True
        try: return self.ev(e.value, st)
        finally: pass

    def ev_NamedExpr(self, e, st):
        out = []
        for s, v in self.ev(e.value, st):
            if _isR(v): out.append((s, v)); continue
            s.frames[-1][e.target.id] = v; out.append((s, v))
        return out

    def ev_Starred(self, e, st): raise Unsupported('starred expression at %s' % self.loc(e))

    # ---- comprehensions: desugared into loops over the real generators
    def ev_ListComp(self, e, st): return self.comp(e, st, 'list')
    def ev_SetComp(self, e, st): return self.comp(e, st, 'set')
    def ev_DictComp(self, e, st): return self.comp(e, st, 'dict')
    def ev_GeneratorExp(self, e, st): return self.comp(e, st, 'list')
    def comp(self, e, st, kind):
        h = self.reg.comp_hook
        if h is not None:
            r = h(self, st, e, kind)
            if r is not None: return r
        from . import comp as _comp
        return _comp.generic(self, e, st, kind)

    # ---- calls
    def ev_Call(self, e, st):
        if any(isinstance(a, ast.Starred) for a in e.args) or any(k.arg is None for k in e.keywords):
            h = self.reg.star_call_hook
            if h is not None:
                r = h(self, st, e)
                if r is not None: return r
            raise Unsupported('*args/**kwargs call at %s' % self.loc(e))
        if isinstance(e.func, ast.Name) and e.func.id in ('all', 'any') and len(e.args) == 1 and not e.keywords and isinstance(e.args[0], ast.GeneratorExp) \
                and not getattr(self.reg, 'dyn', False) and e.func.id not in st.frames[-1]:
            from . import comp as _comp
            return _comp.all_any(self, e, st, e.func.id == 'all')
        out = []
        # lenient contexts: exception constructors, print, logging: arguments are message text
        fname = self.static_name(e.func)
        lenient = fname is not None and self.reg.is_lenient(fname, self)
        for s, f in self.ev(e.func, st):
            if _isR(f): out.append((s, f)); continue
            if f.t == CLS and self.is_exc_class(f.z): lenient = True
            if lenient: self.lenient += 1
            try:
                argres = self.evs(list(e.args) + [k.value for k in e.keywords], s)
            finally:
                if lenient: self.lenient -= 1
            for s2, vals in argres:
                if _isR(vals):
                    if lenient: continue
                    out.append((s2, vals)); continue
                args = vals[:len(e.args)]
                kwargs = {k.arg: v for k, v in zip(e.keywords, vals[len(e.args):])}
                out.extend(self.call(s2, f, args, kwargs, e))
        return out

    def static_name(self, f):
        parts = []
        while isinstance(f, ast.Attribute): parts.append(f.attr); f = f.value
        if isinstance(f, ast.Name): parts.append(f.id); return '.'.join(reversed(parts))
        return None

    def is_exc_class(self, name):
        return name in BUILTIN_EXC or name in self.reg.exc_classes or name.split('.')[-1] in self.reg.exc_classes

    def call(self, st, f, args, kwargs, node):
        self.depth += 1
        try:
            if self.depth > 60: raise Unsupported('call depth exceeded at %s' % self.loc(node))
            return self.call_(st, f, args, kwargs, node)
        finally: self.depth -= 1

    def call_(self, st, f, args, kwargs, node):
        if f.t == MOD: return self.call_named(st, f.z.name, args, kwargs, node)
        if f.t == CLS:
            if self.is_exc_class(f.z):
                return [(st, V(EXC, Exc(f.z, args, {}, self.loc(node))))]
            return self.construct(st, f.z, args, kwargs, node)
        if f.t == FUNC:
            c = f.z
            if isinstance(c, Closure):
                u = self.reg.find_unit(c.name)
                if u is not None and not (self.unit is not None and u is self.unit and False):
                    return self.apply_contract(st, u, args, kwargs, node)
                if c.name and self.reg.has_callable(c.name):
                    return self.call_named(st, c.name, args, kwargs, node)
                if isinstance(c.node, ast.Lambda) or getattr(c, 'nested', False):
                    return self.inline(st, c, args, kwargs, node)
                if getattr(self.reg, 'dyn', False):
                    from . import dyn
                    return dyn.call_unknown(self, st, c.name, args, kwargs, node)
                raise Unsupported('call to uncontracted function %s at %s' % (c.name, self.loc(node)))
            if isinstance(c, BoundMethod): return self.call_method(st, c, args, kwargs, node)
            if isinstance(c, BoundBuiltin): return self.call_builtin_method(st, c.recv, c.name, args, kwargs, node)
            if isinstance(c, BoundModel):
                return self.call_named(st, c.name, [c.recv] + args, kwargs, node)
        if isinstance(f.t, OpaqueT) and f.t.n == 'Dyn':
            from . import dyn
            return dyn.call_value(self, st, f, args, kwargs, node)
        if isinstance(f.t, OpaqueT):
            key = f.t.n + '.__call__'
            return self.call_named(st, key, [f] + args, kwargs, node)
        if isinstance(f.t, OptT):
            outs, ok = self.guard(st, z3.Not(opt_is_none(f.t, f.z)), 'TypeError', node, 'call of None')
            if ok is not None: outs.extend(self.call(ok, self.load_val(ok, f.t.base, opt_val(f.t, f.z)), args, kwargs, node))
            return outs
        raise Unsupported('call of %s at %s' % (f.t, self.loc(node)))

    def call_named(self, st, name, args, kwargs, node):
        u = self.reg.find_unit(name)
        if u is not None: return self.apply_contract(st, u, args, kwargs, node)
        m = self.reg.find_model(name)
        if m is not None:
            args = [self.unopt_if_known(st, a) for a in args]
            r = m(self, st, args, kwargs, node)
            if r is None:
                if getattr(self.reg, 'dyn', False):
                    from . import dyn
                    return dyn.call_unknown(self, st, name, args, kwargs, node)
                raise Unsupported('model %s declined at %s' % (name, self.loc(node)))
            return r
        o = self.reg.find_opaque(name)
        if o is not None:
            self.assume_note('opaque call %s: result unconstrained value of type %s, no effects' % (name, o))
            st.trace.append(('call', name))
            return [(st, self.fresh(st, o, name.split('.')[-1]) if o is not None else mk_none())]
        if getattr(self.reg, 'dyn', False):
            from . import dyn
            return dyn.call_unknown(self, st, name, args, kwargs, node)
        raise Unsupported('call to %s at %s (no contract, model or opaque declaration)' % (name, self.loc(node)))

    def unopt_if_known(self, st, v):
        """Optional[T] value that the path condition proves to be not None -> T value."""
        if not isinstance(v.t, OptT) or v.ref is not None: return v
        s = z3.Solver(); s.set('timeout', 1000)
        for p in st.pc:
            if not self.has_quant(p): s.add(p)
        s.add(opt_is_none(v.t, v.z))
        if s.check() == z3.unsat: return self.load_val(st, v.t.base, opt_val(v.t, v.z))
        return v

    def call_method(self, st, bm, args, kwargs, node):
        qual = bm.cls + '.' + bm.name
        u = self.reg.find_unit(qual)
        allargs = ([bm.selfv] if bm.selfv is not None and not self.is_static(bm.node) else []) + args
        if u is not None: return self.apply_contract(st, u, allargs, kwargs, node)
        if self.reg.has_callable(qual): return self.call_named(st, qual, allargs, kwargs, node)
        ci = self.reg.find_class(bm.cls)
        if bm.node is not None and (self.reg.inline_ok(qual)):
            clo = Closure(bm.node, {}, bm.cls, ci.modinfo if ci else None, name=qual)
            return self.inline(st, clo, allargs, kwargs, node)
        if getattr(self.reg, 'dyn', False):
            from . import dyn
            return dyn.call_unknown(self, st, qual, allargs, kwargs, node)
        raise Unsupported('call to uncontracted method %s at %s' % (qual, self.loc(node)))

    def note_source(self, mi, fnode):
        if mi is not None and hasattr(fnode, 'lineno'):
            self.sources.add((mi.relpath, fnode.lineno, fnode.end_lineno, mi.sha(fnode)))

    def is_static(self, fnode):
        if fnode is None: return False
        for d in fnode.decorator_list:
            if isinstance(d, ast.Name) and d.id == 'staticmethod': return True
        return False

    def construct(self, st, cls, args, kwargs, node):
        if self.reg.has_callable(cls): return self.call_named(st, cls, args, kwargs, node)
        ci = self.reg.find_class(cls)
        if ci is None: raise Unsupported('construction of unknown class %s at %s' % (cls, self.loc(node)))
        o = self.new_obj(st, ci.qual, {})
        m = ci.find_method('__init__')
        if m is None: return [(st, o)]
        mnode, owner = m
        out = []
        for s, r in self.call_method(st, BoundMethod(owner, '__init__', o, mnode), args, kwargs, node):
            out.append((s, r if _isR(r) else o))
        return out

    def bind_params(self, st, fnode, args, kwargs, node, clo=None):
        a = fnode.args
        if a.vararg or a.kwarg: raise Unsupported('*args/**kwargs parameters in %s' % getattr(fnode, 'name', 'lambda'))
        params = [p.arg for p in a.posonlyargs + a.args]
        defaults = a.defaults
        bound = {}
        if len(args) > len(params): raise Unsupported('too many arguments at %s' % self.loc(node))
        for p, v in zip(params, args): bound[p] = v
        for k, v in kwargs.items():
            if k in bound: raise Unsupported('duplicate argument')
            bound[k] = v
        nd = len(defaults)
        for i, p in enumerate(params):
            if p not in bound:
                j = i - (len(params) - nd)
                if j < 0: raise Unsupported('missing argument %s at %s' % (p, self.loc(node)))
                rs = self.ev(defaults[j], st)
                bound[p] = rs[0][1]
        for p, d in zip(a.kwonlyargs, a.kw_defaults):
            if p.arg not in bound:
                if d is None: raise Unsupported('missing kwonly argument')
                bound[p.arg] = self.ev(d, st)[0][1]
        return bound

    def inline(self, st, clo, args, kwargs, node):
        fnode = clo.node
        self.note_source(clo.modinfo, fnode)
        bound = self.bind_params(st, fnode, args, kwargs, node)
        fr = self.push_frame(st, cls=clo.cls, closure=clo if hasattr(clo, 'fid') else None)
        if clo.modinfo is not None: fr['__mod__'] = clo.modinfo
        fr.update(bound)
        if not hasattr(clo, 'fid'): fr['__closure__'] = None
        if isinstance(fnode, ast.Lambda):
            rs = self.ev(fnode.body, st)
            out = []
            for s, v in rs:
                self.pop_frame(s); out.append((s, v))
            return out
        savefile = self.curfile
        if clo.modinfo is not None: self.curfile = clo.modinfo.relpath
        try:
            rs = self.exec_block(fnode.body, st)
        finally: self.curfile = savefile
        out = []
        for s, o in rs:
            self.pop_frame(s)
            if _isR(o): out.append((s, o))
            elif isinstance(o, Ret): out.append((s, o.v))
            else: out.append((s, mk_none()))
        return out
