# PyVC - "Dyn" mode for orchestration code (builder, clean, ...): every value whose meaning is irrelevant to the
# contract is a value of the universal uninterpreted sort Dyn; attribute access, unknown calls, comparisons,
# arithmetic, indexing and iteration on Dyn values yield Dyn values / unconstrained booleans, so both branches of
# every test on them are explored.  Only the calls a contract declares as *tracked* have an effect (on ghost state).
# Assumption recorded in the evidence: untracked calls do not perform tracked effects and do not raise.
import z3, ast
from .ty import *
from .core import *

DYN = OpaqueT('Dyn')
D = sort_of(DYN)
ATTR = z3.Function('DYN_ATTR', D, z3.StringSort(), D)
ITEM = z3.Function('DYN_ITEM', D, z3.IntSort(), D)
EQ = z3.Function('DYN_EQ', D, D, z3.BoolSort())
OF_STR = z3.Function('DYN_OF_STR', z3.StringSort(), D); OF_INT = z3.Function('DYN_OF_INT', z3.IntSort(), D)
OF_BOOL = z3.Function('DYN_OF_BOOL', z3.BoolSort(), D); NONE_D = z3.Const('DYN_NONE', D)

def dynify(eng, st, v):
    t = v.t
    if t == DYN: return v.z
    if t == STR: return OF_STR(v.z)
    if t == INT: return OF_INT(v.z)
    if t == BOOL: return OF_BOOL(v.z)
    if t == NONE: return NONE_D
    return fresh_z(DYN, 'dyn')

def fresh(p='dyn'): return V(DYN, fresh_z(DYN, p))

def decode_attr(z):
    z = z3.simplify(z) if False else z
    if z3.is_app(z) and z.decl().name() == 'DYN_ATTR' and z3.is_string_value(z.arg(1)):
        return z.arg(0), z.arg(1).as_string()
    return None, None

def call_value(eng, st, f, args, kwargs, node):
    recv, attr = decode_attr(f.z)
    if attr is not None:
        m = eng.reg.find_model('Dyn.' + attr)
        if m is not None:
            r = m(eng, st, [V(DYN, recv)] + args, kwargs, node)
            if r is not None: return r
        st.trace.append(('call', '.' + attr))
        return [(st, fresh(attr))]
    st.trace.append(('call', '<value>'))
    return [(st, fresh('call'))]

def call_unknown(eng, st, name, args, kwargs, node):
    short = name.split('.')[-1]
    m = eng.reg.find_model('Dyn.' + short)
    if m is not None:
        r = m(eng, st, [fresh('mod')] + args, kwargs, node)
        if r is not None: return r
    st.trace.append(('call', name))
    eng.assume_note('Dyn mode: untracked calls are effect-free and do not raise (e.g. %s)' % name) if len(eng.assumptions) < 40 else None
    return [(st, fresh(short))]

def contains_tracked(eng, node):
    tracked = getattr(getattr(eng.reg, 'current_unit', None), 'tracked', None) or getattr(eng.reg, 'tracked_names', set())
    for n in ast.walk(node):
        if isinstance(n, ast.Attribute) and n.attr in tracked: return n.attr
        if isinstance(n, ast.Name) and n.id in tracked: return n.id
    return None

def install(reg):
    reg.dyn = True
    reg.always_truthy = set(getattr(reg, 'always_truthy', ()))
    reg.trusted.append('Dyn mode (pyvc/dyn.py): values irrelevant to the contract are abstract; tests on them are explored both ways; untracked calls are assumed to have no tracked effect and not to raise')
    def binop_hook(eng, st, op, a, b, node):
        if a.t == DYN or b.t == DYN or a.t == MOD or b.t == MOD or isinstance(a.t, (PyTupT, RecT, IterT)) or isinstance(b.t, (PyTupT, RecT, IterT)) or a.ref is not None or b.ref is not None:
            return [(st, fresh('bin'))]
        return None
    def compare_hook(eng, st, op, a, b, node):
        f = z3.Function('DYN_CMP_' + type(op).__name__, D, D, z3.BoolSort())
        return [(st, f(dynify(eng, st, a), dynify(eng, st, b)))]
    def contains_hook(eng, st, cont, x, node):
        if cont.t == DYN or x.t == DYN:
            f = z3.Function('DYN_IN', D, D, z3.BoolSort())
            return f(dynify(eng, st, x), dynify(eng, st, cont))
        return None
    def index_hook(eng, st, c, i, node):
        if c.t == DYN: return [(st, V(DYN, z3.Function('DYN_INDEX', D, D, D)(c.z, dynify(eng, st, i))))]
        return None
    def setitem_hook(eng, st, c, k, v, node):
        if c.t == DYN: st.trace.append(('setitem',)); return [(st, None)]
        return None
    def delitem_hook(eng, st, c, k, node):
        if c.t == DYN: st.trace.append(('delitem',)); return [(st, None)]
        return None
    def iter_hook(eng, st, v, node):
        if v.t == DYN:
            lt = ListT(DYN); L = fresh_z(lt, 'dyniter'); st.assume(list_len(lt, L) >= 0)
            return [(st, V(lt, L))]
        return None
    def comp_hook(eng, st, e, kind):
        if not eng.reg.dyn: return None        # strict typed unit: generic comprehension contract (pyvc/comp.py)
        t = contains_tracked(eng, e)
        if t is not None: raise Unsupported('comprehension at %s contains the tracked call %s' % (eng.loc(e), t))
        return [(st, fresh('comp'))]
    def star_call_hook(eng, st, e):
        t = contains_tracked(eng, e)
        if t is not None: raise Unsupported('*args call at %s involves the tracked name %s' % (eng.loc(e), t))
        return [(st, fresh('starcall'))]
    reg.binop_hook = binop_hook; reg.compare_hook = compare_hook; reg.contains_hook = contains_hook; reg.index_hook = index_hook
    reg.setitem_hook = setitem_hook; reg.delitem_hook = delitem_hook; reg.iter_hook = iter_hook; reg.comp_hook = comp_hook; reg.star_call_hook = star_call_hook
    @reg.model('Dyn.__enter__', 'Dyn.__aenter__')
    def d_enter(eng, st, args, kw, node): return [(st, fresh('entered'))]
    @reg.model('Dyn.__exit__', 'Dyn.__aexit__')
    def d_exit(eng, st, args, kw, node): return [(st, mk_bool(False))]
    @reg.model('isinstance:PyDyn')
    def d_isinst(eng, st, args, kw, node): return [(st, mk_bool(fresh_z(BOOL, 'isinst')))]
    reg.pure_names |= {'Dyn.__enter__', 'Dyn.__exit__'}
