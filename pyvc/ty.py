# PyVC - types, z3 sorts and symbolic values.
#
# Every Python value handled by the symbolic executor is a V(t, z, ref):
#   t    static type (one of the classes below)
#   z    z3 expression of sort sort_of(t)      (immutable value), or
#   ref  heap cell id for mutable values (list/dict/set/object); the content
#        is looked up in the state's heap.
import z3

class Unsupported(Exception):
    """Construct outside the verified subset; check exits 2 (undecided)."""

class T:
    def __eq__(self, o): return type(self) is type(o) and self.key() == o.key()
    def __hash__(self): return hash((type(self).__name__, self.key()))
    def __repr__(self): return self.name()
    def key(self): return ()
    def name(self): return type(self).__name__

class Prim(T):
    def __init__(self, n): self.n = n
    def key(self): return self.n
    def name(self): return self.n

INT = Prim('int'); BOOL = Prim('bool'); STR = Prim('str'); BYTES = Prim('bytes')
NONE = Prim('None'); FLOAT = Prim('float'); ANY = Prim('any')

class ListT(T):
    def __init__(self, elem): self.elem = elem
    def key(self): return self.elem
    def name(self): return 'List_%s' % self.elem.name()
class TupleT(T):
    def __init__(self, *elems): self.elems = tuple(elems)
    def key(self): return self.elems
    def name(self): return 'Tup_' + '_'.join(e.name() for e in self.elems) + '_'
class SetT(T):
    def __init__(self, elem): self.elem = elem
    def key(self): return self.elem
    def name(self): return 'Set_%s' % self.elem.name()
class DictT(T):
    def __init__(self, k, v): self.k = k; self.v = v
    def key(self): return (self.k, self.v)
    def name(self): return 'Dict_%s_%s' % (self.k.name(), self.v.name())
class OptT(T):
    def __init__(self, base):
        assert not isinstance(base, OptT) and base != NONE
        self.base = base
    def key(self): return self.base
    def name(self): return 'Opt_%s' % self.base.name()
class ObjT(T):
    """Object with concrete identity; fields live in the heap."""
    def __init__(self, cls): self.cls = cls
    def key(self): return self.cls
    def name(self): return 'Obj_%s' % self.cls.replace('.', '_')
class OpaqueT(T):
    """Uninterpreted sort; accessed through axiomatised operations only."""
    def __init__(self, n): self.n = n
    def key(self): return self.n
    def name(self): return self.n
class FuncT(T):
    """Statically resolved callable (closure, lambda, bound method, model)."""
    def key(self): return ()
class ExcT(T):
    """Exception instance; z is an Exc python object."""
    def key(self): return ()
class ModT(T):
    """Module / dotted-name placeholder."""
    def key(self): return ()
class ClsT(T):
    """Class object placeholder (z = qualified class name)."""
    def key(self): return ()

class PyTupT(T):
    """Python-side tuple of arbitrary values (z = list of V); not storable in containers."""
    def __init__(self, n): self.n = n
    def key(self): return self.n
class RecT(T):
    """Python-side record: dict literal with constant string keys (z = dict name -> V)."""
    def key(self): return ()

class IterT(T):
    """Iterable already converted to a listing (z = python list of V, or V of ListT)."""
    def key(self): return ()

FUNC = FuncT(); EXC = ExcT(); MOD = ModT(); CLS = ClsT()

def is_mutable(t):
    return isinstance(t, (ListT, SetT, DictT, ObjT))

_sorts = {}
_BV8 = z3.BitVecSort(8)

def sort_of(t):
    if t in _sorts: return _sorts[t]
    if t == INT: s = z3.IntSort()
    elif t == BOOL: s = z3.BoolSort()
    elif t == STR: s = z3.StringSort()
    elif t == BYTES: s = z3.SeqSort(_BV8)
    elif t == FLOAT: s = z3.RealSort()
    elif t == NONE:
        d = z3.Datatype('NoneT'); d.declare('PyNone'); s = d.create()
    elif isinstance(t, ListT):
        d = z3.Datatype(t.name())
        d.declare('mk_' + t.name(), ('arr_' + t.name(), z3.ArraySort(z3.IntSort(), sort_of(t.elem))), ('len_' + t.name(), z3.IntSort()))
        s = d.create()
    elif isinstance(t, TupleT):
        d = z3.Datatype(t.name())
        d.declare('mk_' + t.name(), *[('f%d_%s' % (i, t.name()), sort_of(e)) for i, e in enumerate(t.elems)])
        s = d.create()
    elif isinstance(t, SetT): s = z3.ArraySort(sort_of(t.elem), z3.BoolSort())
    elif isinstance(t, DictT): s = z3.ArraySort(sort_of(t.k), sort_of(opt(t.v)))
    elif isinstance(t, OptT):
        d = z3.Datatype(t.name()); d.declare('none_' + t.name()); d.declare('some_' + t.name(), ('val_' + t.name(), sort_of(t.base)))
        s = d.create()
    elif isinstance(t, OpaqueT): s = z3.DeclareSort('Py' + t.n)
    elif isinstance(t, ObjT): raise Unsupported('object of class %s stored in a container' % t.cls)
    else: raise Unsupported('no sort for type %r' % (t,))
    _sorts[t] = s
    return s

def opt(t):
    if isinstance(t, OptT): return t
    if t == NONE: raise Unsupported('Optional[None]')
    return OptT(t)

_cnt = [0]
def fresh_name(p='v'):
    _cnt[0] += 1
    return '%s!%d' % (p, _cnt[0])

def fresh_z(t, p='v'):
    return z3.Const(fresh_name(p), sort_of(t))

class V:
    __slots__ = ('t', 'z', 'ref', 'detached', 'src')
    def __init__(self, t, z=None, ref=None):
        self.t = t; self.z = z; self.ref = ref; self.detached = False; self.src = None
    def __repr__(self):
        return 'V(%s,%s%s)' % (self.t, self.z, '' if self.ref is None else ',ref=%s' % self.ref)

def mk_int(i): return V(INT, z3.IntVal(i) if isinstance(i, int) else i)
def mk_bool(b): return V(BOOL, z3.BoolVal(b) if isinstance(b, bool) else b)
def mk_str(s): return V(STR, z3.StringVal(s) if isinstance(s, str) else s)
def mk_bytes(b):
    if isinstance(b, (bytes, bytearray)):
        if len(b) == 0: return V(BYTES, z3.Empty(sort_of(BYTES)))
        units = [z3.Unit(z3.BitVecVal(x, 8)) for x in b]
        return V(BYTES, units[0] if len(units) == 1 else z3.Concat(*units))
    return V(BYTES, b)
def mk_none(): return V(NONE, sort_of(NONE).PyNone)

# ---- Optional helpers
def opt_none(t): return sort_of(t).constructor(0)()
def opt_some(t, z): return sort_of(t).constructor(1)(z)
def opt_is_none(t, z): return sort_of(t).recognizer(0)(z)
def opt_val(t, z): return sort_of(t).accessor(1, 0)(z)

def coerce(v, t):
    """Coerce immutable V to type t (only T -> Optional[T], None -> Optional[T], bool->int)."""
    if v.t == t: return v
    if isinstance(t, OptT):
        if v.t == NONE: return V(t, opt_none(t))
        if v.t == t.base: return V(t, opt_some(t, v.z))
        if t.base == INT and v.t == BOOL: return V(t, opt_some(t, z3.If(v.z, 1, 0)))
    if t == INT and v.t == BOOL: return V(INT, z3.If(v.z, z3.IntVal(1), z3.IntVal(0)))
    raise Unsupported('cannot coerce %s to %s' % (v.t, t))

def join_types(a, b):
    if a == b: return a
    if a == NONE: return opt(b)
    if b == NONE: return opt(a)
    if isinstance(a, OptT) and a.base == b: return a
    if isinstance(b, OptT) and b.base == a: return b
    if {a, b} == {INT, BOOL}: return INT
    raise Unsupported('cannot join types %s and %s' % (a, b))

# ---- list helpers (total, no bounds checks)
def list_mk(t, arr, ln): return sort_of(t).constructor(0)(arr, ln)
def list_arr(t, z): return sort_of(t).accessor(0, 0)(z)
def list_len(t, z): return sort_of(t).accessor(0, 1)(z)
def list_get(t, z, i): return z3.Select(list_arr(t, z), i)
def list_empty(t):
    return list_mk(t, z3.K(z3.IntSort(), _default(t.elem)), z3.IntVal(0))

def _default(t):
    s = sort_of(t)
    if t == INT: return z3.IntVal(0)
    if t == BOOL: return z3.BoolVal(False)
    if t == STR: return z3.StringVal('')
    if t == BYTES: return z3.Empty(s)
    return z3.Const('default_%s' % t.name(), s)

def list_eq(t, a, b):
    i = z3.Int(fresh_name('i'))
    return z3.And(list_len(t, a) == list_len(t, b),
                  z3.ForAll([i], z3.Implies(z3.And(0 <= i, i < list_len(t, a)),
                                           val_eq(t.elem, list_get(t, a, i), list_get(t, b, i)))))

def val_eq(t, a, b):
    """Python == on immutable representations (extensional for lists)."""
    if isinstance(t, ListT): return list_eq(t, a, b)
    if isinstance(t, TupleT) and any(isinstance(e, ListT) for e in t.elems):
        s = sort_of(t)
        return z3.And(*[val_eq(e, s.accessor(0, i)(a), s.accessor(0, i)(b)) for i, e in enumerate(t.elems)])
    return a == b

def tup_get(t, z, i): return sort_of(t).accessor(0, i)(z)
def tup_mk(t, zs): return sort_of(t).constructor(0)(*zs)
