# PyVC driver: run all units of one property in parallel, aggregate verdicts,
# handle known findings and replays, write evidence, set the exit status.
#   0 every obligation discharged (known findings printed)      1 violation (refuted obligation)
#   2 undecided (unknown / unsupported / anchor lost)            3 checker crash / vacuity / engine self-check failure
import sys, os, json, subprocess, time, concurrent.futures as cf, hashlib, fnmatch, re

ROOT = os.path.dirname(os.path.dirname(os.path.abspath(__file__)))
PY = 'python3-vt'
REPLAY_PY = '/venv/bin/python'

def run_worker(prop, unit, both, env, shard=None):
    cmd = [PY, '-m', 'pyvc.worker', prop, unit] + (['--both'] if both else []) + (['--shard=%d/%d' % shard] if shard else [])
    # a worker that runs away (path explosion, solver memory) is an UNDECIDED unit, never a verdict
    wall = int(os.environ.get('PYVC_WORKER_TIMEOUT', '900')); mem = int(os.environ.get('PYVC_WORKER_MEM_GB', '12')) << 30
    def limits():
        import resource
        resource.setrlimit(resource.RLIMIT_AS, (mem, mem))
    try:
        p = subprocess.run(cmd, cwd=ROOT, capture_output=True, text=True, env=env, timeout=wall, preexec_fn=limits)
    except subprocess.TimeoutExpired:
        return {'unit': unit, 'status': 'unsupported', 'detail': 'worker exceeded the wall-clock budget of %d s (undecided)' % wall, 'obligations': []}
    if p.returncode != 0 and 'MemoryError' in (p.stderr or ''):
        return {'unit': unit, 'status': 'unsupported', 'detail': 'worker exceeded the memory budget (undecided)', 'obligations': []}
    for line in reversed(p.stdout.strip().split('\n')):
        line = line.strip()
        if line.startswith('{'):
            try: return json.loads(line)
            except json.JSONDecodeError: pass
    return {'unit': unit, 'status': 'crash', 'detail': (p.stdout[-2000:] + p.stderr[-2000:]), 'obligations': []}

def load_known():
    p = os.path.join(ROOT, 'known_findings.json')
    if not os.path.exists(p): return {'findings': [], 'fixed': []}
    return json.load(open(p))

def match_known(known, prop, ob):
    for f in known.get('findings', []):
        if f['property'] != prop: continue
        if not fnmatch.fnmatchcase(ob['name'], f['obligation']): continue
        if f.get('note_contains') and f['note_contains'] not in (ob.get('note') or ''): continue
        return f
    return None

def native_replay(prop, unitres, ob, path, env, timeout=120):
    """Run the replay harness of the property under the repo's interpreter; returns dict."""
    harness = os.path.join(ROOT, 'replay', prop + '.py')
    if not os.path.exists(harness): return {'reproduced': None, 'detail': 'no replay harness for this property'}
    try:
        p = subprocess.run([REPLAY_PY, os.path.join(ROOT, 'replay', 'run.py'), prop, path], cwd=ROOT,
                           capture_output=True, text=True, env=env, timeout=timeout)
        for line in reversed(p.stdout.strip().split('\n')):
            if line.startswith('{'): return json.loads(line)
        return {'reproduced': None, 'detail': 'replay harness gave no result: ' + (p.stdout + p.stderr)[-1500:]}
    except subprocess.TimeoutExpired:
        return {'reproduced': None, 'detail': 'replay timed out'}
    except Exception as ex:
        return {'reproduced': None, 'detail': 'replay failed: %r' % (ex,)}

def main(argv):
    prop = argv[1]
    tier = os.environ.get('VERIF_TIER', 'quick')
    if '--tier' in argv: tier = argv[argv.index('--tier') + 1]
    seed = int(os.environ.get('VERIF_SEED', '0') or 0)
    both = tier == 'thorough'
    env = dict(os.environ); env['PYTHONPATH'] = ROOT; env['VERIF_TIER'] = tier; env['VERIF_SEED'] = str(seed)
    t0 = time.time()
    os.makedirs(os.path.join(ROOT, 'evidence'), exist_ok=True)
    os.makedirs(os.path.join(ROOT, 'replays'), exist_ok=True)
    evidence_path = os.path.join(ROOT, 'evidence', prop + '.json')
    if os.environ.get('VERIF_REPO', '/repo') != '/repo':
        # development runs against a scratch copy never overwrite the evidence of the real tree
        os.makedirs(os.path.join(ROOT, 'replays', 'scratch-evidence'), exist_ok=True)
        evidence_path = os.path.join(ROOT, 'replays', 'scratch-evidence', prop + '.json')

    p = subprocess.run([PY, '-m', 'pyvc.worker', prop, '--list'], cwd=ROOT, capture_output=True, text=True, env=env)
    units = None
    for line in reversed(p.stdout.strip().split('\n')):
        if line.startswith('['):
            units = json.loads(line); break
    if units is None:
        print('CHECKER-CRASH: cannot list units of %s\n%s' % (prop, p.stdout[-3000:] + p.stderr[-3000:]))
        write_evidence(evidence_path, prop, tier, seed, [], [], time.time() - t0, crash='cannot load contracts')
        return 3
    # bounded native stand-in (replay harness in search mode), started now and collected at the end
    bounded_fut = None
    bex = cf.ThreadPoolExecutor(max_workers=1)
    if os.path.exists(os.path.join(ROOT, 'replay', prop + '.py')) and os.environ.get('PYVC_NO_BOUNDED') != '1':
        seedfile = os.path.join(ROOT, 'replays', '%s-bounded-search.json' % prop)
        json.dump({'property': prop, 'obligation': 'bounded-native-search', 'inputs': None}, open(seedfile, 'w'))
        benv = dict(env); benv['VERIF_BOUNDED_BUDGET'] = '60' if tier == 'thorough' else '20'
        bounded_fut = bex.submit(native_replay, prop, None, {}, seedfile, benv, 7200 if tier == 'thorough' else 1500)
    results = []
    jobs = int(os.environ.get('PYVC_JOBS', '16'))
    nsh = max(1, min(6, jobs // max(1, len(units))))
    with cf.ThreadPoolExecutor(max_workers=jobs) as ex:
        futs = {}
        for u in units:
            for i in range(nsh): futs[ex.submit(run_worker, prop, u['name'], both, env, (i, nsh) if nsh > 1 else None)] = u
        parts = {}
        for f in cf.as_completed(futs): parts.setdefault(futs[f]['name'], []).append(f.result())
    for name, rs in parts.items():
        # merge the shards of one unit
        base = rs[0]
        for r in rs[1:]:
            if r['status'] != 'ok' and base['status'] == 'ok': base['status'] = r['status']; base['detail'] = r.get('detail')
            base['obligations'] = base.get('obligations', []) + r.get('obligations', [])
            base['wall_s'] = max(base.get('wall_s', 0), r.get('wall_s', 0))
        base['obligations'].sort(key=lambda o: o['name'])
        if base['status'] == 'ok' and base.get('generated') is not None and len(base['obligations']) != base['generated']:
            base['status'] = 'crash'; base['detail'] = 'shards returned %d of %d obligations' % (len(base['obligations']), base['generated'])
        results.append(base)
    results.sort(key=lambda r: r['unit'])

    # property-specific extra stages (bounded stand-ins, lemma checks done outside the engine)
    extras = []
    extra_script = os.path.join(ROOT, 'contracts', prop + '_extra.py')
    if os.path.exists(extra_script):
        pe = subprocess.run([PY, extra_script, tier, str(seed)], cwd=ROOT, capture_output=True, text=True, env=env)
        for line in pe.stdout.strip().split('\n'):
            if line.startswith('{'):
                try: extras.append(json.loads(line))
                except json.JSONDecodeError: pass
        if pe.returncode not in (0,) and not extras:
            extras.append({'name': 'extra-stage', 'status': 'crash', 'detail': (pe.stdout + pe.stderr)[-2000:]})

    # baseline: what was discharged on the unchanged tree (committed; rewritten only with --update-baseline)
    base_path = os.path.join(ROOT, 'baseline', prop + '.json')
    baseline = json.load(open(base_path)) if os.path.exists(base_path) else {'units': {}}
    if '--update-baseline' in argv:
        b = {'units': {}}
        for r in results:
            b['units'][r['unit']] = {'sha256': r.get('sha256'),
                'discharged': sorted({re.sub(r'/path\d+$', '', o['name']) for o in r.get('obligations', []) if o['verdict'] == 'discharged'})}
        os.makedirs(os.path.dirname(base_path), exist_ok=True)
        json.dump(b, open(base_path, 'w'), indent=1, sort_keys=True)
        baseline = b
    def regressed(r, obname):
        """obligation was discharged on the unchanged tree and the function's source differs now"""
        bu = baseline['units'].get(r.get('unit'))
        if bu is None: return False
        if not any_changed: return False
        base = re.sub(r'/path\d+$', '', obname)
        # an exception-discipline obligation that did not exist before is a new escaping path of a changed function
        return base in bu.get('discharged', []) or '/raises:' in base

    # some function under contract of this property differs from the unchanged tree (callers are affected through
    # callee signatures/defaults, so the question is asked per property, not per unit)
    any_changed = any(baseline['units'].get(r.get('unit'), {}).get('sha256') not in (None, r.get('sha256')) for r in results)

    if bounded_fut is not None:
        nat = bounded_fut.result()
        e = {'name': 'bounded-native-search', 'level': 'bounded', 'tried': nat.get('tried'), 'distinct': nat.get('distinct'), 'samples': nat.get('samples'), 'detail': nat.get('detail'),
             'bound': nat.get('bound', 'see replay/%s.py: enumerated small scope + seeded random cases' % prop)}
        if nat.get('reproduced'):
            e['status'] = 'violation'; e['replay'] = nat; e['inputs'] = nat.get('witness')
            e['name'] = 'bounded-native-search:' + str((nat.get('witness') or {}).get('kind', (nat.get('witness') or {}).get('what', 'failing-input')))[:80]
            e['detail'] = json.dumps(nat.get('witness'), default=str)[:1500]
        elif nat.get('reproduced') is None:
            e['status'] = 'undecided'
        else: e['status'] = 'ok'
        extras.append(e)

    known = load_known()
    rc = 0
    violations = []; known_hits = []; undecided = []; crashes = []
    total = 0; discharged = 0
    for r in results:
        if r['status'] in ('crash', 'vacuous'): crashes.append(r)
        elif r['status'] in ('unsupported', 'anchor-lost'): undecided.append((r['unit'], r['status'], r.get('detail')))
        for ob in r.get('obligations', []):
            total += 1
            if ob['verdict'] == 'discharged': discharged += 1
            elif ob['verdict'] == 'refuted':
                k = match_known(known, prop, ob)
                if k is not None: known_hits.append((k, r, ob))
                else: violations.append((r, ob))
            elif ob['verdict'] == 'disagreement': crashes.append({'unit': r['unit'], 'status': 'solver-disagreement', 'detail': ob['name']})
            elif regressed(r, ob['name']):
                # passed on the unchanged tree, fails after a source change: reported as a violation
                # (candidate model from the incomplete solver run, if any, is tried natively)
                ob['note'] = (ob.get('note') or '') + ' [discharged on the unchanged tree; after the source change the solver answers: %s]' % ob.get('by')
                k = match_known(known, prop, ob)
                if k is not None: known_hits.append((k, r, ob))
                else: violations.append((r, ob))
            else: undecided.append((r['unit'], ob['name'], ob.get('by')))
    for r in results:
        # a function that left the verified subset after a source change, while it verified before
        if r['status'] in ('unsupported',) and baseline['units'].get(r['unit'], {}).get('sha256') not in (None, r.get('sha256')):
            pass
    for e in extras:
        if e.get('status') == 'violation':
            k = None
            for f in known.get('findings', []):
                if f['property'] == prop and fnmatch.fnmatchcase(e.get('name', ''), f['obligation']): k = f
            if k is not None: known_hits.append((k, {'unit': 'extra'}, {'name': e['name'], 'note': e.get('detail', '')}))
            else: violations.append(({'unit': e.get('name'), 'file': '', 'qual': ''}, {'name': e['name'], 'note': e.get('detail', ''), 'inputs': e.get('inputs'), 'extra': True, 'replay_done': e.get('replay')}))
        elif e.get('status') == 'crash': crashes.append({'unit': e.get('name'), 'status': 'crash', 'detail': e.get('detail')})
        elif e.get('status') == 'undecided': undecided.append((e.get('name'), 'extra', e.get('detail')))

    seen_known = set()
    for k, r, ob in known_hits:
        if k['id'] in seen_known: continue
        seen_known.add(k['id'])
        print('KNOWN-FINDING: property=%s %s [%s: %s]' % (prop, k['what'], k['id'], ob['name']))

    # group violations by (unit, obligation name without path suffix)
    reported = set()
    for r, ob in violations:
        base = re.sub(r'/path\d+$', '', ob['name'])
        if base in reported: continue
        reported.add(base)
        fn = re.sub(r'[^A-Za-z0-9_.-]+', '_', '%s-%s' % (prop, base))[:150] + '.json'
        path = os.path.join(ROOT, 'replays', fn)
        rep = {'property': prop, 'obligation': ob['name'], 'unit': r.get('unit'), 'file': r.get('file'), 'function': r.get('qual'),
               'source_sha256': r.get('sha256'), 'note': ob.get('note'), 'goal': ob.get('goal'), 'inputs': ob.get('inputs'),
               'verifier_output': ob.get('model'), 'solver': ob.get('by'),
               'rerun': 'cd /verif && ./check %s   # native replay: %s replay/run.py %s %s' % (prop, REPLAY_PY, prop, path)}
        json.dump(rep, open(path, 'w'), indent=1, default=str)
        if ob.get('extra'):
            nat = ob.get('replay_done') or {'reproduced': True}
        else:
            nat = native_replay(prop, r, ob, path, env)
            if nat.get('reproduced'):
                kname = 'bounded-native-search:' + str((nat.get('witness') or {}).get('kind', (nat.get('witness') or {}).get('what', 'failing-input')))[:80]
                if match_known(known, prop, {'name': kname, 'note': json.dumps(nat.get('witness'), default=str)}) is not None:
                    nat = {'reproduced': False, 'detail': 'the native search only reproduced the known finding ' + kname, 'tried': nat.get('tried')}
        rep['native_replay'] = nat
        json.dump(rep, open(path, 'w'), indent=1, default=str)
        suffix = '' if nat.get('reproduced') else ' no-failing-input-found'
        print('VIOLATION property=%s replay=%s%s' % (prop, path, suffix))
        print('  obligation: %s  %s' % (ob['name'], ob.get('note') or ''))
        if nat.get('reproduced'): print('  native: %s' % json.dumps(nat.get('witness', nat.get('detail')), default=str)[:600])
        rc = 1
    # functions that verified on the unchanged tree but, after a source change, left the verified subset or
    # cannot be decided: trust only a refutation that replays on the real code
    changed_undecided = []
    for r in results:
        bu = baseline['units'].get(r.get('unit'))
        if bu is None or bu.get('sha256') == r.get('sha256'): continue
        if r['status'] in ('unsupported', 'anchor-lost'): changed_undecided.append((r, r['status'] + ': ' + str(r.get('detail'))))
    if rc == 0 and changed_undecided:
        r, why = changed_undecided[0]
        fn = re.sub(r'[^A-Za-z0-9_.-]+', '_', '%s-%s-undecided' % (prop, r['unit']))[:150] + '.json'
        path = os.path.join(ROOT, 'replays', fn)
        rep = {'property': prop, 'obligation': '%s/<whole function>' % r['unit'], 'unit': r['unit'], 'file': r.get('file'), 'function': r.get('qual'),
               'source_sha256': r.get('sha256'), 'note': 'function changed and can no longer be verified: ' + why, 'inputs': None, 'verifier_output': why}
        json.dump(rep, open(path, 'w'), indent=1, default=str)
        nat = native_replay(prop, r, {}, path, env)
        if nat.get('reproduced'):
            # a witness that is a listed known finding says nothing about this change
            kname = 'bounded-native-search:' + str((nat.get('witness') or {}).get('kind', (nat.get('witness') or {}).get('what', 'failing-input')))[:80]
            if match_known(known, prop, {'name': kname, 'note': json.dumps(nat.get('witness'), default=str)}) is not None:
                nat = {'reproduced': False, 'detail': 'the native search only reproduced the known finding ' + kname, 'tried': nat.get('tried')}
        rep['native_replay'] = nat
        json.dump(rep, open(path, 'w'), indent=1, default=str)
        if nat.get('reproduced'):
            print('VIOLATION property=%s replay=%s' % (prop, path))
            print('  %s changed and left the verified subset (%s); the native replay search found a failing input' % (r['unit'], why[:200]))
            print('  native: %s' % json.dumps(nat.get('witness', nat.get('detail')), default=str)[:600])
            reported.add(r['unit']); rc = 1
    for c in crashes:
        print('CHECKER-CRASH unit=%s status=%s %s' % (c.get('unit'), c.get('status'), str(c.get('detail'))[-1500:]))
    for u in undecided[:40]:
        print(('UNDECIDED %s' % (u,))[:400])
    if len(undecided) > 40: print('UNDECIDED ... %d more' % (len(undecided) - 40))
    if rc == 0 and crashes: rc = 3
    if rc == 0 and undecided: rc = 2
    watch_only = total == 0 and results and all(r.get('watch_only') for r in results)
    bounded_ok = [e for e in extras if e.get('level') == 'bounded' and e.get('status') in ('ok', 'violation') and (e.get('tried') or 0) > 0]
    if rc == 0 and total == 0 and not (watch_only and bounded_ok): rc = 3; print('CHECKER-CRASH zero obligations generated')
    wall = time.time() - t0
    write_evidence(evidence_path, prop, tier, seed, results, extras, wall, violations=len(reported), known=sorted(seen_known),
                   total=total, discharged=discharged, undecided=undecided)
    print('%s: %d units, %d obligations, %d discharged, %d violations, %d known findings, %d undecided, %.1fs -> exit %d'
          % (prop, len(results), total, discharged, len(reported), len(seen_known), len(undecided), wall, rc))
    return rc

def write_evidence(path, prop, tier, seed, results, extras, wall, violations=0, known=(), total=0, discharged=0, undecided=(), crash=None):
    funcs = []; trusted = set(); assumptions = set(); samples = []; by = {}; solver_ms = 0
    for r in results:
        funcs.append({'unit': r['unit'], 'under_contract': not r.get('watch_only', False), 'file': r.get('file'), 'function': r.get('qual'), 'lines': r.get('lines'),
                      'sha256': r.get('sha256'), 'status': r['status'], 'obligations': len(r.get('obligations', [])),
                      'discharged': sum(1 for o in r.get('obligations', []) if o['verdict'] == 'discharged'),
                      'paths': (r.get('vacuity') or {}).get('paths'), 'canary': r.get('canary'), 'wall_s': r.get('wall_s'),
                      'detail': r.get('detail')})
        if r.get('watch_only'): trusted.add('UNVERIFIED surroundings: %s::%s (%s)' % (r.get('file'), r.get('qual'), r.get('note')))
        for t in r.get('trusted', []): trusted.add(t)
        for a in r.get('assumptions', []): assumptions.add(a)
        for a in r.get('axioms', []): trusted.add('axiom set: ' + a)
        for o in r.get('obligations', []):
            by[o.get('by') or '?'] = by.get(o.get('by') or '?', 0) + 1
            solver_ms += o.get('ms') or 0
        for o in r.get('obligations', [])[:2]:
            samples.append({'obligation': o['name'], 'kind': o['kind'], 'verdict': o['verdict'], 'by': o['by'], 'ms': o['ms']})
    slow = sorted(({'obligation': o['name'], 'ms': o.get('ms') or 0, 'by': o.get('by')} for r in results for o in r.get('obligations', [])), key=lambda d: -d['ms'])[:8]
    bounded = [e for e in extras if e.get('level') == 'bounded']
    ev = {
        'property_id': prop, 'tier': tier, 'seed': seed, 'level': 'proof',
        'coverage': {
            'obligations': total, 'discharged': discharged,
            'checker_cmd': './check %s --tier %s   (pyvc: AST->VC generator over /repo working tree; z3 %s API, cvc5 1.0.3 and z3-new CLI on unknown)' % (prop, tier, '5.1.0'),
            'trusted_base': sorted(trusted) + ['PyVC itself: this project\'s encoding of Python semantics (see DESIGN.md 2.2), not an independently validated verifier',
                                                'z3 / cvc5 soundness'],
            'functions_under_contract': funcs,
            'discharged_by_backend': by, 'solver_time_ms': solver_ms,
            'samples': samples[:12],
            'slowest_obligations': slow,
            'undecided': [list(map(str, u)) for u in undecided][:50],
            'bounded_standins': bounded,
            'extra_stages': [e for e in extras if e.get('level') != 'bounded'],
            'known_findings_reported': list(known),
        },
        'assumptions': sorted(assumptions),
        'wall_s': round(wall, 2), 'violations': violations,
    }
    if crash: ev['coverage']['explanation'] = crash
    if total == 0:
        b = [e for e in extras if e.get('level') == 'bounded' and (e.get('tried') or 0) > 0]
        if b and not crash:
            # no function of this property is under contract: bounded native search only (never counted as proved)
            ev['level'] = 'exploration'
            ev['coverage'].update({'evaluations': b[0]['tried'], 'distinct_nontrivial': int(b[0].get('distinct') or 0),
                'rule': 'bounded native search of replay/%s.py (%s); a case counts as distinct and non-trivial when its descriptor is new and the second operation really ran inside the first' % (prop, b[0].get('bound')),
                'samples': b[0].get('samples') or [b[0].get('detail')], 'exhaustive': False})
            for k in ('obligations', 'discharged'): ev['coverage'].pop(k, None)
        else:
            ev['level'] = 'other'; ev['coverage']['explanation'] = 'no obligations generated: ' + str(crash)
    json.dump(ev, open(path, 'w'), indent=1, default=str)

if __name__ == '__main__':
    sys.exit(main(sys.argv))
