# C17 - String substitution and conditions follow the documented language  (pym/bob/stringparser.py)
#
# Under contract: the lexical layer of the recursive-descent substitution parser.  Proved for ALL texts and
# positions (z3 string theory, loop invariants => unbounded): every index/slice is in range, only ParseError
# escapes, the position never moves backwards and stays within the text, every loop terminates; nextToken
# returns a *delimiter token* exactly when it stands on an unescaped delimiter (and plain text otherwise);
# single-quoted text and bare variable names come back as the exact substring of the input.
# The functional meaning of getString/getVariable/getCommand (recursion, laziness) is NOT proved here: those
# functions are watched and covered by the bounded native search against a reference evaluator.
import ast, z3
from pyvc.api import *
from pyvc.ty import *
from pyvc.core import Raise, Exc, Unsupported
from pyvc.view import SV, W

F = 'pym/bob/stringparser.py'
SP = 'bob.stringparser.StringParser'
TOK = TupleT(BOOL, STR)          # (is unescaped delimiter, text): model of `_Delim(str)` vs plain `str`

def string_functions(reg):
    """the documented string functions against their manual entries (manual: 'String substitution' / 'String functions'):
    false is exactly "", "0" and "false" after stripping white space, case-insensitively; everything else is true."""
    S = z3.StringSort(); LS = ListT(STR)
    LOWER = z3.Function('str_lower', S, S); STRIP = z3.Function('str_strip', S, S); REPL = z3.Function('str_replace_all', S, S, S, S)
    def FALSE(z):
        c = LOWER(STRIP(z)); return z3.Or(c == z3.StringVal(''), c == z3.StringVal('0'), c == z3.StringVal('false'))
    tf = lambda b: z3.If(b, z3.StringVal('true'), z3.StringVal('false'))
    PE = 'bob.errors.ParseError'
    reg.trusted += ['str.strip() and str.lower() are uninterpreted functions of the string (their Unicode tables are not modelled); str.replace(a, b) likewise']
    us = []
    u = Unit(F, 'isFalse', {'val': STR}, 'C17', result=BOOL, pure=True, modifies_ghost=False,
             ensures=[('false-is-exactly-empty-0-false-after-strip-and-lower', lambda o, n, r: r.z == FALSE(o.val.z))])
    us.append(u); reg.add(u)
    u = Unit(F, 'isTrue', {'val': STR}, 'C17', result=BOOL, pure=True, modifies_ghost=False,
             ensures=[('true-is-everything-else', lambda o, n, r: r.z == z3.Not(FALSE(o.val.z)))])
    us.append(u); reg.add(u)
    def argn(k): return lambda o: o.args.len() != k
    def arity(k): return ('wrong-argument-count-is-rejected', lambda o, n, r: o.args.len() == k)
    A = lambda o, i: o.args[i].z
    def fun(name, k, post, note):
        us.append(Unit(F, name, {'args': LS}, 'C17', result=STR, raises={PE: argn(k)}, modifies_ghost=False,
                       ensures=[arity(k), post], note=note))
    fun('funEqual', 2, ('true-iff-equal', lambda o, n, r: r.z == tf(A(o, 0) == A(o, 1))), '$(eq,a,b)')
    fun('funNotEqual', 2, ('true-iff-different', lambda o, n, r: r.z == tf(A(o, 0) != A(o, 1))), '$(ne,a,b)')
    fun('funNot', 1, ('true-iff-argument-false', lambda o, n, r: r.z == tf(FALSE(A(o, 0)))), '$(not,a)')
    fun('funIfThenElse', 3, ('second-if-condition-true-else-third', lambda o, n, r: r.z == z3.If(FALSE(A(o, 0)), A(o, 2), A(o, 1))), '$(if-then-else,c,a,b)')
    fun('funSubst', 3, ('replaces-every-occurrence-in-the-third-argument', lambda o, n, r: r.z == REPL(A(o, 2), A(o, 0), A(o, 1))), '$(subst,from,to,text)')
    fun('funStrip', 1, ('strips-the-argument', lambda o, n, r: r.z == STRIP(A(o, 0))), '$(strip,text)')
    j = z3.Int('fj')
    def inv_or(cur, old, k, L): return [('iterates-the-arguments', L == old.args.z), ('all-arguments-so-far-false', z3.ForAll([j], z3.Implies(z3.And(0 <= j, j < k), FALSE(list_get(LS, L, j))), patterns=[list_get(LS, L, j)]))]
    def inv_and(cur, old, k, L): return [('iterates-the-arguments', L == old.args.z), ('all-arguments-so-far-true', z3.ForAll([j], z3.Implies(z3.And(0 <= j, j < k), z3.Not(FALSE(list_get(LS, L, j)))), patterns=[list_get(LS, L, j)]))]
    def some(o, pred): return z3.Exists([j], z3.And(0 <= j, j < o.args.len(), pred(list_get(LS, o.args.z, j))))
    us.append(Unit(F, 'funOr', {'args': LS}, 'C17', result=STR, modifies_ghost=False, loops={1: LoopSpec(inv=inv_or)},
                   ensures=[('true-iff-some-argument-true', lambda o, n, r: r.z == tf(some(o, lambda a: z3.Not(FALSE(a)))))], note='$(or,...) any number of arguments'))
    us.append(Unit(F, 'funAnd', {'args': LS}, 'C17', result=STR, modifies_ghost=False, loops={1: LoopSpec(inv=inv_and)},
                   ensures=[('false-iff-some-argument-false', lambda o, n, r: r.z == tf(z3.Not(some(o, FALSE))))], note='$(and,...) any number of arguments'))
    return us

def build(reg):
    reg.classes[SP] = ClassSpec(SP, {'text': STR, 'index': INT, 'end': INT, 'env': OpaqueT('EnvObj'), 'funs': OpaqueT('Funs'),
                                     'funArgs': OpaqueT('FunArgs'), 'nounset': BOOL})
    reg.trusted += ['the str subclass _Delim is modelled as a pair (is-delimiter, text); ==, `in` and "".join treat it as its text',
                    '"".join(list of str) is an uninterpreted function of the list']
    @reg.model('bob.stringparser._Delim')
    def mk_delim(eng, st, args, kw, node):
        return [(st, V(TOK, tup_mk(TOK, [z3.BoolVal(True), args[0].z])))]
    def contains_hook(eng, st, cont, x, node):
        if x.t == TOK: return eng.contains(st, cont, V(STR, tup_get(TOK, x.z, 1)), node)
        return None
    reg.contains_hook = contains_hook

    def wf(s):
        o = s.self
        return [('position-in-text', z3.And(o.end.z == z3.Length(o.text.z), 0 <= o.index.z, o.index.z <= o.end.z))]
    def wf_post(o, n, r):
        return z3.And(n.self.end.z == o.self.end.z, n.self.text.z == o.self.text.z, n.self.index.z >= o.self.index.z, n.self.index.z <= n.self.end.z)

    units = []
    # ---- nextChar
    def nc_post(o, n, r):
        return z3.And(n.self.index.z == o.self.index.z + 1, r.z == z3.SubString(o.self.text.z, o.self.index.z, 1), z3.Length(r.z) == 1)
    units.append(Unit(F, 'StringParser.nextChar', {'self': ObjT(SP)}, 'C17', requires=wf,
        ensures=[('in-range-and-advances', wf_post), ('returns-the-char-at-index', nc_post)], result=STR,
        raises={'bob.errors.ParseError': lambda o: o.self.index.z >= o.self.end.z}, modifies=['self.index'], modifies_ghost=False))
    reg.add(units[-1])

    # ---- nextToken
    STD = ['"', "'", '$']
    def is_delim(view, c, extra_z):
        """c is one of the delimiters the function scans for: its local list `delim` (std + extra)"""
        j = z3.Int('dj'); d = view.delim.z
        return z3.Exists([j], z3.And(0 <= j, j < list_len(ListT(STR), d), list_get(ListT(STR), d, j) == c))
    for variant, extra_t in (('extra=None', NONE), ('extra=list', ListT(STR))):
        def ex_of(o, extra_t=extra_t):
            return None if extra_t == NONE else o.extra.z
        def nt_req(s, extra_t=extra_t):
            r = wf(s)
            if extra_t != NONE:
                k = z3.Int('ek'); r.append(('delimiters-are-single-chars', z3.ForAll([k], z3.Implies(z3.And(0 <= k, k < s.extra.len()), z3.Length(s.extra[k].z) == 1))))
                r.append(('extra-len', s.extra.len() >= 0))
            return r
        def nt_post(o, n, r, extra_t=extra_t):
            text = o.self.text.z; i0 = o.self.index.z; end = o.self.end.z; ex = ex_of(o)
            c0 = z3.SubString(text, i0, 1)
            on_delim = z3.And(i0 < end, is_delim(n, c0, ex))
            if r.t == NONE:
                return z3.And(i0 >= end, n.self.index.z == i0)
            if not n.has('delim'): raise KeyError('local delim (proof hint) not found')
            if r.t == TOK:      # delimiter token
                return z3.And(on_delim, tup_get(TOK, r.z, 0), tup_get(TOK, r.z, 1) == c0, n.self.index.z == i0 + 1)
            if r.t == STR:      # text token: starts on a non-delimiter, ends at the text end or on a delimiter, and made progress
                i1 = n.self.index.z
                return z3.And(i0 < end, z3.Not(on_delim), i1 > i0, i1 <= end,
                              z3.Or(i1 == end, is_delim(n, z3.SubString(text, i1, 1), ex)))
            raise Unsupported('nextToken returns a value of type %s' % r.t)
        def nt_loop(cur, old, extra_t=extra_t):
            text = old.self.text.z; i0 = old.self.index.z; end = old.self.end.z; ex = ex_of(old)
            i = cur.i.z; start = cur.start.z
            return [('bounds', z3.And(i0 <= start, start <= i, i <= end, i0 < end)),
                    ('frame', z3.And(cur.self.text.z == text, cur.self.end.z == end, cur.self.index.z == i0)),
                    ('first-char-is-no-delimiter', z3.Not(is_delim(cur, z3.SubString(text, i0, 1), ex))),
                    ]
        units.append(Unit(F, 'StringParser.nextToken', {'self': ObjT(SP), 'extra': extra_t}, 'C17', name='StringParser.nextToken[%s]' % variant,
            requires=nt_req, ensures=[('in-range-and-advances', wf_post), ('delimiter-token-iff-on-unescaped-delimiter', nt_post)], result=None,
            raises={'bob.errors.ParseError': True}, loops={1: LoopSpec(inv=nt_loop, decreases=lambda c: c.self.end.z - c.i.z)},
            locals_types={'tok': ListT(STR)}, modifies=['self.index'], modifies_ghost=False,
            note='lexical scanner: unescaped delimiters are returned as _Delim tokens, everything else as text'))

    # ---- getSingleQuoted: protected text comes back unchanged
    def sq_post(o, n, r):
        text = o.self.text.z; i0 = o.self.index.z; j = n.self.index.z - 1
        return z3.And(j >= i0, j < o.self.end.z, z3.SubString(text, j, 1) == z3.StringVal("'"),
                      r.z == z3.SubString(text, i0, j - i0), z3.Not(z3.Contains(r.z, z3.StringVal("'"))))
    def sq_loop(cur, old):
        text = old.self.text.z; i0 = old.self.index.z; i = cur.i.z
        return [('bounds', z3.And(i0 <= i, i <= old.self.end.z)),
                ('frame', z3.And(cur.self.text.z == text, cur.self.end.z == old.self.end.z, cur.self.index.z == i0)),
                ('no-quote-so-far', z3.Not(z3.Contains(z3.SubString(text, i0, i - i0), z3.StringVal("'"))))]
    units.append(Unit(F, 'StringParser.getSingleQuoted', {'self': ObjT(SP)}, 'C17', requires=wf,
        ensures=[('in-range-and-advances', wf_post), ('literal-text-up-to-the-closing-quote', sq_post)], result=STR,
        raises={'bob.errors.ParseError': True}, loops={1: LoopSpec(inv=sq_loop, decreases=lambda c: c.self.end.z - c.i.z)},
        modifies=['self.index'], modifies_ghost=False))
    reg.add(units[-1])

    # ---- getRestOfName
    NAMECH = 'ABCDEFGHIJKLMNOPQRSTUVWXYZ_abcdefghijklmnopqrstuvwxyz0123456789'
    def rn_post(o, n, r):
        text = o.self.text.z; i0 = o.self.index.z; i1 = n.self.index.z
        return z3.And(r.z == z3.SubString(text, i0, i1 - i0),
                      z3.Or(i1 == o.self.end.z, z3.Not(z3.Contains(z3.StringVal(NAMECH), z3.SubString(text, i1, 1)))))
    def rn_loop(cur, old):
        text = old.self.text.z; i0 = old.self.index.z; i = cur.i.z
        return [('bounds', z3.And(i0 <= i, i <= old.self.end.z)),
                ('frame', z3.And(cur.self.text.z == text, cur.self.end.z == old.self.end.z, cur.self.index.z == i0)),
                ('ret-is-substring', cur.ret.z == z3.SubString(text, i0, i - i0))]
    units.append(Unit(F, 'StringParser.getRestOfName', {'self': ObjT(SP)}, 'C17', requires=wf,
        ensures=[('in-range-and-advances', wf_post), ('name-is-the-exact-substring', rn_post)], result=STR,
        loops={1: LoopSpec(inv=rn_loop, decreases=lambda c: c.self.end.z - c.i.z)}, modifies=['self.index'], modifies_ghost=False))
    reg.add(units[-1])

    units += [Watch(F, 'StringParser.getString', 'recursive substitution context (functional meaning checked natively only)'),
              Watch(F, 'StringParser.getVariable', 'variable forms with default/alternate, laziness'),
              Watch(F, 'StringParser.getBareVariable', 'bare variable'), Watch(F, 'StringParser.getCommand', 'string function call'),
              Watch(F, 'StringParser.parse', 'fast path'), Watch(F, 'StringLiteral.__init__', 'infix literal: substitution fast path'),
              Watch(F, 'BinaryStrOperator.evalExpression', 'infix string comparison'), Watch(F, 'BinaryBoolOperator.evalExpression', 'infix boolean operator'),
              Watch(F, 'NotOperator.evalExpression', 'infix not')]
    units += string_functions(reg)
    return units
