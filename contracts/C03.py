# C03 - Package ids are pure, location independent and long-term stable   (pym/bob/input.py)
#
# The purity half that contracts carry is the one proved for C02 on the same functions: CoreStep.getDigest feeds the
# hasher with exactly the spec serialisation of (digest script, tools in name order, hashed environment in key order,
# valid argument ids), where sorted(d.items()) is a function of the dictionary CONTENT and iteration over an unsorted
# dict/set is an arbitrary permutation in the engine.  Hence the proof obligations fail for any dependence on insertion
# order, hash seed, paths or any other attribute of the step.  This file re-runs those units under the C03 label and
# watches the other digest sites; location/seed/order independence of whole projects, id-irrelevant edits and the ids
# recorded on the pinned tree (golden ids) are covered by the bounded native search only.
from pyvc.api import *
from contracts import C02
def build(reg):
    units = C02.build(reg, prop='C03')
    F = 'pym/bob/input.py'
    units += [Watch(F, 'CoreStep.getResultId', 'result-id digest (sorted weak tools, sandbox paths, provided env)'),
              Watch(F, 'CoreTool.__init__', 'tool result id'), Watch(F, 'CoreSandbox.__init__', 'sandbox result id'),
              Watch(F, 'Recipe.prepare', 'fingerprint mask bit assignment over sorted tool names; environment pruning'),
              Watch('pym/bob/intermediate.py', 'StepIR.getDigestCoro', 'Build-Id digest with platform tag, fingerprint and relaxed weak tools'),
              Watch(F, 'RecipeSet.generatePackages', 'package graph cache')]
    return units
