# C03 - Package ids are pure, location independent and long-term stable   (pym/bob/input.py)
#
# The purity half that contracts carry is the one proved for C02 on the same functions: CoreStep.getDigest feeds the
# hasher with exactly the spec serialisation of (digest script, tools in name order, hashed environment in key order,
# valid argument ids), where sorted(d.items()) is a function of the dictionary CONTENT and iteration over an unsorted
# dict/set is an arbitrary permutation in the engine.  Hence the proof obligations fail for any dependence on insertion
# order, hash seed, paths or any other attribute of the step.  This file re-runs those units under the C03 label and
# watches the other digest sites; location/seed/order independence of whole projects, id-irrelevant edits and the ids
# recorded on the pinned tree (golden ids) are covered by the bounded native search only.
from pyvc.api import *
from contracts import C02
import ast, z3
from pyvc.ty import *
from pyvc.core import Raise, Exc, Unsupported
from pyvc.view import SV, W

def build(reg):
    units = C02.build(reg, prop='C03')
    units += digest_coro(reg)
    F = 'pym/bob/input.py'
    units += [Watch(F, 'CoreStep.getResultId', 'result-id digest (sorted weak tools, sandbox paths, provided env)'),
              Watch(F, 'CoreTool.__init__', 'tool result id'), Watch(F, 'CoreSandbox.__init__', 'sandbox result id'),
              Watch(F, 'Recipe.prepare', 'fingerprint mask bit assignment over sorted tool names; environment pruning'),
              Watch(F, 'RecipeSet.generatePackages', 'package graph cache')]
    return units


# ---------------------------------------------------------------------------------------------------------------------
# StepIR.getDigestCoro (pym/bob/intermediate.py): the digest behind the Build-Id (and the Variant-Id of the Jenkins/IR path).
# Proved against a spec serialisation like CoreStep.getDigest, additionally: the platform tag comes first, the host stream
# starts with the given fingerprint (Build-Id) or the sandbox id (fingerprinted + sandboxed Variant-Id), and with relaxTools
# a weakly used tool contributes only its NAME (so the Build-Id ignores which variant of a weak tool is installed).
def digest_coro(reg):
    FI = 'pym/bob/intermediate.py'
    B = sort_of(BYTES); S = z3.StringSort(); I = z3.IntSort()
    SHA1 = C02.SHA1; PACK_I = C02.PACK_I; UTF8 = C02.UTF8
    ST = OpaqueT('StepIRRef'); STZ = sort_of(ST); TL = OpaqueT('ToolIRRef'); TLZ = sort_of(TL); SB = OpaqueT('SandboxIRRef'); SBZ = sort_of(SB)
    CALCS = z3.Function('calculate_ir', STZ, B)
    SMAP = DictT(STR, STR); TMAP = DictT(STR, TL); LS = ListT(STR); L_ST = ListT(ST); L_B = ListT(BYTES)
    T_ENV = TupleT(STR, STR); T_TOOL = TupleT(STR, TL); L_ENV = ListT(T_ENV); L_TOOL = ListT(T_TOOL)
    DENV = z3.Function('IR_digestEnv', STZ, sort_of(SMAP)); TOOLS = z3.Function('IR_tools', STZ, sort_of(TMAP)); WEAK = z3.Function('IR_toolKeysWeak', STZ, sort_of(LS))
    ISFP = z3.Function('IR_isFingerprinted', STZ, z3.BoolSort()); HASSB = z3.Function('IR_hasSandbox', STZ, z3.BoolSort()); SBOF = z3.Function('IR_sandbox', STZ, SBZ)
    SB_STEP = z3.Function('SBIR_step', SBZ, STZ); DSCRIPT = z3.Function('IR_digestScript', STZ, sort_of(OptT(STR)))
    T_STEP = z3.Function('TOOLIR_step', TLZ, STZ); T_PATH = z3.Function('TOOLIR_path', TLZ, S); T_LIBS = z3.Function('TOOLIR_libs', TLZ, sort_of(LS))
    SORTED_ENV = z3.Function('SORTED_ITEMS_env', sort_of(SMAP), sort_of(L_ENV)); SORTED_TOOLS = z3.Function('SORTED_ITEMS_irtools', sort_of(TMAP), sort_of(L_TOOL))
    VALID_ARGS = z3.Function('IR_VALID_ARGS', STZ, sort_of(L_ST)); TOOL_STEPS = z3.Function('TOOL_STEPS_OF', sort_of(L_TOOL), sort_of(L_ST))
    DLEN_E = z3.Function('card_' + SMAP.name(), sort_of(SMAP), I); DLEN_T = z3.Function('card_' + TMAP.name(), sort_of(TMAP), I)
    OS = OptT(STR); OSB = OptT(SB); OBY = OptT(BYTES)
    REC = OpaqueT('StepIRData')
    reg.attr_models['StepIRRef._StepIR__data'] = reg.attr_models['StepIRRef.__data'] = lambda e, st, b, n: [(st, V(REC, z3.Function('IR_data', STZ, sort_of(REC))(b.z)))]
    base_idx = reg.index_hook
    def idx_hook(e, st, c, i, node):
        if c.t == REC and z3.is_string_value(i.z):
            me = c.z.arg(0); k = i.z.as_string()
            if k == 'toolKeysWeak':
                v = V(LS, WEAK(me)); v.src = ('weak-list', me); return [(st, v)]
            if k == 'digestEnv': return [(st, V(SMAP, DENV(me)))]
            raise Unsupported('StepIR data key %s' % k)
        return base_idx(e, st, c, i, node) if base_idx else None
    reg.index_hook = idx_hook
    def m(name, fn): reg.models[name] = fn
    WSET = z3.Function('IR_weak_tool_names', STZ, sort_of(SetT(STR)))
    base_set = reg.models['set']
    def set_model(e, st, a, kw, n):
        if a and isinstance(a[0].t, ListT):
            z = e.deref(st, a[0])
            if z3.is_app(z) and z.decl().name() == 'IR_toolKeysWeak':
                return [(st, e.alloc(st, SetT(STR), WSET(z.arg(0))))]       # set(toolKeysWeak): named, so that the spec can refer to it
        return base_set(e, st, a, kw, n)
    reg.models['set'] = set_model
    m('StepIRRef._isFingerprinted', lambda e, st, a, kw, n: [(st, mk_bool(ISFP(a[0].z)))])
    m('StepIRRef.getSandbox', lambda e, st, a, kw, n: [(st, V(OSB, z3.If(HASSB(a[0].z), opt_some(OSB, SBOF(a[0].z)), opt_none(OSB))))])
    m('SandboxIRRef.getStep', lambda e, st, a, kw, n: [(st, V(ST, SB_STEP(a[0].z)))])
    m('StepIRRef.getDigestScript', lambda e, st, a, kw, n: [(st, V(OS, DSCRIPT(a[0].z)))])
    m('StepIRRef.getTools', lambda e, st, a, kw, n: [(st, V(TMAP, TOOLS(a[0].z)))])
    m('ToolIRRef.getStep', lambda e, st, a, kw, n: [(st, V(ST, T_STEP(a[0].z)))])
    m('ToolIRRef.getPath', lambda e, st, a, kw, n: [(st, V(STR, T_PATH(a[0].z)))])
    m('ToolIRRef.getLibs', lambda e, st, a, kw, n: [(st, V(LS, T_LIBS(a[0].z)))])
    def calc_list(e, st, a, kw, n):
        v = a[1]
        if not isinstance(v.t, ListT): return None
        Lz = e.deref(st, v); D = fresh_z(L_B, 'digests'); i = z3.Int(fresh_name('i'))
        st.assume(list_len(L_B, D) == list_len(L_ST, Lz))
        st.assume(z3.ForAll([i], z3.Implies(z3.And(0 <= i, i < list_len(L_B, D)), list_get(L_B, D, i) == CALCS(list_get(L_ST, Lz, i))), patterns=[list_get(L_B, D, i)]))
        return [(st, V(L_B, D))]
    m('CalculateIR.__call__', calc_list)
    reg.always_truthy = set(getattr(reg, 'always_truthy', ())) | {'SandboxIRRef', 'StepIRRef', 'ToolIRRef'}
    reg.pure_names |= {'StepIRRef._isFingerprinted', 'StepIRRef.getSandbox', 'SandboxIRRef.getStep', 'StepIRRef.getDigestScript', 'StepIRRef.getTools', 'ToolIRRef.getStep', 'ToolIRRef.getPath', 'ToolIRRef.getLibs', 'CalculateIR.__call__'}
    base_sorted = reg.models.get('sorted:hook')
    def sorted_hook(e, st, a, kw, n):
        src = getattr(a[0], 'src', None)
        if src is not None and src[0] == 'dict-items' and src[1] == TMAP:
            d = src[2]; L = SORTED_TOOLS(d); st.assume(list_len(L_TOOL, L) == DLEN_T(d)); st.assume(DLEN_T(d) >= 0); return [(st, V(L_TOOL, L))]
        return base_sorted(e, st, a, kw, n) if base_sorted else None
    reg.models['sorted:hook'] = sorted_hook
    base_comp = reg.comp_hook
    def comp_hook(e, st, node, kind):
        src = ast.unparse(node).replace(' ', '')
        if kind == 'list' and src == '[aforainself.getArguments()ifa.isValid()]':
            me = st.frames[-1]['self']; L = VALID_ARGS(me.z); st.assume(list_len(L_ST, L) >= 0)
            e.assume_note('comprehension of the valid arguments is IR_VALID_ARGS(self): an order preserving filter of getArguments() (not proved)')
            return [(st, V(L_ST, L))]
        if kind == 'list' and src == '[tool.getStep()forname,toolintools]':
            tv = st.frames[-1]['tools']; Lt = e.deref(st, tv); L = TOOL_STEPS(Lt); i = z3.Int(fresh_name('i'))
            st.assume(list_len(L_ST, L) == list_len(L_TOOL, Lt))
            st.assume(z3.ForAll([i], z3.Implies(z3.And(0 <= i, i < list_len(L_ST, L)), list_get(L_ST, L, i) == T_STEP(tup_get(T_TOOL, list_get(L_TOOL, Lt, i), 1))), patterns=[list_get(L_ST, L, i)]))
            e.assume_note('comprehension [tool.getStep() for name, tool in tools] evaluated as the pointwise map (comprehension semantics, not proved by the engine)')
            return [(st, V(L_ST, L))]
        return base_comp(e, st, node, kind) if base_comp else None
    reg.comp_hook = comp_hook
    # hasher parameter: the DigestHasher class
    reg.inline_patterns += ['bob.input.DigestHasher.*']

    TOOLS_ENC = z3.Function('ENC_irtools', sort_of(L_TOOL), sort_of(SetT(STR)), I, B); ENV_ENC = z3.Function('ENC_env', sort_of(L_ENV), I, B)
    LIBS_ENC = z3.Function('ENC_libs', sort_of(LS), I, B); ARGS_R = z3.Function('ENC_irargs_recipe', sort_of(L_ST), I, B); ARGS_H = z3.Function('ENC_irargs_host', sort_of(L_ST), I, B)
    WS = SetT(STR)
    def first20(c): return z3.SubSeq(c, 0, z3.If(z3.Length(c) < 20, z3.Length(c), 20))
    def rest20(c): return z3.SubSeq(c, 20, z3.If(z3.Length(c) > 20, z3.Length(c) - 20, 0))
    def toolhead(t): return z3.Concat(first20(CALCS(T_STEP(t))), PACK_I(z3.Length(T_PATH(t))), PACK_I(list_len(LS, T_LIBS(t))), UTF8(T_PATH(t)))
    def tool_item(L, Wk, k):
        it = list_get(L_TOOL, L, k); nm = tup_get(T_TOOL, it, 0); t = tup_get(T_TOOL, it, 1)
        return z3.If(z3.Select(Wk, nm), UTF8(nm), z3.Concat(toolhead(t), LIBS_ENC(T_LIBS(t), list_len(LS, T_LIBS(t)))))
    def unfold():
        out = []
        L = z3.Const('uL_irtools', sort_of(L_TOOL)); Wk = z3.Const('uW_irtools', sort_of(WS)); k = z3.Int('uk_irtools')
        out.append(z3.ForAll([L, Wk], TOOLS_ENC(L, Wk, 0) == z3.Empty(B), patterns=[TOOLS_ENC(L, Wk, 0)]))
        out.append(z3.ForAll([L, Wk, k], z3.Implies(k >= 0, TOOLS_ENC(L, Wk, k + 1) == z3.Concat(TOOLS_ENC(L, Wk, k), tool_item(L, Wk, k))), patterns=[TOOLS_ENC(L, Wk, k + 1)]))
        for fn, item in ((ARGS_R, lambda L_, k_: first20(CALCS(list_get(L_ST, L_, k_)))), (ARGS_H, lambda L_, k_: rest20(CALCS(list_get(L_ST, L_, k_))))):
            L2 = z3.Const('uL_' + fn.name(), sort_of(L_ST)); k2 = z3.Int('uk_' + fn.name())
            out.append(z3.ForAll([L2], fn(L2, 0) == z3.Empty(B), patterns=[fn(L2, 0)]))
            out.append(z3.ForAll([L2, k2], z3.Implies(k2 >= 0, fn(L2, k2 + 1) == z3.Concat(fn(L2, k2), item(L2, k2))), patterns=[fn(L2, k2 + 1)]))
        return out
    reg.axioms['always:ir-digest-spec-unfolding'] = unfold      # (ENC_env / ENC_libs unfoldings come from the C02 axioms)

    ZERO20 = z3.Function('py_bytes_repeat', B, I, B)(z3.Unit(z3.BitVecVal(0, 8)), z3.IntVal(20))
    zero4 = z3.Concat(*[z3.Unit(z3.BitVecVal(0, 8)) for _ in range(4)])
    def script_part(me):
        sc = DSCRIPT(me); s_ = opt_val(OS, sc)
        return z3.If(z3.And(z3.Not(opt_is_none(OS, sc)), z3.Length(s_) > 0), z3.Concat(PACK_I(z3.Length(s_)), UTF8(s_)), zero4)
    def TLs(me): return SORTED_TOOLS(TOOLS(me))
    def ELs(me): return SORTED_ENV(DENV(me))
    def nT(me): return list_len(L_TOOL, TLs(me))
    def nE(me): return list_len(L_ENV, ELs(me))
    def AV(me): return VALID_ARGS(me)
    def nA(me): return list_len(L_ST, AV(me))
    def weakset(o):
        """set of weak tool names that are relaxed on this path (empty unless relaxTools)"""
        return WSET(o.self.z) if z3.is_true(z3.simplify(o.relaxTools.z)) else z3.K(S, z3.BoolVal(False))
    def H0(o):
        me = o.self.z; fp = o.fingerprint
        if isinstance(fp.t, OptT): isn = opt_is_none(fp.t, fp.z); fv = opt_val(fp.t, fp.z)
        else: isn = z3.BoolVal(fp.t == NONE); fv = fp.z if fp.t == BYTES else z3.Empty(B)
        return z3.If(z3.Not(isn), fv, z3.If(z3.And(ISFP(me), HASSB(me)), CALCS(SB_STEP(SBOF(me))), z3.Empty(B)))
    def head(o): return z3.Concat(o.platform.z, ZERO20, script_part(o.self.z), PACK_I(nT(o.self.z)))
    def hR(v): return v.h.f('__recipes').z
    def hH(v): return v.h.f('__host').z
    def after_tools(o, Wk, k): return z3.Concat(head(o), TOOLS_ENC(TLs(o.self.z), Wk, k))
    def after_env(o, Wk, k): return z3.Concat(after_tools(o, Wk, nT(o.self.z)), PACK_I(nE(o.self.z)), C02_ENV_ENC(ELs(o.self.z), k))
    C02_ENV_ENC = ENV_ENC
    def zipped_ok(cur, old, L):
        """the zipped list pairs the sorted tools with the digests of their steps"""
        me = old.self.z; i = z3.Int(fresh_name('zi')); ZT = TupleT(T_TOOL, BYTES)
        return z3.And(list_len(ListT(ZT), L) == nT(me),
                      z3.ForAll([i], z3.Implies(z3.And(0 <= i, i < nT(me)),
                          z3.And(tup_get(ZT, list_get(ListT(ZT), L, i), 0) == list_get(L_TOOL, TLs(me), i),
                                 tup_get(ZT, list_get(ListT(ZT), L, i), 1) == CALCS(T_STEP(tup_get(T_TOOL, list_get(L_TOOL, TLs(me), i), 1))))), patterns=[list_get(ListT(ZT), L, i)]))
    def loop_tools(cur, old, k, L):
        Wk = weakset(old)
        return [('pairs-sorted-tools-with-their-digests', zipped_ok(cur, old, L)), ('recipe-stream', hR(cur) == after_tools(old, Wk, k)), ('host-stream', hH(cur) == H0(old)),
                ('args-digests', args_ok(cur, old))] + weak_frame(cur, old)
    def weak_frame(cur, old):
        w = cur.weakTools
        return [('weak-tool-set-unchanged', w.z == WSET(old.self.z))] if isinstance(w.t, SetT) and w.t.elem == STR else []
    def args_ok(cur, old):
        me = old.self.z; i = z3.Int(fresh_name('ai')); AD = cur.argsDigests.z
        return z3.And(list_len(L_B, AD) == nA(me), z3.ForAll([i], z3.Implies(z3.And(0 <= i, i < nA(me)), list_get(L_B, AD, i) == CALCS(list_get(L_ST, AV(me), i))), patterns=[list_get(L_B, AD, i)]))
    def loop_libs(cur, old, k, L):
        me = old.self.z; t = cur.tool.z; j = cur.var('__k1').z; Wk = weakset(old)
        it = list_get(L_TOOL, TLs(me), j)
        return [('iterates-the-libs-of-this-tool', z3.And(L == T_LIBS(t), t == tup_get(T_TOOL, it, 1), cur.name.z == tup_get(T_TOOL, it, 0), z3.Not(z3.Select(Wk, cur.name.z)), 0 <= j, j < nT(me))),
                ('host-stream', hH(cur) == H0(old)), ('recipe-stream', hR(cur) == z3.Concat(after_tools(old, Wk, j), toolhead(t), LIBS_ENC(T_LIBS(t), k))),
                ('args-digests', args_ok(cur, old))] + weak_frame(cur, old)
    def loop_env(cur, old, k, L):
        Wk = weakset(old)
        return [('iterates-the-sorted-env', L == ELs(old.self.z)), ('recipe-stream', hR(cur) == after_env(old, Wk, k)), ('host-stream', hH(cur) == H0(old)), ('args-digests', args_ok(cur, old))]
    def loop_args(cur, old, k, L):
        me = old.self.z; Wk = weakset(old); i = z3.Int(fresh_name('li'))
        return [('iterates-the-argument-digests', z3.And(list_len(L_B, L) == nA(me), z3.ForAll([i], z3.Implies(z3.And(0 <= i, i < nA(me)), list_get(L_B, L, i) == CALCS(list_get(L_ST, AV(me), i))), patterns=[list_get(L_B, L, i)]))),
                ('recipe-stream', hR(cur) == z3.Concat(after_env(old, Wk, nE(me)), PACK_I(nA(me)), ARGS_R(AV(me), k))),
                ('host-stream', hH(cur) == z3.Concat(H0(old), ARGS_H(AV(me), k)))]
    def dig(R, H): return z3.If(z3.Length(H) > 0, z3.Concat(SHA1(R), SHA1(H)), SHA1(R))
    def post(o, n, r):
        me = o.self.z; Wk = weakset(o)
        R = z3.Concat(after_env(o, Wk, nE(me)), PACK_I(nA(me)), ARGS_R(AV(me), nA(me)))
        H = z3.Concat(H0(o), ARGS_H(AV(me), nA(me)))
        return r.z == dig(R, H)
    def hasher_cls(eng, st): return V(CLS, 'bob.input.DigestHasher')
    units = []
    for relax in (False, True):
        for fpt, fpn in ((NONE, 'variant-id'), (BYTES, 'build-id')):
            u = Unit(FI, 'StepIR.getDigestCoro', {'self': ST, 'calculate': OpaqueT('CalculateIR'), 'hasher': hasher_cls, 'fingerprint': fpt, 'platform': BYTES, 'relaxTools': (lambda r: (lambda eng, st: mk_bool(r)))(relax)}, 'C03', result=BYTES,
                name='StepIR.getDigestCoro[%s,relaxTools=%s]' % (fpn, relax),
                ensures=[('digest-of-exactly-the-spec-serialisation(platform,script,tools-or-weak-tool-names,env,arguments;host=fingerprint-or-sandbox)', post)],
                loops={1: LoopSpec(inv=loop_tools), 2: LoopSpec(inv=loop_libs), 3: LoopSpec(inv=loop_env), 4: LoopSpec(inv=loop_args)},
                locals_types={'tool': TL}, note='Build-Id / IR Variant-Id digest against the spec serialisation')
            units.append(u)
    return units
