# C20 - Jenkins job graph is acyclic, complete and faithful  (pym/bob/cmds/jenkins/jenkins.py, intermediate.py)
# No function is under contract: JobNameCalculator.sanitize is one 120-line function made of nested closures over
# shared dictionaries of sets (graph closure + greedy merge), _genJenkinsJobs recurses over the live package graph and
# PartialIR serialises through a dozen classes -- a contract strong enough to carry "no merge closes a cycle" is a
# protocol-level inductive invariant outside what was reachable here.  The functions are WATCHED (source hash) and the
# property is covered by the bounded native search only (replay/C20.py): level 'exploration', nothing counted as proved.
from pyvc.api import *
F = 'pym/bob/cmds/jenkins/jenkins.py'
def build(reg):
    return [Watch(F, 'JobNameCalculator.sanitize', 'graph closure, reachability-checked greedy merge, prefix naming, numbering (unique internal names)'),
            Watch(F, 'JobNameCalculator.getJobInternalName', 'name mangling'), Watch(F, 'JobNameCalculator.getJobDisplayName', 'prefix + calculated name'),
            Watch(F, '_genJenkinsJobs', 'job population'), Watch(F, 'genJenkinsBuildOrder', 'DFS build order / cycle detection'),
            Watch(F, 'JenkinsJob.addStep', 'steps and upstream dependencies of a job'), Watch(F, 'JenkinsJob.getUpstreamJobs', 'upstream job names'),
            Watch('pym/bob/cmds/jenkins/intermediate.py', 'PartialIR.addStep', 'partial/full step serialisation'),
            Watch('pym/bob/cmds/jenkins/intermediate.py', 'getJenkinsVariantId', 'variant-id incl. sandbox'),
            Watch('pym/bob/intermediate.py', 'StepIR.fromStep', 'step serialisation')]
