# C20 - Jenkins job graph is acyclic, complete and faithful  (pym/bob/cmds/jenkins/jenkins.py, intermediate.py)
# Under contract: genJenkinsBuildOrder + nested visit (see dfs_units below).  NOT under contract: JobNameCalculator.sanitize is one 120-line function made of nested closures over
# shared dictionaries of sets (graph closure + greedy merge), _genJenkinsJobs recurses over the live package graph and
# PartialIR serialises through a dozen classes -- a contract strong enough to carry "no merge closes a cycle" is a
# protocol-level inductive invariant outside what was reachable here.  The functions are WATCHED (source hash) and the
# naming/merging/completeness clauses are covered by the bounded native search only (replay/C20.py).
import ast, z3
from pyvc.api import *
from pyvc.ty import *
from pyvc.core import Raise, Exc, Unsupported, Closure
from pyvc.view import SV, W
from pyvc import extract
F = 'pym/bob/cmds/jenkins/jenkins.py'
def build(reg):
    units = dfs_units(reg) + naming_units(reg)
    return units + [Watch(F, 'JobNameCalculator.sanitize', 'graph closure, reachability-checked greedy merge, prefix naming (the final naming block is under contract: naming_units)'),
            Watch(F, 'JobNameCalculator.getJobInternalName', 'name mangling'), Watch(F, 'JobNameCalculator.getJobDisplayName', 'prefix + calculated name'),
            Watch(F, '_genJenkinsJobs', 'job population'),
            Watch(F, 'JenkinsJob.addStep', 'steps and upstream dependencies of a job'), Watch(F, 'JenkinsJob.getUpstreamJobs', 'upstream job names'),
            Watch('pym/bob/cmds/jenkins/intermediate.py', 'PartialIR.addStep', 'partial/full step serialisation'),
            Watch('pym/bob/cmds/jenkins/intermediate.py', 'getJenkinsVariantId', 'variant-id incl. sandbox'),
            Watch('pym/bob/intermediate.py', 'StepIR.fromStep', 'step serialisation')]


# ---------------------------------------------------------------------------------------------------------------------
# genJenkinsBuildOrder: depth first search.  Proved: if it returns, the order contains every job exactly where all of its
# upstream jobs come earlier (topological) and every job name occurs in it.  (That it raises ParseError ONLY for cyclic
# graphs - the processing set being a path - and termination are not proved.)
S = z3.StringSort(); SS = SetT(STR); LS = ListT(STR)
JOBS = OpaqueT('JobsDict'); JOB = OpaqueT('JenkinsJobRef'); JZ = sort_of(JOB)
UP = z3.Function('JOB_upstream', S, sort_of(SS)); KEYS = z3.Const('JOB_KEYS', sort_of(SS)); JOB_OF = z3.Function('JOB_of', S, JZ); NAME_OF = z3.Function('JOB_name', JZ, S)

def dfs_units(reg):
    reg.trusted += ['jobs[name].getUpstreamJobs() is a function of the job name during genJenkinsBuildOrder (the jobs are not modified); every upstream name is a key of jobs (established by genJenkinsJobs: upstream names are computed with the same name calculator; watched)']
    def idx_hook(eng, st, c, i, node):
        if c.t == JOBS:
            outs, ok = eng.guard(st, z3.Select(KEYS, i.z), 'KeyError', node, 'unknown job name')
            if ok is not None:
                ok.assume(NAME_OF(JOB_OF(i.z)) == i.z); outs.append((ok, V(JOB, JOB_OF(i.z))))
            return outs
        return None
    reg.index_hook = idx_hook
    reg.models['JenkinsJobRef.getUpstreamJobs'] = lambda e, st, a, kw, n: [(st, e.alloc(st, SS, UP(NAME_OF(a[0].z))))]
    reg.models['JobsDict.keys'] = lambda e, st, a, kw, n: [(st, V(SS, KEYS))]
    reg.pure_names |= {'JenkinsJobRef.getUpstreamJobs', 'JobsDict.keys'}
    def inord(O, x):
        k = z3.Int(fresh_name('k')); return z3.Exists([k], z3.And(0 <= k, k < list_len(LS, O), list_get(LS, O, k) == x))
    def before(O, i, x):
        k = z3.Int(fresh_name('k')); return z3.Exists([k], z3.And(0 <= k, k < i, list_get(LS, O, k) == x))
    def INV(P, Q, O):
        x = z3.Const(fresh_name('x'), S); d = z3.Const(fresh_name('d'), S); i = z3.Int(fresh_name('i'))
        return [('processing-subset-of-pending', z3.ForAll([x], z3.Implies(z3.Select(Q, x), z3.Select(P, x)))),
                ('pending-are-jobs', z3.ForAll([x], z3.Implies(z3.Select(P, x), z3.Select(KEYS, x)))),
                ('finished-jobs-are-in-the-order', z3.ForAll([x], z3.Implies(z3.And(z3.Select(KEYS, x), z3.Not(z3.Select(P, x))), inord(O, x)))),
                ('order-is-topological', z3.ForAll([i, d], z3.Implies(z3.And(0 <= i, i < list_len(LS, O), z3.Select(UP(list_get(LS, O, i)), d)), before(O, i, d)))),
                ('ordered-jobs-are-not-pending', z3.ForAll([i], z3.Implies(z3.And(0 <= i, i < list_len(LS, O)), z3.And(z3.Not(z3.Select(P, list_get(LS, O, i))), z3.Select(KEYS, list_get(LS, O, i)))))),
                ('len', list_len(LS, O) >= 0)]
    def closed():
        x = z3.Const(fresh_name('x'), S); d = z3.Const(fresh_name('d'), S)
        return z3.ForAll([x, d], z3.Implies(z3.And(z3.Select(KEYS, x), z3.Select(UP(x), d)), z3.Select(KEYS, d)))
    def extends(O2, O1):
        i = z3.Int(fresh_name('i'))
        return z3.And(list_len(LS, O2) >= list_len(LS, O1), z3.ForAll([i], z3.Implies(z3.And(0 <= i, i < list_len(LS, O1)), list_get(LS, O2, i) == list_get(LS, O1, i))))
    def subset(A, Bs):
        x = z3.Const(fresh_name('x'), S); return z3.ForAll([x], z3.Implies(z3.Select(A, x), z3.Select(Bs, x)))
    def v_req(s):
        return INV(s.pending.z, s.processing.z, s.order.z) + [('upstream-closed', closed()), ('j-is-a-job', z3.Select(KEYS, s.j.z))]
    def v_post(o, n, r):
        P0, Q0, O0 = o.pending.z, o.processing.z, o.order.z; P1, Q1, O1 = n.pending.z, n.processing.z, n.order.z
        x = z3.Const(fresh_name('x'), S)
        return z3.And(*[c for _, c in INV(P1, Q1, O1)], Q1 == Q0, subset(P1, P0), z3.Not(z3.Select(P1, o.j.z)), extends(O1, O0),
                      z3.ForAll([x], z3.Implies(z3.Select(Q0, x), z3.Select(P1, x))))
    def v_loop(cur, old, k, L):
        P0, Q0, O0 = old.pending.z, old.processing.z, old.order.z; P1, Q1, O1 = cur.pending.z, cur.processing.z, cur.order.z
        j = old.j.z; i = z3.Int(fresh_name('i')); x = z3.Const(fresh_name('x'), S)
        return INV(P1, Q1, O1) + [('processing-is-old-plus-j', Q1 == z3.Store(Q0, j, True)), ('pending-shrinks', subset(P1, P0)), ('order-extends', extends(O1, O0)),
                ('visited-upstreams-are-finished', z3.ForAll([i], z3.Implies(z3.And(0 <= i, i < k), z3.Not(z3.Select(P1, list_get(LS, L, i)))))),
                ('iterates-the-upstream-jobs', z3.ForAll([x], z3.Select(UP(j), x) == z3.Exists([i], z3.And(0 <= i, i < list_len(LS, L), list_get(LS, L, i) == x)))),
                ('frame', z3.And(cur.j.z == j, cur.stack.z == old.stack.z))]
    VQ = 'genJenkinsBuildOrder.<locals>.visit'
    def inject(eng, st):
        fr = st.frames[-1]
        fr['jobs'] = V(JOBS, z3.Const('the_jobs', sort_of(JOBS)))
        mi = extract.load(F); fnode, ci = mi.find_func(VQ)
        fr['visit'] = V(FUNC, Closure(fnode, {}, None, mi, name='bob.cmds.jenkins.jenkins.' + VQ))
    P_ = {'j': STR, 'pending': SS, 'processing': SS, 'order': LS, 'stack': LS}
    u = Unit(F, VQ, P_, 'C20', requires=v_req, entry_hook=inject, ensures=[('dfs-step', v_post)], raises={'bob.errors.ParseError': True},
             loops={1: LoopSpec(inv=v_loop)}, modifies=['pending', 'processing', 'order'], note='depth first visit: finishes j and everything below it')
    reg.add(u)
    def outer_req(s): return [('upstream-closed', closed()), ('keys', z3.BoolVal(True))]
    def outer_loop(cur, old):
        return INV(cur.pending.z, cur.processing.z, cur.order.z) + [('nothing-in-progress-between-visits', cur.processing.z == z3.K(S, z3.BoolVal(False)))]
    def outer_post(o, n, r):
        x = z3.Const(fresh_name('x'), S); i = z3.Int(fresh_name('i')); d = z3.Const(fresh_name('d'), S); O = r.z
        return z3.And(z3.ForAll([x], z3.Implies(z3.Select(KEYS, x), inord(O, x))),
                      z3.ForAll([i, d], z3.Implies(z3.And(0 <= i, i < list_len(LS, O), z3.Select(UP(list_get(LS, O, i)), d)), before(O, i, d))))
    def outer_inject(eng, st):
        mi = extract.load(F); fnode, ci = mi.find_func(VQ)
    u2 = Unit(F, 'genJenkinsBuildOrder', {'jobs': JOBS}, 'C20', requires=outer_req, ensures=[('order-is-complete-and-topological', outer_post)],
              raises={'bob.errors.ParseError': True}, result=LS, loops={1: LoopSpec(inv=outer_loop)}, locals_types={'order': LS, 'processing': SS},
              note='if it returns: every job is in the order and after all of its upstream jobs')
    return [u, u2]


# ---------------------------------------------------------------------------------------------------------------------
# JobNameCalculator.sanitize, final naming block (from `def mangle` to the end of the function): BLOCK UNIT.
# Clause: "the generated Jenkins jobs have unique names" -- two packages get the same INTERNAL job name (display name
# mangled by the job-name regex and lower-cased) only if they belong to the same job.
# Ghost OWNER: mangled name -> job.  Obligations at every `self.__packageName[vid] = X`:
#     reserved:   mangle(X) is in `taken`
#     write-once: OWNER[mangle(X)] is unset or is already the job of vid;   then OWNER[mangle(X)] := job of vid
# With the loop invariant "a name that has an owner is in taken" (all six loops) this is the induction that shows
# OWNER is a function: same internal name => same job.  Assumed (entry condition, produced by the unverified first part of
# sanitize): every variant-id belongs to exactly one job (JOB_OF_VID).  Termination of the numbering loop is not proved.
def naming_units(reg):
    JNC = 'bob.cmds.jenkins.jenkins.JobNameCalculator'
    AJ = OpaqueT('AbstractJobRef'); AJZ = sort_of(AJ); VID = BYTES; VS = SetT(VID); RX = OpaqueT('Regex')
    PKGS = z3.Function('AJ_pkgs', AJZ, sort_of(VS)); JOBOF = z3.Function('JOB_OF_VID', sort_of(VID), AJZ)
    SUB = z3.Function('regex_sub_underscore', S, S); LOWER = z3.Function('str_lower', S, S); FMT = z3.Function('fmt_name_dash_number', S, z3.IntSort(), S)
    M = lambda z: LOWER(SUB(z))
    OWN = DictT(STR, AJ); LJ = ListT(AJ); FN = DictT(STR, LJ)
    reg.classes[JNC] = ClassSpec(JNC, {'_JobNameCalculator__packageName': DictT(VID, STR), '_JobNameCalculator__regexJobName': RX, '_JobNameCalculator__prefix': STR})
    reg.attr_models['AbstractJobRef.pkgs'] = lambda e, st, b, n: [(st, e.alloc(st, VS, PKGS(b.z)))]
    reg.models['Regex.sub'] = lambda e, st, a, kw, n: [(st, V(STR, SUB(a[2].z)))] if (z3.is_string_value(a[1].z) and a[1].z.as_string() == '_') else None
    def fmt(e, st, a, kw, n):
        if z3.is_string_value(a[0].z) and a[0].z.as_string() == '{}-{}' and len(a) == 3 and a[1].t == STR and a[2].t == INT: return [(st, V(STR, FMT(a[1].z, a[2].z)))]
        return None
    reg.models['str.format'] = fmt
    reg.pure_names |= {'Regex.sub', 'str.format'}
    reg.trusted += ['the job-name regex substitution and str.lower are uninterpreted functions of the name; "{}-{}".format(name, i) is an uninterpreted function of (name, i)',
                    'entry condition of the naming block of sanitize (ASSUMED, established by the unverified merging part): the package sets of different jobs are disjoint (every variant-id belongs to one job)']
    def axioms():
        J = z3.Const('axJ', AJZ); v = z3.Const('axv', sort_of(VID))
        return [z3.ForAll([J, v], z3.Implies(z3.Select(PKGS(J), v), JOBOF(v) == J), patterns=[z3.Select(PKGS(J), v)])]
    reg.axioms['always:vid-belongs-to-one-job'] = axioms
    def ghost_init(eng, st):
        st.ghost['OWNER'] = V(OWN, z3.K(S, opt_none(opt(AJ))))
    OPT = opt(AJ)
    def owner(st, m): return z3.Select(st.ghost['OWNER'].z, m)
    def pre_setitem(eng, st, c, k, v, node):
        if not (isinstance(c.t, DictT) and c.t.k == VID and c.t.v == STR): return
        fr = st.frames[-1]; taken = fr.get('taken')
        if taken is None: raise Unsupported('package name assigned outside the naming block at %s' % eng.loc(node))
        m = M(v.z); T = eng.deref(st, taken); job = JOBOF(k.z)
        eng.oblige(st, 'name@%s:internal-name-was-reserved-in-taken' % node.lineno, z3.Select(T, m), 'typestate', node)
        eng.oblige(st, 'name@%s:internal-name-is-unowned-or-owned-by-the-job-of-this-package' % node.lineno,
                   z3.Or(opt_is_none(OPT, owner(st, m)), owner(st, m) == opt_some(OPT, job)), 'typestate', node)
        st.ghost['OWNER'] = V(OWN, z3.Store(st.ghost['OWNER'].z, m, opt_some(OPT, job)))
    def inv_owned(cur):
        m = z3.Const('im', S); T = cur.taken.z
        return ('owned-names-are-reserved', z3.ForAll([m], z3.Implies(z3.Not(opt_is_none(OPT, z3.Select(cur.ghost.OWNER.z, m))), z3.Select(T, m))))
    def cur_owner(cur, name_z, job_z):
        o = z3.Select(cur.ghost.OWNER.z, M(name_z))
        return ('this-name-is-unowned-or-owned-by-this-job', z3.Or(opt_is_none(OPT, o), o == opt_some(OPT, job_z)))
    def lA(cur, old, k, L): return [inv_owned(cur)]
    def lA1(cur, old, k, L):
        jobs = cur.jobs
        return [inv_owned(cur), cur_owner(cur, cur.name.z, list_get(LJ, jobs.z, 0)), ('reserved', z3.Select(cur.taken.z, M(cur.name.z))),
                ('iterates-the-packages-of-the-job', z3.ForAll([z3.Int('ia')], z3.Implies(z3.And(0 <= z3.Int('ia'), z3.Int('ia') < list_len(ListT(VID), L)), z3.Select(PKGS(list_get(LJ, jobs.z, 0)), list_get(ListT(VID), L, z3.Int('ia')))), patterns=[list_get(ListT(VID), L, z3.Int('ia'))]))]
    def lB(cur, old, k, L): return [inv_owned(cur)]
    def lB1(cur, old, k, L): return [inv_owned(cur)]
    def lB2(cur, old): return [inv_owned(cur)]
    def lB3(cur, old, k, L):
        nm = FMT(cur.name.z, cur.i.z)
        return [inv_owned(cur), cur_owner(cur, nm, cur.j.z), ('reserved', z3.Select(cur.taken.z, M(nm))),
                ('iterates-the-packages-of-the-job', z3.ForAll([z3.Int('ib')], z3.Implies(z3.And(0 <= z3.Int('ib'), z3.Int('ib') < list_len(ListT(VID), L)), z3.Select(PKGS(cur.j.z), list_get(ListT(VID), L, z3.Int('ib')))), patterns=[list_get(ListT(VID), L, z3.Int('ib'))]))]
    u = Unit(F, 'JobNameCalculator.sanitize', {'self': ObjT(JNC)}, 'C20', name='JobNameCalculator.sanitize[final-naming-block]', ghost_init=ghost_init,
             locals_types={'taken': SetT(STR), 'ambiguous': ListT(TupleT(STR, LJ))},
             ensures=[('every-owned-internal-name-is-reserved', lambda o, n, r: inv_owned(n)[1])], modifies=['self.__packageName'],
             note='BLOCK UNIT (def mangle .. end): internal job names are owned by one job (write-once ghost OWNER); entry condition assumed')
    u.block = ('def mangle', None); u.block_locals = {'finalNames': FN}
    def hook(eng, st, c, k, v, node):
        if getattr(reg, 'current_unit', None) is u: pre_setitem(eng, st, c, k, v, node)
    reg.pre_setitem_hook = hook
    # loop ordinals are numbered over the whole function: the block's loops are its last six
    mi = extract.load(F); fnode, _ = mi.find_func('JobNameCalculator.sanitize'); n = 0
    if fnode is not None:
        def walk(node):
            nonlocal n
            for ch in ast.iter_child_nodes(node):
                if isinstance(ch, (ast.FunctionDef, ast.AsyncFunctionDef, ast.Lambda, ast.ClassDef)): continue
                if isinstance(ch, (ast.For, ast.While, ast.AsyncFor)): n += 1
                walk(ch)
        walk(fnode)
    for i, f in enumerate([lA, lA1, lB, lB1, lB2, lB3]): u.loops[n - 5 + i] = LoopSpec(inv=f)
    return [u]
