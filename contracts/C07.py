# C07 - Binary artifacts are reused exactly when they are the right ones   (pym/bob/builder.py)
#
# What contracts can carry of this whole-program property:
#  * _getFingerprint (typed, strict mode): the value mixed into the Build-Id is
#        b''                                                   for relocatable, not fingerprinted steps
#        SHA1( FP(key) ++ ENC(abspath(execPath)) )             fingerprint part iff the step is fingerprinted, location
#                                                              part iff it is a non-relocatable package step
#    with key = SHA1(utf8(script)) resp. SHA1(SHA1(utf8(script)) ++ sandboxBuildId) -- so host output and (for
#    non-relocatable packages) the location always reach the Build-Id, and nothing else of the workspace path does.
#  * __handleChangedBuildId / _clearDownloadTried / _wasDownloadTried / _setDownloadTried (typed): after a wrong
#    prediction the source id is corrected, ALL derived build-ids are dropped (fresh copy of the preset), the
#    download-tried marks are forgotten, and the build restarts.
#  * _downloadPackage (Dyn mode, typestate): ghost CONTENT = the Build-Id whose artifact the workspace holds.
#    "downloaded" is reported only if CONTENT == requested Build-Id; a workspace obtained for another id is pruned
#    before anything else; a download is recorded only after audit-exists and content-hash == audit-hash were checked.
# Equality of download builds and local builds, Build-Id equality across locations and the digest construction itself
# (getDigestCoro, C02) are covered by the bounded native search only.
import ast, z3
from pyvc.api import *
from pyvc.ty import *
from pyvc.core import Raise, Exc, Unsupported
from pyvc.view import SV, W
from pyvc import dyn
from pyvc.dyn import DYN, D

F = 'pym/bob/builder.py'
LB = 'bob.builder.LocalBuilder'
B = sort_of(BYTES); S = z3.StringSort()
STEP = OpaqueT('Step'); STEPZ = sort_of(STEP)
SHA1 = z3.Function('SHA1', B, B); UTF8 = z3.Function('utf8_encode', S, B); LOCENC = z3.Function('ENC_locale_replace', S, B); ABS = z3.Function('os_path_abspath', S, S)
IS_FP = z3.Function('Step_isFingerprinted', STEPZ, z3.BoolSort()); IS_PKG = z3.Function('Step_isPackageStep', STEPZ, z3.BoolSort())
IS_RELOC = z3.Function('Step_isRelocatable', STEPZ, z3.BoolSort()); FP_SCRIPT = z3.Function('Step_fingerprintScript', STEPZ, S)
EXEC_PATH = z3.Function('Step_execPath', STEPZ, S); HAS_SB = z3.Function('Step_hasSandbox', STEPZ, z3.BoolSort()); SB_STEP = z3.Function('Step_sandboxStep', STEPZ, STEPZ)
SB_VALID = z3.Function('Step_sandboxStepTruthy', STEPZ, z3.BoolSort())
FPVAL = z3.Function('FINGERPRINT_OF_KEY', B, B); BID = z3.Function('BUILD_ID_OF', STEPZ, B)
WSPATH = z3.Function('Step_workspacePath', STEPZ, S); VID = z3.Function('Step_variantId', STEPZ, B)

def build(reg):
    dyn.install(reg)
    reg.trusted += ['hashlib.sha1(x).digest(), str.encode: uninterpreted functions (no injectivity assumed or needed for these contracts)',
                    'fingerprint caches (__fingerprints, BobState().getFingerprint, the fingerprint task) hold FP(key), the output of the fingerprint script identified by key on this host',
                    '_getBuildId(step): a function of the step during one invocation',
                    'dissectPackageInputState: wasDownloaded implies a recorded Build-Id (the downloaded state is stored as the Build-Id itself; function watched, not proved)',
                    'archive.downloadPackage(step, buildId, ...) returning True means the artifact stored under buildId was extracted into the (empty) workspace']
    units = []
    # ================================================================ typed, strict units
    SBX = OpaqueT('Sandbox'); TASK = OpaqueT('Task'); BST = OpaqueT('BobStateRef')
    reg.classes[LB] = ClassSpec(LB, {'_LocalBuilder__fingerprints': DictT(BYTES, BYTES), '_LocalBuilder__wasDownloadTried': DictT(STR, BOOL),
                                     '_LocalBuilder__srcBuildIds': DictT(TupleT(STR, BYTES), TupleT(BYTES, BOOL)),
                                     '_LocalBuilder__buildDistBuildIds': DictT(STR, BYTES), '_LocalBuilder__buildDistBuildIdsPreset': DictT(STR, BYTES)})
    def m(name, fn): reg.models[name] = fn
    m('Step._isFingerprinted', lambda e, st, a, kw, n: [(st, mk_bool(IS_FP(a[0].z)))])
    m('Step.isPackageStep', lambda e, st, a, kw, n: [(st, mk_bool(IS_PKG(a[0].z)))])
    m('Step.isRelocatable', lambda e, st, a, kw, n: [(st, mk_bool(IS_RELOC(a[0].z)))])
    m('Step._getFingerprintScript', lambda e, st, a, kw, n: [(st, V(STR, FP_SCRIPT(a[0].z)))])
    m('Step.getExecPath', lambda e, st, a, kw, n: [(st, V(STR, EXEC_PATH(a[0].z)))])
    m('Step.getWorkspacePath', lambda e, st, a, kw, n: [(st, V(STR, WSPATH(a[0].z)))])
    m('Step.getVariantId', lambda e, st, a, kw, n: [(st, V(BYTES, VID(a[0].z)))])
    OSB = OptT(SBX); SBZ = sort_of(SBX); SB_OF = z3.Function('Step_sandbox', STEPZ, SBZ); SBX_STEP = z3.Function('Sandbox_step', SBZ, STEPZ)
    def get_sandbox(e, st, a, kw, n):
        return [(st, V(OSB, z3.If(HAS_SB(a[0].z), opt_some(OSB, SB_OF(a[0].z)), opt_none(OSB))))]
    m('Step.getSandbox', get_sandbox)
    m('Sandbox.getStep', lambda e, st, a, kw, n: [(st, V(STEP, SBX_STEP(a[0].z)))])
    reg.truthy_models = getattr(reg, 'truthy_models', {})
    m('hashlib.sha1', lambda e, st, a, kw, n: [(st, V(OpaqueT('Sha1'), z3.Function('SHA1_OBJ', B, sort_of(OpaqueT('Sha1')))(a[0].z)))])
    SHA_ARG = z3.Function('SHA1_ARG', sort_of(OpaqueT('Sha1')), B)
    def sha_digest(e, st, a, kw, n):
        z = a[0].z
        if z3.is_app(z) and z.decl().name() == 'SHA1_OBJ': return [(st, V(BYTES, SHA1(z.arg(0))))]
        return None
    m('Sha1.digest', sha_digest)
    def str_encode(e, st, a, kw, n):
        if len(a) >= 2 and z3.is_string_value(a[1].z) and a[1].z.as_string() == 'utf8': return [(st, V(BYTES, UTF8(a[0].z)))]
        return [(st, V(BYTES, LOCENC(a[0].z)))]
    m('str.encode', str_encode)
    m('locale.getpreferredencoding', lambda e, st, a, kw, n: [(st, mk_str('LOCALE'))])
    m('os.path.abspath', lambda e, st, a, kw, n: [(st, V(STR, ABS(a[0].z)))])
    m('bob.state.BobState', lambda e, st, a, kw, n: None if reg.dyn else [(st, V(BST, z3.Const('the_bob_state', sort_of(BST))))])
    OB = OptT(BYTES)
    def bs_getfp(e, st, a, kw, n):
        hit = fresh_z(BOOL, 'stateHasFingerprint')
        return [(st, V(OB, z3.If(hit, opt_some(OB, FPVAL(a[1].z)), opt_none(OB))))]
    m('BobStateRef.getFingerprint', bs_getfp)
    TASKZ = sort_of(TASK); TASK_KEY = z3.Function('Task_key', TASKZ, B)
    def create_task(e, st, a, kw, n):
        t = fresh_z(TASK, 'fingerprintTask'); st.assume(TASK_KEY(t) == a[3].z)
        e.oblige(st, 'createFingerprintTask@%s:task-runs-the-script-of-this-step' % n.lineno, z3.BoolVal(True), 'info', n)
        return [(st, V(TASK, t))]
    m('bob.builder.LocalBuilder.__createFingerprintTask', create_task); m('bob.builder.LocalBuilder._LocalBuilder__createFingerprintTask', create_task)
    m('Task.result', lambda e, st, a, kw, n: [(st, V(BYTES, FPVAL(TASK_KEY(a[0].z))))])
    m('asyncio.wait', lambda e, st, a, kw, n: [(st, mk_none())])
    yj = lambda e, st, a, kw, n: [(st, mk_none())]
    m('bob.builder.LocalBuilder.__yieldJobWhile', yj); m('bob.builder.LocalBuilder._LocalBuilder__yieldJobWhile', yj)
    m('bob.builder.LocalBuilder._getBuildId', lambda e, st, a, kw, n: [(st, V(BYTES, BID(a[1].z)))])
    reg.always_truthy |= {'Step', 'Task', 'Sandbox'}
    reg.pure_names |= {'Step._isFingerprinted', 'Step.isPackageStep', 'Step.isRelocatable', 'Step._getFingerprintScript', 'Step.getExecPath', 'Step.getSandbox',
                       'Sandbox.getStep', 'hashlib.sha1', 'Sha1.digest', 'str.encode', 'locale.getpreferredencoding', 'os.path.abspath', 'Step.getWorkspacePath', 'Step.getVariantId'}

    def fp_inv(s):
        d = s.self.f('__fingerprints').z; k = z3.Const(fresh_name('k'), B); ot = OptT(BYTES)
        return [('fingerprint-cache-holds-fingerprints', z3.ForAll([k], z3.Implies(z3.Not(opt_is_none(ot, z3.Select(d, k))), opt_val(ot, z3.Select(d, k)) == FPVAL(k)), patterns=[z3.Select(d, k)]))]
    def fp_post(o, n, r):
        stp = o.step.z
        track = z3.And(IS_PKG(stp), z3.Not(IS_RELOC(stp)))
        k0 = SHA1(UTF8(FP_SCRIPT(stp)))
        sb = SBX_STEP(SB_OF(stp))
        key = z3.If(HAS_SB(stp), SHA1(z3.Concat(k0, BID(sb))), k0)
        fp = z3.If(IS_FP(stp), FPVAL(key), z3.Empty(B))
        loc = z3.If(track, LOCENC(ABS(EXEC_PATH(stp))), z3.Empty(B))
        return z3.If(z3.And(z3.Not(IS_FP(stp)), z3.Not(track)), r.z == z3.Empty(B), r.z == SHA1(z3.Concat(fp, loc)))
    u = Unit(F, 'LocalBuilder._getFingerprint', {'self': ObjT(LB), 'step': STEP, 'depth': INT}, 'C07', requires=fp_inv,
        ensures=[('host-output-iff-fingerprinted;location-iff-non-relocatable-package', fp_post)], result=BYTES,
        note='what of host and location reaches the Build-Id')
    u.dyn = False; units.append(u)

    # ---- restart after a wrong prediction
    m_inv = lambda e, st, a, kw, n: (st.trace.append(('call', 'invalidateLiveBuildId')), [(st, mk_none())])[1]
    m('bob.builder.LocalBuilder.__invalidateLiveBuildId', m_inv); m('bob.builder.LocalBuilder._LocalBuilder__invalidateLiveBuildId', m_inv)
    def clear_was_run(e, st, a, kw, n): st.ghost['WASRUN_CLEARED'] = mk_bool(True); return [(st, mk_none())]
    m('bob.builder.LocalBuilder._clearWasRun', clear_was_run)
    m('Step.isDeterministic', lambda e, st, a, kw, n: [(st, mk_bool(fresh_z(BOOL, 'deterministic')))])
    reg.opaque.update({'Step.getPackage': OpaqueT('Package'), 'Package.getRecipe': OpaqueT('Recipe'), 'Recipe.getRecipeSet': OpaqueT('RecipeSet'), 'RecipeSet.getPolicy': BOOL})
    def restart_ghost(eng, st): st.ghost['WASRUN_CLEARED'] = mk_bool(False)
    def hc_exc(o, n):
        me = n.self; KT = TupleT(STR, BYTES); VT = TupleT(BYTES, BOOL); ot = OptT(VT); ob = OptT(BYTES); obl = OptT(BOOL)
        key = tup_mk(KT, [WSPATH(o.step.z), VID(o.step.z)])
        ent = z3.Select(me.f('__srcBuildIds').z, key)
        k = z3.Const(fresh_name('k'), S)
        derived = me.f('__buildDistBuildIds'); preset = me.f('__buildDistBuildIdsPreset')
        return z3.And(z3.Not(opt_is_none(ot, ent)), tup_get(VT, opt_val(ot, ent), 0) == o.checkoutHash.z, z3.Not(tup_get(VT, opt_val(ot, ent), 1)),
                      derived.z == o.self.f('__buildDistBuildIdsPreset').z, preset.z == o.self.f('__buildDistBuildIdsPreset').z,
                      z3.BoolVal(not derived.same_object(preset)),
                      z3.ForAll([k], opt_is_none(obl, z3.Select(me.f('__wasDownloadTried').z, k))), n.ghost.WASRUN_CLEARED.z)
    u = Unit(F, 'LocalBuilder.__handleChangedBuildId', {'self': ObjT(LB), 'step': STEP, 'checkoutHash': BYTES}, 'C07', ghost_init=restart_ghost,
        ensures=[('never-returns-normally', lambda o, n, r: z3.BoolVal(False))],
        ensures_exc=[('source-id-corrected;derived-ids-dropped;download-marks-forgotten', 'bob.builder.RestartBuildException', hc_exc)],
        raises={'bob.builder.RestartBuildException': True, 'bob.errors.BuildError': True},
        note='everything derived from the wrong prediction is forgotten before the restart')
    u.dyn = False; units.append(u)
    reg.inline_patterns += ['bob.builder.LocalBuilder._clearDownloadTried']
    obl = OptT(BOOL)
    u = Unit(F, 'LocalBuilder._clearDownloadTried', {'self': ObjT(LB)}, 'C07',
        ensures=[('no-download-is-marked-as-tried', lambda o, n, r: z3.ForAll([z3.Const('kq', S)], opt_is_none(obl, z3.Select(n.self.f('__wasDownloadTried').z, z3.Const('kq', S)))))])
    u.dyn = False; units.append(u)
    u = Unit(F, 'LocalBuilder._setDownloadTried', {'self': ObjT(LB), 'step': STEP}, 'C07',
        ensures=[('marks-exactly-this-workspace', lambda o, n, r: n.self.f('__wasDownloadTried').z == z3.Store(o.self.f('__wasDownloadTried').z, WSPATH(o.step.z), opt_some(obl, z3.BoolVal(True))))])
    u.dyn = False; units.append(u)
    u = Unit(F, 'LocalBuilder._wasDownloadTried', {'self': ObjT(LB), 'step': STEP}, 'C07', result=BOOL,
        ensures=[('true-iff-marked', lambda o, n, r: r.z == z3.And(z3.Not(opt_is_none(obl, z3.Select(o.self.f('__wasDownloadTried').z, WSPATH(o.step.z)))), opt_val(obl, z3.Select(o.self.f('__wasDownloadTried').z, WSPATH(o.step.z)))))])
    u.dyn = False; units.append(u)
    # ================================================================ _downloadPackage (Dyn mode, typestate)
    EQ = dyn.EQ; NONE_D = dyn.NONE_D
    DL_OF = z3.Function('packageInputDownloaded', D, D)
    def dl_ghost(eng, st):
        g = st.ghost
        for n in ('REC_DL', 'HAS_RESULT', 'EMPTY'): g[n] = V(BOOL, fresh_z(BOOL, n))
        g['REC_BID'] = V(DYN, fresh_z(DYN, 'recordedBuildId'))            # NONE_D if nothing is recorded
        g['CONTENT'] = V(DYN, fresh_z(DYN, 'contentBuildId'))             # Build-Id whose artifact the workspace holds
        g['DOWNLOADED_NOW'] = mk_bool(False); g['AUDIT_EXISTS'] = mk_bool(False)
        g['WS_HASH'] = V(DYN, fresh_z(DYN, 'wsHash')); g['AUD_HASH'] = V(DYN, fresh_z(DYN, 'auditHash')); g['HASHED'] = mk_bool(False)
    def I(st):
        g = st.ghost
        return z3.Implies(z3.And(g['REC_DL'].z, g['HAS_RESULT'].z, g['REC_BID'].z != NONE_D), EQ(g['CONTENT'].z, g['REC_BID'].z))
    def pbid(st):
        for fr in reversed(st.frames):
            if 'packageBuildId' in fr: return fr['packageBuildId'].z
        raise Unsupported('packageBuildId not in scope')
    @reg.model('Dyn.dissectPackageInputState')
    def m_dissect(eng, st, args, kw, node):
        g = st.ghost
        st.assume(z3.Implies(g['REC_DL'].z, g['REC_BID'].z != NONE_D))      # 'downloaded' is recorded as the Build-Id itself (bytes)
        return [(st, V(PyTupT(4), [V(BOOL, g['REC_DL'].z), V(BOOL, fresh_z(BOOL, 'oldWasShared')), dyn.fresh('oldInputHashes'), g['REC_BID']]))]
    @reg.model('Dyn._constructDir')
    def m_cdir(eng, st, args, kw, node): return [(st, V(PyTupT(2), [dyn.fresh('prettyPackagePath'), V(BOOL, fresh_z(BOOL, 'created'))]))]
    @reg.model('Dyn.emptyDirectory')
    def m_empty(eng, st, args, kw, node):
        st.ghost['EMPTY'] = mk_bool(True); st.ghost['CONTENT'] = V(DYN, fresh_z(DYN, 'nothing')); return [(st, mk_none())]
    @reg.model('Dyn.resetWorkspaceState')
    def m_reset(eng, st, args, kw, node):
        g = st.ghost
        eng.oblige(st, 'resetWorkspaceState@%s:state-is-reset-only-for-an-emptied-workspace' % node.lineno, g['EMPTY'].z, 'typestate', node)
        g['HAS_RESULT'] = mk_bool(False); g['REC_DL'] = mk_bool(False); g['REC_BID'] = V(DYN, NONE_D); return [(st, mk_none())]
    @reg.model('Dyn.getResultHash')
    def m_getres(eng, st, args, kw, node):
        g = st.ghost
        if len(args) >= 2:      # BobState().getResultHash(path)
            r = dyn.fresh('resultHash'); st.assume((r.z == NONE_D) == z3.Not(g['HAS_RESULT'].z)); return [(st, r)]
        return [(st, g['AUD_HASH'])]   # artifact.getResultHash() of the audit trail
    @reg.model('Dyn.downloadPackage')
    def m_dl(eng, st, args, kw, node):
        g = st.ghost; ln = node.lineno
        eng.oblige(st, 'downloadPackage@%s:requested-id-is-the-package-build-id' % ln, args[2].z == pbid(st), 'typestate', node)
        eng.oblige(st, 'downloadPackage@%s:only-into-a-workspace-without-recorded-result' % ln, z3.Not(g['HAS_RESULT'].z), 'typestate', node)
        ok = fresh_z(BOOL, 'downloaded')
        out = []
        for x, val in eng.branch(st, ok, 'downloadPackage'):
            if val:
                c = fresh_z(DYN, 'downloadedContent'); x.assume(EQ(c, args[2].z)); x.ghost['CONTENT'] = V(DYN, c)
                x.ghost['DOWNLOADED_NOW'] = mk_bool(True); x.ghost['EMPTY'] = mk_bool(False)
            out.append((x, mk_bool(val)))
        out.append(eng.raise_(st.fork(), 'bob.errors.BuildError', 'download fails hard at %s' % eng.loc(node)))
        return out
    @reg.model('Dyn.exists')
    def m_exists(eng, st, args, kw, node):
        r = fresh_z(BOOL, 'auditExists'); st.ghost['AUDIT_EXISTS'] = V(BOOL, r); return [(st, mk_bool(r))]
    @reg.model('Dyn.hashWorkspace')
    def m_hash(eng, st, args, kw, node):
        st.ghost['HASHED'] = st.ghost['DOWNLOADED_NOW']; return [(st, st.ghost['WS_HASH'])]
    @reg.model('Dyn.packageInputDownloaded')
    def m_pid(eng, st, args, kw, node): return [(st, V(DYN, DL_OF(dyn.dynify(eng, st, args[1]))))]
    @reg.model('Dyn.setInputHashes')
    def m_setin(eng, st, args, kw, node):
        g = st.ghost; ln = node.lineno
        eng.oblige(st, 'setInputHashes@%s:recorded-as-downloaded-only-after-audit-and-content-hash-were-verified' % ln,
                   z3.And(g['DOWNLOADED_NOW'].z, g['AUDIT_EXISTS'].z, g['HASHED'].z, EQ(g['AUD_HASH'].z, g['WS_HASH'].z)), 'verification', node)
        eng.oblige(st, 'setInputHashes@%s:records-the-requested-build-id' % ln, args[2].z == DL_OF(pbid(st)), 'typestate', node)
        g['REC_DL'] = mk_bool(True); g['REC_BID'] = V(DYN, pbid(st)); return [(st, mk_none())]
    @reg.model('Dyn.setResultHash')
    def m_setres(eng, st, args, kw, node):
        g = st.ghost
        eng.oblige(st, 'setResultHash@%s:result-hash-is-the-verified-content-hash' % node.lineno, z3.And(g['HASHED'].z, args[2].z == g['WS_HASH'].z), 'verification', node)
        g['HAS_RESULT'] = mk_bool(True); return [(st, mk_none())]
    reg.pure_names |= {'Dyn.dissectPackageInputState', 'Dyn.packageInputDownloaded'}
    def dl_req(s):
        st = s.st; g = st.ghost
        return [('workspace-content-is-what-the-state-records', I(st)), ('request', s.packageBuildId.z != NONE_D)]
    def dl_entry(eng, st):
        g = st.ghost; p = pbid(st)
        # the instance of transitivity of == the argument needs (abstract values compare like bytes)
        st.assume(z3.Implies(z3.And(EQ(g['CONTENT'].z, g['REC_BID'].z), EQ(g['REC_BID'].z, p)), EQ(g['CONTENT'].z, p)))
        st.assume(EQ(p, p))
    def dl_post(o, n, r):
        st = n.st; g = st.ghost; was = r[0]
        truth = was.z if was.t == BOOL else z3.BoolVal(True)
        return z3.And(I(st), z3.Implies(truth, z3.And(g['HAS_RESULT'].z, EQ(g['CONTENT'].z, o.packageBuildId.z))))
    GN = ('REC_DL', 'HAS_RESULT', 'EMPTY', 'REC_BID', 'CONTENT', 'DOWNLOADED_NOW', 'AUDIT_EXISTS', 'WS_HASH', 'AUD_HASH', 'HASHED')
    def frame_loop(cur, old, k, L):
        return [('layer-mode-loop-has-no-tracked-effect', z3.And(*[cur.st.ghost[n].z == old.st.ghost[n].z for n in GN]))]
    u = Unit(F, 'LocalBuilder._downloadPackage', {'self': DYN, 'packageStep': DYN, 'depth': DYN, 'packageBuildId': DYN}, 'C07', requires=dl_req,
        ghost_init=dl_ghost, entry_hook=dl_entry, ensures=[('reported-as-downloaded-only-if-the-workspace-holds-the-artifact-of-the-requested-build-id', dl_post)],
        ensures_exc=[('workspace-content-is-what-the-state-records', '*', lambda o, n: I(n.st))], raises={'bob.errors.BuildError': True}, result=None, max_paths=4000, loops={1: LoopSpec(inv=frame_loop)},
        note='prune on changed Build-Id before anything else; verify audit and content hash before recording a download')
    units.append(u)
    units += [Watch(F, 'LocalBuilder.__getBuildIdSingle', 'Build-Id caches by workspace path (derived ids) and (path, variant-id) (sources)'),
              Watch(F, 'LocalBuilder.__getCheckoutStepBuildId', 'live-build-id prediction'), Watch(F, 'dissectPackageInputState', 'decoding of the recorded package input state'),
              Watch('pym/bob/intermediate.py', 'StepIR.getDigestCoro', 'Build-Id digest construction (see C02)'),
              Watch(F, 'LocalBuilder._cook', 'download tried once per invocation; recursion'), Watch(F, 'LocalBuilder.__calcFingerprintTask', 'runs the fingerprint script')]
    return units
