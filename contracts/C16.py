# C16 - Workspace directories separate variants; clean removes only garbage
#
# DevelopDirOracle.__writeBack (pym/bob/cmds/build/state.py): the develop-mode directory table key -> dir that is
# written to the database is INJECTIVE (two different (recipe, variant-id) keys never share a directory) and STABLE
# (a kept entry keeps its path).  Proved with loop invariants over three nested loops (unbounded in the number of
# base directories, keys and skipped numbers); ghost witness arrays record where every assigned path came from.
import ast, z3
from pyvc.api import *
from pyvc.ty import *
from pyvc.core import Raise, Exc, Unsupported
from pyvc.view import SV, W

F = 'pym/bob/cmds/build/state.py'
DO = 'bob.cmds.build.state.DevelopDirOracle'
B = sort_of(BYTES); S = z3.StringSort(); I = z3.IntSort()
JOINP = z3.Function('PATH_JOIN_S', S, S, S)
STRI = z3.Function('py_str_int', I, S)
CUR = OpaqueT('Cursor')
KT = DictT(BYTES, STR); DT = DictT(STR, ListT(BYTES))
ITEM_T = TupleT(STR, ListT(BYTES)); ITEMS_T = ListT(ITEM_T)

def axioms():
    a, b, c, d = z3.Strings('ja jb jc jd'); n, m = z3.Ints('sn sm')
    return [z3.ForAll([a, b, c, d], z3.Implies(JOINP(a, b) == JOINP(c, d), z3.And(a == c, b == d)), patterns=[z3.MultiPattern(JOINP(a, b), JOINP(c, d))]),
            z3.ForAll([n, m], z3.Implies(STRI(n) == STRI(m), n == m), patterns=[z3.MultiPattern(STRI(n), STRI(m))])]

def build(reg):
    reg.axioms['always:join-str-injective'] = axioms
    reg.trusted += ['ASSUMPTION (stated in DESIGN.md, C16): os.path.join(base, str(n)) is injective in (base, n) over the base directories in play, i.e. no base directory equals another base directory followed by /<number>; str(int) is injective',
                    'sqlite: the dirs table is a ghost map key -> dir; DELETE empties it, INSERT adds one row (PRIMARY KEY conflicts raise sqlite3.Error and are not modelled)',
                    'precondition (established by __fmt/visited, not proved here): the kept table __known is injective']
    reg.classes[DO] = ClassSpec(DO, {'_DevelopDirOracle__db': CUR, '_DevelopDirOracle__known': KT, '_DevelopDirOracle__dirs': DT,
                                     '_DevelopDirOracle__visited': SetT(BYTES), '_DevelopDirOracle__ready': BOOL})
    AT = lambda: z3.ArraySort(B, sort_of(opt(STR)))
    class _T(T):
        def __init__(self, n, s): self.n = n; self.s = s
        def key(self): return self.n
        def name(self): return self.n
    from pyvc import ty as _ty
    TBLT = _T('DirsTable', None); USEDT = _T('PathSet', None); SRCT = _T('PathToInt', None)
    _ty._sorts[TBLT] = z3.ArraySort(B, sort_of(opt(STR))); _ty._sorts[USEDT] = z3.ArraySort(S, z3.BoolSort()); _ty._sorts[SRCT] = z3.ArraySort(S, I)
    ot = opt(STR)
    def ghost_init(eng, st):
        st.ghost['TBL'] = V(TBLT, fresh_z(TBLT, 'TBL')); st.ghost['USED'] = V(USEDT, fresh_z(USEDT, 'USED'))
        st.ghost['SRCB'] = V(SRCT, fresh_z(SRCT, 'SRCB')); st.ghost['SRCN'] = V(SRCT, fresh_z(SRCT, 'SRCN'))

    def known_vals(known_z):
        p = z3.String('kvp'); k = z3.Const('kvk', B)
        return lambda path: z3.Exists([k], z3.And(z3.Not(opt_is_none(ot, z3.Select(known_z, k))), opt_val(ot, z3.Select(known_z, k)) == path))

    @reg.model('os.path.join')
    def join(eng, st, args, kw, node): return [(st, V(STR, JOINP(args[0].z, args[1].z)))]
    reg.pure_names |= {'os.path.join'}
    @reg.model('Cursor.execute')
    def execute(eng, st, args, kw, node):
        sql = z3.simplify(args[1].z)
        if not z3.is_string_value(sql): return None
        q = sql.as_string()
        if q.startswith('DELETE FROM dirs'):
            st.ghost['TBL'] = V(TBLT, z3.K(B, opt_none(ot))); st.ghost['USED'] = V(USEDT, z3.K(S, z3.BoolVal(False)))
            return [(st, mk_none())]
        if q.startswith('INSERT INTO dirs'):
            row = args[2]
            key = tup_get(row.t, row.z, 0); path = tup_get(row.t, row.z, 1)
            outs = []
            # PRIMARY KEY: inserting a key that is already present raises (caught by prime() as BobError)
            x = st.fork(); x.assume(z3.Not(opt_is_none(ot, z3.Select(x.ghost['TBL'].z, key))))
            if eng.feasible(x): outs.append(eng.raise_(x, 'sqlite3.IntegrityError', 'PRIMARY KEY conflict'))
            st.assume(opt_is_none(ot, z3.Select(st.ghost['TBL'].z, key)))
            eng.oblige(st, 'insert@%s:directory-not-used-by-another-key' % node.lineno, z3.Not(z3.Select(st.ghost['USED'].z, path)), 'injectivity', node)
            st.assume(z3.Not(z3.Select(st.ghost['USED'].z, path)))
            st.ghost['TBL'] = V(TBLT, z3.Store(st.ghost['TBL'].z, key, opt_some(ot, path)))
            st.ghost['USED'] = V(USEDT, z3.Store(st.ghost['USED'].z, path, True))
            fr = st.frames[-1]
            if '__k1' in fr and 'num' in fr:
                st.ghost['SRCB'] = V(SRCT, z3.Store(st.ghost['SRCB'].z, path, fr['__k1'].z))
                st.ghost['SRCN'] = V(SRCT, z3.Store(st.ghost['SRCN'].z, path, fr['num'].z - 1))
            return outs + [(st, mk_none())]
        return None
    @reg.model('Cursor.executemany')
    def executemany(eng, st, args, kw, node):
        sql = z3.simplify(args[1].z)
        if z3.is_string_value(sql) and sql.as_string().startswith('INSERT INTO dirs'):
            me = st.frames[-1]['self']; known = eng.deref(st, eng.getfield(st, me, '_DevelopDirOracle__known'))
            kv = known_vals(known); p = z3.String('emp')
            U = fresh_z(USEDT, 'USED')
            st.assume(z3.ForAll([p], z3.Select(U, p) == kv(p)))
            st.ghost['TBL'] = V(TBLT, known); st.ghost['USED'] = V(USEDT, U)
            st.ghost['SRCB'] = V(SRCT, z3.K(S, z3.IntVal(-1)))
            return [(st, mk_none())]
        return None

    def req(s):
        known = s.self.f('__known').z; k1, k2 = z3.Consts('rk1 rk2', B)
        d = lambda k: z3.Not(opt_is_none(ot, z3.Select(known, k)))
        return [('known-injective', z3.ForAll([k1, k2], z3.Implies(z3.And(d(k1), d(k2), k1 != k2), opt_val(ot, z3.Select(known, k1)) != opt_val(ot, z3.Select(known, k2)))))]

    def INJ(tbl):
        k1, k2 = z3.Consts('ik1 ik2', B)
        d = lambda k: z3.Not(opt_is_none(ot, z3.Select(tbl, k)))
        return z3.ForAll([k1, k2], z3.Implies(z3.And(d(k1), d(k2), k1 != k2), opt_val(ot, z3.Select(tbl, k1)) != opt_val(ot, z3.Select(tbl, k2))))
    def VALS(tbl, used):
        k = z3.Const('vk', B)
        return z3.ForAll([k], z3.Implies(z3.Not(opt_is_none(ot, z3.Select(tbl, k))), z3.Select(used, opt_val(ot, z3.Select(tbl, k)))))
    def origin(cur, old, kk, L, num=None):
        """every used path is a kept one or base_j/<n> of an already processed base j (or of the current base with n < num)"""
        g = cur.ghost; p = z3.String('op')
        known0 = old.self.f('__known').z; kv = known_vals(known0)
        sb = z3.Select(g.SRCB.z, p); sn = z3.Select(g.SRCN.z, p)
        base_of = lambda j: tup_get(ITEM_T, list_get(ITEMS_T, L, j), 0)
        from_base = z3.And(0 <= sb, sb <= kk, sb < list_len(ITEMS_T, L), p == JOINP(base_of(sb), STRI(sn)))
        if num is None: from_base = z3.And(from_base, sb < kk)
        else: from_base = z3.And(from_base, z3.Implies(sb == kk, sn < num))
        return z3.ForAll([p], z3.Implies(z3.Select(g.USED.z, p), z3.Or(z3.And(sb == -1, kv(p)), from_base)))
    def kept(cur, old):
        k = z3.Const('kk', B); known0 = old.self.f('__known').z
        return z3.ForAll([k], z3.Implies(z3.Not(opt_is_none(ot, z3.Select(known0, k))), z3.Select(cur.ghost.TBL.z, k) == z3.Select(known0, k)))
    def bases_distinct(L):
        i, j = z3.Ints('bi bj')
        return z3.ForAll([i, j], z3.Implies(z3.And(0 <= i, i < j, j < list_len(ITEMS_T, L)),
                         tup_get(ITEM_T, list_get(ITEMS_T, L, i), 0) != tup_get(ITEM_T, list_get(ITEMS_T, L, j), 0)))
    def kd_is_known(cur, old):
        p = z3.String('kdp'); kv = known_vals(old.self.f('__known').z)
        return z3.ForAll([p], z3.Select(cur.knownDirs.z, p) == kv(p))
    def common(cur, old):
        return [('table-injective', INJ(cur.ghost.TBL.z)), ('table-paths-are-used', VALS(cur.ghost.TBL.z, cur.ghost.USED.z)),
                ('kept-entries-unchanged', kept(cur, old)), ('knownDirs-is-the-kept-paths', kd_is_known(cur, old)),
                ('known-unchanged', cur.self.f('__known').z == old.self.f('__known').z)]
    def loop1(cur, old, k, L):
        return common(cur, old) + [('origin', origin(cur, old, k, L)), ('bases-distinct', bases_distinct(L))]
    def loop2(cur, old, k, L):
        k1 = cur.var('__k1').z; L1 = cur.var('__iter1').z
        return common(cur, old) + [('origin', origin(cur, old, k1, L1, cur.num.z)), ('bases-distinct', bases_distinct(L1)),
                                   ('outer', z3.And(0 <= k1, k1 < list_len(ITEMS_T, L1), cur.baseDir.z == tup_get(ITEM_T, list_get(ITEMS_T, L1, k1), 0))), ('num', cur.num.z >= 1)]
    def loop3(cur, old):
        k1 = cur.var('__k1').z; L1 = cur.var('__iter1').z
        return common(cur, old) + [('origin', origin(cur, old, k1, L1, cur.num.z)), ('bases-distinct', bases_distinct(L1)),
                                   ('outer', z3.And(0 <= k1, k1 < list_len(ITEMS_T, L1), cur.baseDir.z == tup_get(ITEM_T, list_get(ITEMS_T, L1, k1), 0))), ('num', cur.num.z >= 1)]
    def post(o, n, r):
        return z3.And(INJ(n.ghost.TBL.z), kept(n, o))
    units = []
    units.append(Unit(F, 'DevelopDirOracle.__writeBack', {'self': ObjT(DO)}, 'C16', requires=req, ghost_init=ghost_init,
        ensures=[('directory-table-injective-and-stable', post)], raises={'sqlite3.IntegrityError': True}, loops={1: LoopSpec(inv=loop1), 2: LoopSpec(inv=loop2), 3: LoopSpec(inv=loop3)},
        modifies=['self.__dirs', 'self.__known', 'self.__visited'], locals_types={'knownDirs': SetT(STR)},
        note='kept entries are written back unchanged; new entries are numbered around kept directories'))
    units[-1].dyn = False
    units += collect_paths(reg)
    units += by_name_units(reg)
    units += [Watch(F, 'DevelopDirOracle.__fmt', 'keeps an old mapping if the base directory still matches'), Watch(F, 'DevelopDirOracle.__touch', 'graph traversal'),
              Watch('pym/bob/cmds/build/clean.py', 'doClean', 'see C12 for the dry-run contract')]
    return units


# ---------------------------------------------------------------------------------------------------------------------
# clean.collectPaths: the set of directories `bob clean` must keep.  Depth first walk over the package graph with a
# visited set keyed by package._getId().  Proved (recursion by contract, Dyn values with typed sets): the visited set at
# return contains the root, is closed under direct dependencies, and for every visited package the result contains its
# checkout workspace (if valid), its build workspace (if valid and the recorded state is absent or matches the variant id)
# and its package workspace (same condition).  So every package reachable from the root keeps its directories.
# Assumption (stated, not proved): _getId() identifies a package (equal ids => same steps and dependencies).
def collect_paths(reg):
    from pyvc import dyn, extract
    from pyvc.dyn import DYN, D
    from pyvc.core import Closure
    FC = 'pym/bob/cmds/build/clean.py'
    if not getattr(reg, '_dyn', False): dyn.install(reg)
    ID = z3.Function('PKG_id', D, D); CO = z3.Function('PKG_checkoutStep', D, D); BS = z3.Function('PKG_buildStep', D, D); PS = z3.Function('PKG_packageStep', D, D)
    VALID = z3.Function('STEP_isValid', D, z3.BoolSort()); WS = z3.Function('STEP_workspacePath', D, D); VID = z3.Function('STEP_variantId', D, D); PKG = z3.Function('STEP_package', D, D)
    DS = z3.Function('STATE_directoryState', D, D); LD = ListT(DYN); DEPS = z3.Function('PKG_directDepSteps', D, sort_of(LD)); PKG_BY_ID = z3.Function('PKG_by_id', D, D)
    INDEX = z3.Function('DYN_INDEX', D, D, D); SD = SetT(DYN)
    reg.trusted += ['package._getId() identifies the package: PKG_by_id(_getId(p)) == p (equal ids => same steps and the same dependencies); getDirectoryState is a function of the path during the walk']
    def fn(name, f, ret_bool=False):
        def m(e, st, a, kw, n):
            r = f(a[0].z)
            return [(st, mk_bool(r) if ret_bool else V(DYN, r))]
        reg.models['Dyn.' + name] = m; reg.pure_names.add('Dyn.' + name)
    fn('_getId', ID); fn('getCheckoutStep', CO); fn('getBuildStep', BS); fn('getPackageStep', PS); fn('isValid', VALID, True); fn('getWorkspacePath', WS); fn('getVariantId', VID); fn('getPackage', PKG)
    reg.models['Dyn.getDirectDepSteps'] = lambda e, st, a, kw, n: [(st, V(LD, DEPS(a[0].z)))]
    reg.models['Dyn.getDirectoryState'] = lambda e, st, a, kw, n: [(st, V(DYN, DS(dyn.dynify(e, st, a[1]))))]
    reg.pure_names |= {'Dyn.getDirectDepSteps', 'Dyn.getDirectoryState'}
    def idax():
        p = z3.Const('idp', D); i = z3.Int('idi')
        return [z3.ForAll([p], PKG_BY_ID(ID(p)) == p, patterns=[ID(p)]), z3.ForAll([p], list_len(LD, DEPS(p)) >= 0, patterns=[DEPS(p)])]
    reg.axioms['always:package-id-identifies-package'] = idax
    def keep_ok(P, paths):
        """the directories of package P that have to be kept are in `paths`"""
        bs, ps, co = BS(P), PS(P), CO(P)
        st_b = DS(WS(bs)); st_p = DS(WS(ps))
        return z3.And(z3.Implies(VALID(co), z3.Select(paths, WS(co))),
                      z3.Implies(z3.And(VALID(bs), z3.Or(st_b == dyn.NONE_D, dyn.EQ(VID(bs), INDEX(st_b, dyn.OF_INT(z3.IntVal(0)))))), z3.Select(paths, WS(bs))),
                      z3.Implies(z3.Or(st_p == dyn.NONE_D, dyn.EQ(VID(ps), st_p)), z3.Select(paths, WS(ps))))
    def closed_at(x, done, paths):
        """x (an id in done) is fully handled: directories kept, all direct dependencies visited"""
        P = PKG_BY_ID(x); i = z3.Int(fresh_name('ci')); L = DEPS(P)
        return z3.And(keep_ok(P, paths), z3.ForAll([i], z3.Implies(z3.And(0 <= i, i < list_len(LD, L)), z3.Select(done, ID(PKG(list_get(LD, L, i))))), patterns=[list_get(LD, L, i)]))
    def subset(A, B_, srt):
        x = z3.Const(fresh_name('sx'), srt); return z3.ForAll([x], z3.Implies(z3.Select(A, x), z3.Select(B_, x)))
    def new_closed(d0, d1, p1, extra=None):
        x = z3.Const(fresh_name('nx'), D)
        cond = z3.And(z3.Select(d1, x), z3.Not(z3.Select(d0, x)))
        if extra is not None: cond = z3.And(cond, x != extra)
        return z3.ForAll([x], z3.Implies(cond, closed_at(x, d1, p1)))
    WQ = 'collectPaths.<locals>.walk'
    def w_post(o, n, r):
        d0, p0, d1, p1 = o.done.z, o.paths.z, n.done.z, n.paths.z
        return z3.And(z3.Select(d1, ID(o.package.z)), subset(d0, d1, D), subset(p0, p1, D), new_closed(d0, d1, p1))
    def w_loop(cur, old, k, L):
        d0, p0, d1, p1 = old.done.z, old.paths.z, cur.done.z, cur.paths.z; P = old.package.z; i = z3.Int(fresh_name('wi'))
        return [('iterates-the-direct-dependencies', L == DEPS(P)), ('visited-grows', z3.And(subset(d0, d1, D), z3.Select(d1, ID(P)), z3.Not(z3.Select(d0, ID(P))))), ('kept-grows', subset(p0, p1, D)),
                ('own-directories-kept', keep_ok(P, p1)), ('newly-visited-packages-are-handled', new_closed(d0, d1, p1, extra=ID(P))),
                ('dependencies-so-far-visited', z3.ForAll([i], z3.Implies(z3.And(0 <= i, i < k), z3.Select(d1, ID(PKG(list_get(LD, L, i))))), patterns=[list_get(LD, L, i)])),
                ('frame', cur.package.z == P)]
    def inject(eng, st):
        fr = st.frames[-1]
        fr['paths'] = eng.fresh(st, SD, 'paths'); fr['done'] = eng.fresh(st, SD, 'done')
        mi = extract.load(FC); fnode, ci = mi.find_func(WQ)
        fr['walk'] = V(FUNC, Closure(fnode, {}, None, mi, name='bob.cmds.build.clean.' + WQ))
        fr['__transparent_closure__'] = True
    def w_view(names):
        pass
    u = Unit(FC, WQ, {'package': DYN}, 'C16', entry_hook=inject, ensures=[('visits-the-package-and-handles-everything-newly-visited', w_post)],
             loops={1: LoopSpec(inv=w_loop)}, modifies=['paths', 'done'], note='depth first walk of the package graph')
    u.dyn_literals = False; u.closure = ('paths', 'done')
    reg.add(u)
    def c_post(o, n, r):
        d1 = n.done.z; p1 = r.z; x = z3.Const(fresh_name('rx'), D)
        return z3.And(z3.Select(d1, ID(o.rootPackage.z)), z3.ForAll([x], z3.Implies(z3.Select(d1, x), closed_at(x, d1, p1))))
    u2 = Unit(FC, 'collectPaths', {'rootPackage': DYN}, 'C16', ensures=[('visited-set-contains-the-root-is-closed-under-dependencies-and-every-visited-package-keeps-its-directories', c_post)],
              result=SD, locals_types={'paths': SD, 'done': SD}, note='directories that bob clean must keep')
    u2.dyn_literals = False
    return [u, u2]


# ---------------------------------------------------------------------------------------------------------------------
# _BobState.getByNameDirectory (pym/bob/state.py): release mode directory assignment.  The persistent table __byNameDirs is ONE
# Python dict with two kinds of keys: step digest (bytes) -> (directory, isSourceDir) and base directory (str) -> last
# number handed out.  It is modelled as an object with two typed maps; the real code's `in`, [], setdefault and item
# assignment are dispatched on the key type.  Class invariant WF: every recorded directory is base/<n> with
# 1 <= n <= counter[base], and different digests have different directories.  Proved: the call keeps WF, a known digest
# keeps its directory (table unchanged), a new digest gets a directory no other digest has, all other entries unchanged.
def by_name_units(reg):
    FS = 'pym/bob/state.py'; BS = 'bob.state._BobState'; BND = 'ByNameDirs'
    ENT = TupleT(STR, BOOL); DIRS = DictT(BYTES, ENT); CNT = DictT(STR, INT)
    reg.classes[BND] = ClassSpec(BND, {'dirs': DIRS, 'cnt': CNT})
    reg.classes[BS] = ClassSpec(BS, {'_BobState__byNameDirs': ObjT(BND)})
    oe = opt(ENT); oi = opt(INT)
    def part(eng, st, c, key):
        if not (isinstance(c.t, ObjT) and c.t.cls == BND): return None
        if key.t == BYTES: return eng.getfield(st, c, 'dirs')
        if key.t == STR: return eng.getfield(st, c, 'cnt')
        raise Unsupported('byNameDirs key of type %s' % key.t)
    prev_contains = reg.contains_hook; prev_index = reg.index_hook; prev_set = reg.setitem_hook
    def contains_hook(eng, st, cont, x, node):
        p = part(eng, st, cont, x)
        if p is not None: return eng.contains(st, p, x, node)
        return prev_contains(eng, st, cont, x, node) if prev_contains else None
    def index_hook(eng, st, c, i, node):
        p = part(eng, st, c, i)
        if p is not None: return eng.index(st, p, i, node)
        return prev_index(eng, st, c, i, node) if prev_index else None
    def setitem_hook(eng, st, c, k, v, node):
        p = part(eng, st, c, k)
        if p is not None: return eng.setitem(st, p, k, v, node)
        return prev_set(eng, st, c, k, v, node) if prev_set else None
    reg.contains_hook = contains_hook; reg.index_hook = index_hook; reg.setitem_hook = setitem_hook
    def setdefault(eng, st, args, kw, node):
        p = part(eng, st, args[0], args[1])
        return eng.call_builtin_method(st, p, 'setdefault', args[1:], kw, node)
    reg.models[BND + '.setdefault'] = setdefault
    reg.models[BS + '.__save'] = lambda e, st, a, kw, n: [(st, mk_none())]
    reg.models[BS + '._BobState__save'] = reg.models[BS + '.__save']
    reg.trusted += ['_BobState.__save (persisting the table) is a no-op for this contract: its crash/atomicity behaviour is proved under C10',
                    'the single dict __byNameDirs (bytes keys: digests, str keys: base directories) is modelled as two typed maps selected by the key type']
    def WF(v):
        D = v.self.f('__byNameDirs').dirs.z; C = v.self.f('__byNameDirs').cnt.z
        d1, d2 = z3.Consts('wd1 wd2', B)
        has = lambda d: z3.Not(opt_is_none(oe, z3.Select(D, d)))
        path = lambda d: tup_get(ENT, opt_val(oe, z3.Select(D, d)), 0)
        BASE = z3.Function('BND_base', B, S); NUM = z3.Function('BND_num', B, I)       # ghost witnesses: where a directory came from
        cnt = lambda b: z3.If(opt_is_none(oi, z3.Select(C, b)), 0, opt_val(oi, z3.Select(C, b)))
        return [('recorded-directories-are-numbered-below-the-counter', z3.ForAll([d1], z3.Implies(has(d1),
                    z3.And(path(d1) == JOINP(BASE(d1), STRI(NUM(d1))), 1 <= NUM(d1), NUM(d1) <= cnt(BASE(d1)))), patterns=[z3.Select(D, d1)])),
                ('counters-are-not-negative', z3.ForAll([z3.String('wb')], z3.Implies(z3.Not(opt_is_none(oi, z3.Select(C, z3.String('wb')))), opt_val(oi, z3.Select(C, z3.String('wb'))) >= 0), patterns=[z3.Select(C, z3.String('wb'))])),
                ('different-digests-have-different-directories', z3.ForAll([d1, d2], z3.Implies(z3.And(has(d1), has(d2), d1 != d2), path(d1) != path(d2)),
                    patterns=[z3.MultiPattern(z3.Select(D, d1), z3.Select(D, d2))]))], BASE, NUM
    def req(s): return WF(s)[0]
    def post(o, n, r):
        D0 = o.self.f('__byNameDirs').dirs.z; D1 = n.self.f('__byNameDirs').dirs.z; C0 = o.self.f('__byNameDirs').cnt.z; C1 = n.self.f('__byNameDirs').cnt.z
        dg = o.digest.z; known = z3.Not(opt_is_none(oe, z3.Select(D0, dg)))
        d = z3.Const('pd', B)
        has0 = lambda x: z3.Not(opt_is_none(oe, z3.Select(D0, x)))
        return z3.And(
            z3.Implies(known, z3.And(r.z == tup_get(ENT, opt_val(oe, z3.Select(D0, dg)), 0), D1 == D0, C1 == C0)),
            z3.Implies(z3.Not(known), z3.And(
                z3.Not(opt_is_none(oe, z3.Select(D1, dg))), tup_get(ENT, opt_val(oe, z3.Select(D1, dg)), 0) == r.z,
                z3.ForAll([d], z3.Implies(d != dg, z3.Select(D1, d) == z3.Select(D0, d)), patterns=[z3.Select(D1, d)]),
                z3.ForAll([d], z3.Implies(has0(d), tup_get(ENT, opt_val(oe, z3.Select(D0, d)), 0) != r.z), patterns=[z3.Select(D0, d)]))))
    def wf_kept(o, n, r, only):
        # the invariant holds again with the witness of the new digest being (baseDir, counter + 1)
        cl, BASE, NUM = WF(n)
        D0 = o.self.f('__byNameDirs').dirs.z; C0 = o.self.f('__byNameDirs').cnt.z; dg = o.digest.z
        cnt0 = z3.If(opt_is_none(oi, z3.Select(C0, o.baseDir.z)), 0, opt_val(oi, z3.Select(C0, o.baseDir.z)))
        new = opt_is_none(oe, z3.Select(D0, dg))
        hyp = z3.Implies(new, z3.And(BASE(dg) == o.baseDir.z, NUM(dg) == cnt0 + 1))
        return z3.Implies(hyp, [c for nm, c in cl if nm == only][0])
    u = Unit(FS, '_BobState.getByNameDirectory', {'self': ObjT(BS), 'baseDir': STR, 'digest': BYTES, 'isSourceDir': BOOL}, 'C16', result=STR,
             requires=req, ensures=[('known-digest-keeps-its-directory-new-digest-gets-an-unused-one-others-unchanged', post), ] + [('table-invariant-kept:' + nm, (lambda o, n, r, nm=nm: wf_kept(o, n, r, nm))) for nm in ('recorded-directories-are-numbered-below-the-counter', 'counters-are-not-negative', 'different-digests-have-different-directories')],
             modifies=['self.__byNameDirs.dirs', 'self.__byNameDirs.cnt'], note='release mode: directory table stays injective and numbered below the per-base counters')
    u.dyn = False
    return [u]
