# C06 - Parallel builds are schedule independent and bounded: job-server token semaphore.
# Interleaving method (Owicki-Gries / rely-guarantee on the asyncio event loop): every atomic block
# (code between two awaits) of JobServerSemaphore assumes the shared invariant INV and re-establishes
# it; at an await the shared state is havocked under INV.  Covers all interleavings of any number of
# acquire/release/callback actions, without enumerating any.
import ast, z3
from pyvc.api import *
from pyvc.ty import *
from pyvc.core import Raise, Exc
from pyvc.view import SV, W

F = 'pym/bob/builder.py'
CLS = 'bob.builder.JobServerSemaphore'
SEM = OpaqueT('AsyncSemaphore'); LOOP = OpaqueT('EventLoop')

def build(reg):
    reg.classes[CLS] = ClassSpec(CLS, {
        '_JobServerSemaphore__sem': SEM, '_JobServerSemaphore__waitersCnt': INT, '_JobServerSemaphore__fds': TupleT(INT, INT),
        '_JobServerSemaphore__tokens': ListT(BYTES), '_JobServerSemaphore__recursive': BOOL, '_JobServerSemaphore__acquired': INT})
    reg.trusted += [
        'asyncio event loop: callbacks/coroutines run one at a time, a coroutine is pre-empted only at an await (atomic blocks)',
        'asyncio.Semaphore contract: release() increments the value; "await acquire()" returns after decrementing a positive value',
        'os.read(fd,1) on the non-blocking job-server pipe: returns one token and removes it from the pipe, or raises BlockingIOError; os.write(fd,token) puts one token back',
        'recursive (external GNU make job server) mode: other processes may add/remove pipe tokens at any time (pipe content unconstrained)',
    ]

    def ghost_init(eng, st):
        for n in ('P', 'G', 'B', 'N'):
            st.ghost[n] = V(INT, fresh_z(INT, n))
        st.ghost['reader'] = V(BOOL, fresh_z(BOOL, 'reader'))
    reg.ghost_const.add('N')

    def fields(s):
        o = s.self
        return o.f('__waitersCnt').z, o.f('__tokens'), o.f('__acquired').z, o.f('__recursive').z

    def INV(s):
        """shared invariant over the semaphore object and the pipe (ghost P = tokens in the pipe,
        G = value of the asyncio semaphore = grants not yet consumed, B = coroutines blocked in acquire)"""
        w, toks, acq, rec = fields(s)
        g = s.ghost; P, G, B, N = g.P.z, g.G.z, g.B.z, g.N.z
        n = toks.len(); qi = z3.Int('qi')
        return [
            ('nonneg', z3.And(P >= 0, G >= 0, B >= 0, w >= 0, acq >= 0, n >= 0)),
            # every blocked waiter is either still waiting for a token or already granted one
            ('waiters-accounted', B == w + G),
            # internal job server: tokens are conserved (none lost, none duplicated)
            ('tokens-conserved', z3.Implies(z3.Not(rec), P + n == N)),
            # every token held by Bob is owned by exactly one running or granted job;
            # in recursive mode the first job runs on the implicit slot of the parent make
            # (`acquired` counts running jobs and granted-but-not-yet-resumed waiters: a slot is accounted when granted)
            ('tokens-owned', z3.If(rec, n == z3.If(acq >= 1, acq - 1, 0), n == acq)),
            ('grants-are-counted', G <= acq),
            # job bound: jobs holding a slot (running or granted)
            ('job-bound', z3.Implies(z3.Not(rec), acq <= N)),
            # recursive mode: somebody waits only while somebody else holds a slot (else the implicit slot is free)
            ('waiter-implies-holder', z3.Implies(z3.And(rec, w > 0), acq >= 1)),
            ('tokens-are-single-bytes', z3.ForAll([qi], z3.Implies(z3.And(0 <= qi, qi < n), z3.Length(toks[qi].z) == 1))),
        ]
    reg.shared_invariant = INV

    # ---- models of the environment
    @reg.model('os.read')
    def os_read(eng, st, args, kw, node):
        g = st.ghost
        rec = SV(eng, st).self.f('__recursive').z
        # recursive mode: the pipe is shared with other processes; its content is arbitrary at each syscall
        x = st.fork()
        P0 = x.ghost['P'].z
        Pn = fresh_z(INT, 'P')
        x.assume(z3.If(rec, Pn >= 0, Pn == P0))
        out = []
        for y, val in eng.branch(x, Pn > 0, 'os.read'):
            if val:
                y.ghost['P'] = V(INT, Pn - 1)
                tok = fresh_z(BYTES, 'token'); y.assume(z3.Length(tok) == 1)
                out.append((y, V(BYTES, tok)))
            else:
                y.ghost['P'] = V(INT, Pn)
                out.append(eng.raise_(y, 'BlockingIOError', 'os.read on empty job-server pipe'))
        return out
    @reg.model('os.write')
    def os_write(eng, st, args, kw, node):
        eng.oblige(st, 'os.write@%s:writes-one-token' % node.lineno, z3.Length(args[1].z) == 1, 'precondition', node)
        st.ghost['P'] = V(INT, st.ghost['P'].z + 1)
        return [(st, mk_int(1))]
    @reg.model('asyncio.get_event_loop')
    def get_loop(eng, st, args, kw, node): return [(st, V(LOOP, z3.Const('the_loop', sort_of(LOOP))))]
    @reg.model('EventLoop.add_reader')
    def add_reader(eng, st, args, kw, node):
        st.ghost['reader'] = mk_bool(True); return [(st, mk_none())]
    @reg.model('EventLoop.remove_reader')
    def remove_reader(eng, st, args, kw, node):
        st.ghost['reader'] = mk_bool(False); return [(st, mk_bool(True))]
    @reg.model('AsyncSemaphore.release')
    def sem_release(eng, st, args, kw, node):
        st.ghost['G'] = V(INT, st.ghost['G'].z + 1); return [(st, mk_none())]
    @reg.model('AsyncSemaphore.acquire')
    def sem_acquire(eng, st, args, kw, node):
        # yield point.  ghost: this coroutine is now blocked
        st.ghost['B'] = V(INT, st.ghost['B'].z + 1)
        for name, z in INV(SV(eng, st)):
            eng.oblige(st, 'yield@%s:%s' % (node.lineno, name), z, 'interleaving-invariant', node)
        # other coroutines / callbacks run: shared state is arbitrary but satisfies INV
        me = st.frames[-1]['self']
        spec = reg.classes[CLS]
        for f in ('_JobServerSemaphore__waitersCnt', '_JobServerSemaphore__acquired'):
            eng.setfield(st, me, f, V(INT, fresh_z(INT, f)))
        eng.havoc(st, eng.getfield(st, me, '_JobServerSemaphore__tokens'), 'tokens')
        for n in ('P', 'G', 'B'): st.ghost[n] = V(INT, fresh_z(INT, n))
        st.ghost['reader'] = V(BOOL, fresh_z(BOOL, 'reader'))
        for name, z in INV(SV(eng, st)): st.assume(z)
        # resumed only when the semaphore value is positive; consumes one grant
        st.assume(st.ghost['G'].z > 0)
        st.ghost['G'] = V(INT, st.ghost['G'].z - 1)
        st.ghost['B'] = V(INT, st.ghost['B'].z - 1)
        return [(st, mk_bool(True))]

    def inv_post(o, n, r): return z3.And(*[c for _, c in INV(n)])
    def frame(o, n, r):
        return z3.And(n.self.f('__recursive').z == o.self.f('__recursive').z, n.ghost.N.z == o.ghost.N.z)

    units = []
    for rec in (False, True):
        tag = 'recursive' if rec else 'internal'
        def mk_req(extra=None, rec=rec):
            def req(s):
                r = INV(s) + [('mode', s.self.f('__recursive').z == z3.BoolVal(rec))]
                if extra is not None: r += extra(s)
                return r
            return req
        holds = lambda s: [('caller-is-a-running-job', s.self.f('__acquired').z - s.ghost.G.z >= 1)]
        # acquire: on return the caller is counted as a holder
        units.append(Unit(F, 'JobServerSemaphore.acquire', {'self': ObjT(CLS)}, 'C06', name='JobServerSemaphore.acquire[%s]' % tag,
            requires=mk_req(), ghost_init=ghost_init,
            ensures=[('invariant', inv_post), ('frame', frame),
                     ('caller-counted-as-running', lambda o, n, r: n.self.f('__acquired').z - n.ghost.G.z >= 1)],
            modifies=['self.__waitersCnt', 'self.__tokens', 'self.__acquired'],
            note='atomic blocks: entry..return, entry..await, resume..return'))
        units.append(Unit(F, 'JobServerSemaphore.release', {'self': ObjT(CLS)}, 'C06', name='JobServerSemaphore.release[%s]' % tag,
            requires=mk_req(holds), ghost_init=ghost_init,
            ensures=[('invariant', inv_post), ('frame', frame)],
            modifies=['self.__waitersCnt', 'self.__tokens', 'self.__acquired'],
            note='one atomic block; precondition: the caller holds a slot (acquired >= 1), so ValueError/IndexError must be unreachable'))
        def cb_loop(cur, old):
            return INV(cur) + [('frame', z3.And(cur.self.f('__recursive').z == old.self.f('__recursive').z, cur.ghost.N.z == old.ghost.N.z))]
        units.append(Unit(F, 'JobServerSemaphore.jobavailableCallback', {'self': ObjT(CLS)}, 'C06', name='JobServerSemaphore.jobavailableCallback[%s]' % tag,
            requires=mk_req(), ghost_init=ghost_init,
            ensures=[('invariant', inv_post), ('frame', frame)],
            loops={1: LoopSpec(inv=cb_loop)},
            modifies=['self.__waitersCnt', 'self.__tokens', 'self.__acquired'],
            note='event-loop reader callback: one atomic block with a loop'))
        units.append(Unit(F, 'JobServerSemaphore.__aenter__', {'self': ObjT(CLS)}, 'C06', name='JobServerSemaphore.__aenter__[%s]' % tag,
            requires=mk_req(), ghost_init=ghost_init, ensures=[('invariant', inv_post), ('caller-counted-as-running', lambda o, n, r: n.self.f('__acquired').z - n.ghost.G.z >= 1)],
            modifies=['self.__waitersCnt', 'self.__tokens', 'self.__acquired']))
        units.append(Unit(F, 'JobServerSemaphore.__aexit__', {'self': ObjT(CLS), 'exc_type': NONE, 'exc': NONE, 'tb': NONE}, 'C06',
            name='JobServerSemaphore.__aexit__[%s]' % tag,
            requires=mk_req(holds), ghost_init=ghost_init, ensures=[('invariant', inv_post)],
            modifies=['self.__waitersCnt', 'self.__tokens', 'self.__acquired']))

    # call-site contracts (mode independent; their bodies are verified by the two mode variants above)
    holds_ = lambda s: [('caller-is-a-running-job', s.self.f('__acquired').z - s.ghost.G.z >= 1)]
    reg.add(Unit(F, 'JobServerSemaphore.acquire', {'self': ObjT(CLS)}, 'C06', requires=lambda s: INV(s),
                 ensures=[('invariant', inv_post), ('frame', frame), ('caller-counted-as-running', lambda o, n, r: n.self.f('__acquired').z - n.ghost.G.z >= 1)],
                 modifies=['self.__waitersCnt', 'self.__tokens', 'self.__acquired'], verify=False))
    reg.add(Unit(F, 'JobServerSemaphore.release', {'self': ObjT(CLS)}, 'C06', requires=lambda s: INV(s) + holds_(s),
                 ensures=[('invariant', inv_post), ('frame', frame)],
                 modifies=['self.__waitersCnt', 'self.__tokens', 'self.__acquired'], verify=False))

    # lemmas over the invariant (pure, no code): the property clauses follow from INV
    class Lemma:
        kind = 'lemma'; verify = True; file = F; qual = '-'; note = 'consequences of the shared invariant'
        def __init__(self, name, fn): self.name = name; self.lemma = fn
    def lem(reg_, eng):
        w, n, acq, G, P, B, N = z3.Ints('w n acq G P B N'); rec = z3.Bool('rec')
        inv = [P >= 0, G >= 0, B >= 0, w >= 0, acq >= 0, n >= 0, B == w + G, z3.Implies(z3.Not(rec), P + n == N),
               z3.If(rec, n == z3.If(acq >= 1, acq - 1, 0), n == acq), G <= acq, z3.Implies(z3.Not(rec), acq <= N)]
        running = acq - G       # jobs that returned from acquire() and have not released yet
        return [
            ('never-more-than-N-jobs', inv + [z3.Not(rec)], z3.And(running <= N, running >= 0)),
            ('idle-means-all-tokens-returned', inv + [z3.Not(rec), acq == 0], z3.And(P == N, n == 0)),
            ('recursive-jobs-bounded-by-tokens-plus-implicit-slot', inv + [rec], running <= n + 1),
            ('recursive-idle-holds-no-token', inv + [rec, acq == 0], n == 0),
        ]
    units.append(Lemma('lemma:invariant-implies-property-clauses', lem))
    return units
