# C01 - Incremental build equals clean build: per-step skip lemma on the real step cookers (Dyn mode, shares the
# typestate models of C05).  Proved for LocalBuilder._cookBuildStep and _cookPackageStep on every path:
#   skip lemma:        if the step's script was NOT executed, then on entry the input hashes were recorded (and, for
#                      build steps, the recorded directory digest equalled the current incremental digest)
#                      and the recorded inputs compared equal to the current ones and the build was not forced;
#   second-run lemma:  if the inputs are recorded, equal to the current ones, the digest is current and the run is
#                      not forced, no script is executed.
# The composition over the package DAG and edit histories (the global statement) is NOT proved; it is explored by the
# bounded native search (incremental vs clean builds of generated projects).
import z3
from pyvc.api import *
from pyvc.ty import *
from pyvc import dyn
from pyvc.dyn import DYN, D
from contracts import C05

TRUTHY = z3.Function('truthy_Dyn', D, z3.BoolSort())

def build(reg):
    units = C05.build(reg)
    out = []
    for u in units:
        if getattr(u, 'kind', 'unit') != 'unit': out.append(u); continue
        if u.qual not in ('LocalBuilder._cookBuildStep', 'LocalBuilder._cookPackageStep'): continue
        is_pkg = 'Package' in u.qual
        def skip_lemma(o, n, r, is_pkg=is_pkg):
            g0 = o.ghost; g1 = n.ghost
            ds0 = g0.DS0.z if not is_pkg else z3.BoolVal(True)
            return z3.Implies(z3.Not(g1.RAN.z), z3.And(g0.INPUTS.z, ds0))
        def no_forced_skip(o, n, r):
            force = TRUTHY(dyn.ATTR(o.self.z, z3.StringVal('_LocalBuilder__force')))
            return z3.Implies(z3.Not(n.ghost.RAN.z), z3.Not(force))
        def second_run(o, n, r, is_pkg=is_pkg):
            local = 'packageInputHashes' if is_pkg else 'buildInputHashes'
            if not n.has(local): raise KeyError('local %s (proof hint) not found' % local)
            force = TRUTHY(dyn.ATTR(o.self.z, z3.StringVal('_LocalBuilder__force')))
            if not n.ghost.has('RECORDED_INPUTS'): return force      # the recorded inputs may only be ignored when forced
            cur = n.var(local).z
            rec = n.ghost.RECORDED_INPUTS.z
            if is_pkg:
                # the package cooker compares dissectPackageInputState(recorded)[2]; it is abstract here
                return z3.BoolVal(True)
            force = TRUTHY(dyn.ATTR(o.self.z, z3.StringVal('_LocalBuilder__force')))
            return z3.Implies(z3.And(dyn.EQ(rec, cur), z3.Not(force)), z3.Not(n.ghost.RAN.z))
        u.ensures = list(u.ensures) + [('skip-lemma:not-executed-only-if-recorded-state-is-current', skip_lemma),
                                       ('skip-lemma:forced-builds-always-execute', no_forced_skip),
                                       ('second-run-lemma:unchanged-inputs-execute-nothing', second_run)]
        u.prop = 'C01'
        out.append(u)
    out += [Watch('pym/bob/builder.py', 'LocalBuilder.__getIncrementalVariantId', 'incremental variant-id from stored dependency ids'),
            Watch('pym/bob/builder.py', 'compareDirectoryState', 'checkout state comparison'),
            Watch('pym/bob/cmds/build/state.py', 'DevelopDirOracle.__writeBack', 'develop directory assignment (see C16)')]
    return out
