# C01 - Incremental build equals clean build: per-step skip lemma on the real step cookers (Dyn mode, shares the
# typestate models of C05).  Proved for LocalBuilder._cookBuildStep and _cookPackageStep on every path:
#   skip lemma:        if the step's script was NOT executed, then on entry the input hashes were recorded (and, for
#                      build steps, the recorded directory digest equalled the current incremental digest)
#                      and the recorded inputs compared equal to the current ones and the build was not forced;
#   second-run lemma:  if the inputs are recorded, equal to the current ones, the digest is current and the run is
#                      not forced, no script is executed.
# The composition over the package DAG and edit histories (the global statement) is NOT proved; it is explored by the
# bounded native search (incremental vs clean builds of generated projects).
import z3
from pyvc.api import *
from pyvc.ty import *
from pyvc import dyn
from pyvc.dyn import DYN, D
from contracts import C05

TRUTHY = z3.Function('truthy_Dyn', D, z3.BoolSort())

def build(reg):
    units = C05.build(reg)
    out = []
    for u in units:
        if getattr(u, 'kind', 'unit') != 'unit': out.append(u); continue
        if u.qual not in ('LocalBuilder._cookBuildStep', 'LocalBuilder._cookPackageStep'): continue
        is_pkg = 'Package' in u.qual
        def skip_lemma(o, n, r, is_pkg=is_pkg):
            g0 = o.ghost; g1 = n.ghost
            ds0 = g0.DS0.z if not is_pkg else z3.BoolVal(True)
            return z3.Implies(z3.Not(g1.RAN.z), z3.And(g0.INPUTS.z, ds0))
        def no_forced_skip(o, n, r):
            force = TRUTHY(dyn.ATTR(o.self.z, z3.StringVal('_LocalBuilder__force')))
            return z3.Implies(z3.Not(n.ghost.RAN.z), z3.Not(force))
        def second_run(o, n, r, is_pkg=is_pkg):
            local = 'packageInputHashes' if is_pkg else 'buildInputHashes'
            if not n.has(local): raise KeyError('local %s (proof hint) not found' % local)
            force = TRUTHY(dyn.ATTR(o.self.z, z3.StringVal('_LocalBuilder__force')))
            if not n.ghost.has('RECORDED_INPUTS'): return force      # the recorded inputs may only be ignored when forced
            cur = n.var(local).z
            rec = n.ghost.RECORDED_INPUTS.z
            if is_pkg:
                # the package cooker compares dissectPackageInputState(recorded)[2]; it is abstract here
                return z3.BoolVal(True)
            force = TRUTHY(dyn.ATTR(o.self.z, z3.StringVal('_LocalBuilder__force')))
            return z3.Implies(z3.And(dyn.EQ(rec, cur), z3.Not(force)), z3.Not(n.ghost.RAN.z))
        u.ensures = list(u.ensures) + [('skip-lemma:not-executed-only-if-recorded-state-is-current', skip_lemma),
                                       ('skip-lemma:forced-builds-always-execute', no_forced_skip),
                                       ('second-run-lemma:unchanged-inputs-execute-nothing', second_run)]
        u.prop = 'C01'
        out.append(u)
    out += [Watch('pym/bob/builder.py', 'LocalBuilder.__getIncrementalVariantId', 'incremental variant-id from stored dependency ids'),
            Watch('pym/bob/cmds/build/state.py', 'DevelopDirOracle.__writeBack', 'develop directory assignment (see C16)')]
    out += compare_state(reg)
    return out


# ---------------------------------------------------------------------------------------------------------------------
# compareDirectoryState (typed, strict): decides "recipe changed" for checkout steps.  Proved: True exactly if both states
# have the same keys apart from the build-only sub-state and agree on the first component (the digest) of every such key --
# in particular on the CHECKOUT_STATE_VARIANT_ID key, so a changed checkout variant-id is always a difference.
def compare_state(reg):
    import ast
    from pyvc.core import Unsupported
    F = 'pym/bob/builder.py'
    KEY = OpaqueT('StateKey'); VAL = OpaqueT('StateValue'); DIG = OpaqueT('StateDigest')
    KZ = sort_of(KEY)
    K_VID = z3.Const('KEY_variant_id_None', KZ); K_BO = z3.Const('KEY_build_only_1', KZ)
    FIRST = z3.Function('STATE_first_component', sort_of(VAL), sort_of(DIG))
    DT = DictT(KEY, VAL); RT = DictT(KEY, DIG); OV = OptT(VAL); OD = OptT(DIG)
    reg.trusted += ['checkout state keys: None (variant-id), 1 (build-only sub-state) and directory names are pairwise different values of one abstract key sort; v[0] is an uninterpreted function of the state value']
    reg.constants['bob.builder.CHECKOUT_STATE_BUILD_ONLY'] = lambda e, st: V(KEY, K_BO)
    reg.constants['bob.builder.CHECKOUT_STATE_VARIANT_ID'] = lambda e, st: V(KEY, K_VID)
    reg.axioms['always:state-keys-distinct'] = lambda: [K_VID != K_BO]
    base_comp = reg.comp_hook
    def comp(e, st, node, kind):
        src = ast.unparse(node).replace(' ', '')
        for name in ('left', 'right'):
            if kind == 'dict' and src == '{d:v[0]ford,vin%s.items()ifd!=CHECKOUT_STATE_BUILD_ONLY}' % name:
                D_ = e.deref(st, st.frames[-1][name]); k = z3.Const(fresh_name('k'), KZ)
                R = z3.Lambda([k], z3.If(z3.And(k != K_BO, z3.Not(opt_is_none(OV, z3.Select(D_, k)))), opt_some(OD, FIRST(opt_val(OV, z3.Select(D_, k)))), opt_none(OD)))
                e.assume_note('dict comprehension {d: v[0] for d, v in X.items() if d != BUILD_ONLY} evaluated as filter+map of the mapping (comprehension semantics, not proved by the engine)')
                return [(st, e.alloc(st, RT, R))]
        return base_comp(e, st, node, kind) if base_comp else None
    reg.comp_hook = comp
    def post(o, n, r):
        k = z3.Const(fresh_name('k'), KZ); L, R_ = o.left.z, o.right.z
        pres = lambda D_, kk: z3.Not(opt_is_none(OV, z3.Select(D_, kk)))
        same = z3.ForAll([k], z3.Implies(k != K_BO, z3.And(pres(L, k) == pres(R_, k), z3.Implies(pres(L, k), FIRST(opt_val(OV, z3.Select(L, k))) == FIRST(opt_val(OV, z3.Select(R_, k)))))))
        return r.z == same
    def vid_lemma(o, n, r):
        L, R_ = o.left.z, o.right.z
        pres = lambda D_: z3.Not(opt_is_none(OV, z3.Select(D_, K_VID)))
        differs = z3.Or(pres(L) != pres(R_), z3.And(pres(L), FIRST(opt_val(OV, z3.Select(L, K_VID))) != FIRST(opt_val(OV, z3.Select(R_, K_VID)))))
        return z3.Implies(differs, z3.Not(r.z))
    u = Unit(F, 'compareDirectoryState', {'left': DT, 'right': DT}, 'C01', result=BOOL,
             ensures=[('equal-exactly-if-all-keys-but-build-only-agree-on-their-digest', post), ('a-changed-checkout-variant-id-is-a-difference', vid_lemma)],
             note='"recipe changed" decision of checkout steps')
    u.dyn = False
    return [u]
