# C09 - Archive uploads are atomic and never overwrite   (pym/bob/archive.py)
#
# Rely/guarantee over a ghost file system.  The *reader invariant* R of an artifact name d is
#       exists(d)  ==>  COMPLETE(content(d))
# and the *guarantee* G every single file-system action of an uploader has to satisfy w.r.t. d is
#       (exists, content)(d) unchanged   or   d did not exist and now exists with COMPLETE content   (package artifacts)
#       (exists, content)(d) unchanged   or   d exists with COMPLETE content                         (overwritable meta data)
# After every file-system action (= after every possible crash point) G and R are proof obligations, and then the
# *environment* acts: other uploaders / mirroring downloaders change d in any way permitted by G (rely == guarantee).
# So the proof covers every interleaving of any number of such processes and a crash after any action.
# COMPLETE is uninterpreted: the temporary file is COMPLETE iff the pack (resp. the mirrored stream) ended normally.
#
# Mirroring (Tee / MirrorLeecher / MirrorWriter): ghost RECV[c] is the byte string cache c received; a cache is committed
# only if it received the whole source stream (SRC, read to EOF), every cache is finalized exactly once.
import ast, z3
from pyvc.api import *
from pyvc.ty import *
from pyvc.core import Raise, Exc, Unsupported
from pyvc.view import SV, W
from theories import fs

F = 'pym/bob/archive.py'
LAU = 'bob.archive.LocalArchiveUploader'; LA = 'bob.archive.LocalArchive'; BA = 'bob.archive.BaseArchive'
MW = 'bob.archive.MirrorWriter'; ML = 'bob.archive.MirrorLeecher'; TEE = 'bob.archive.Tee'
B = sort_of(BYTES); S = z3.StringSort()
COMPLETE = z3.Function('COMPLETE', B, z3.BoolSort())
PDIR = z3.Function('artifact_dir', B, S, S); PFILE = z3.Function('artifact_file', B, S, S)

def build(reg):
    fs.install(reg)
    reg.fs_close_may_fail = True
    reg.classes[fs.PYFILE].fields['name'] = STR
    reg.trusted += [
        'os.link(src, dst): atomic; fails with FileExistsError iff dst exists, otherwise dst names the content of src (POSIX link(2))',
        'tempfile.NamedTemporaryFile(dir=d, delete=False): creates a new empty file whose name is neither an existing name nor the artifact name (random tmpXXXXXXXX names vs. <hex>-1.tgz); other processes do not touch it',
        'isWindows() is False (the os.rename branch for Windows is not verified); os.chmod/os.umask/os.makedirs/os.path.isdir do not change file content',
        'rely: every other process changes the artifact name only as permitted by the guarantee proved here (all writers are bob uploaders)',
        'TarHelper._pack: if it returns normally the file it wrote is a COMPLETE artifact (tarfile/gzip are external); nothing is assumed when it raises',
    ]
    reg.models['bob.utils.isWindows'] = reg.models['bob.archive.isWindows'] = lambda eng, st, args, kw, node: [(st, mk_bool(False))]

    # ------------------------------------------------------------------ ghost: destination under observation
    def ghost_init(eng, st):
        fs.init_ghost(eng, st)
        st.ghost['DEST'] = V(STR, fresh_z(STR, 'DEST'))                 # the artifact name this upload is about
        st.ghost['OVERWRITE'] = V(BOOL, fresh_z(BOOL, 'OVERWRITE'))     # meta data file (replace allowed) or package artifact
        st.ghost['D_EX'] = V(BOOL, fresh_z(BOOL, 'D_EX')); st.ghost['D_CO'] = V(BYTES, fresh_z(BYTES, 'D_CO'))   # last observed state of DEST
        st.ghost['PUBLISHED'] = V(BOOL, z3.BoolVal(False))              # this process has put its file under DEST
        st.ghost['TMP'] = V(STR, fresh_z(STR, 'TMP'))
        st.ghost['PACK_OK'] = V(BOOL, z3.BoolVal(False))                # the pack of this upload ended normally
    def dstate(st):
        d = st.ghost['DEST'].z
        return z3.Select(fs.ex(st), d), z3.Select(fs.co(st), d)
    def snapshot_is_current(st):
        e, c = dstate(st)
        return z3.And(st.ghost['D_EX'].z == e, z3.Implies(e, st.ghost['D_CO'].z == c))
    def reader_inv(st):
        e, c = dstate(st)
        return z3.Implies(e, COMPLETE(c))

    def after_action(eng, st, what, node, mutating=True):
        """obligations G and R for the action just performed, then one environment step"""
        if 'DEST' not in st.ghost: return
        g = st.ghost; e, c = dstate(st); e0, c0 = g['D_EX'].z, g['D_CO'].z
        ln = getattr(node, 'lineno', '?')
        if mutating:
            unchanged = z3.And(e == e0, z3.Implies(e0, c == c0))
            publish = z3.And(z3.Not(e0), e, COMPLETE(c))
            repl = z3.And(e, COMPLETE(c))
            eng.oblige(st, 'after-%s@%s:present-artifact-untouched-or-complete-artifact-appears-atomically' % (what, ln),
                       z3.Or(unchanged, z3.If(g['OVERWRITE'].z, repl, publish)), 'guarantee', node)
            eng.oblige(st, 'after-%s@%s:reader-finds-nothing-or-complete-artifact' % (what, ln), reader_inv(st), 'crash-invariant', node)
            g['PUBLISHED'] = V(BOOL, z3.Or(g['PUBLISHED'].z, z3.Not(unchanged)))
        # environment: any number of steps of other uploaders / mirrors on DEST
        d = g['DEST'].z; e2 = fresh_z(BOOL, 'env_ex'); c2 = fresh_z(BYTES, 'env_co')
        st.assume(z3.Or(z3.And(e2 == e, z3.Implies(e, c2 == c)),
                        z3.If(g['OVERWRITE'].z, z3.And(e2, COMPLETE(c2)), z3.And(z3.Not(e), e2, COMPLETE(c2)))))
        st.assume(d != g['TMP'].z)
        fs.set_ex(st, z3.Store(fs.ex(st), d, e2)); fs.set_co(st, z3.Store(fs.co(st), d, c2))
        g['D_EX'] = V(BOOL, e2); g['D_CO'] = V(BYTES, c2)
    reg.crash_hook = lambda eng, st, what, node: after_action(eng, st, what, node, True)

    def oserr(eng, st, what, node):
        if getattr(getattr(reg, 'current_unit', None), 'fs_infallible', False): return []
        return [eng.raise_(st.fork(), 'OSError', '%s fails at %s' % (what, eng.loc(node)))]

    @reg.model('os.link')
    def link(eng, st, args, kw, node):
        src, dst = args[0].z, args[1].z
        out = oserr(eng, st, 'link', node)
        x = st.fork(); x.assume(z3.Select(fs.ex(x), dst))
        if eng.feasible(x):
            after_action(eng, x, 'link-lost-race', node, False)
            out.append(eng.raise_(x, 'FileExistsError', 'link target exists at %s' % eng.loc(node)))
        st.assume(z3.Not(z3.Select(fs.ex(st), dst))); st.assume(z3.Select(fs.ex(st), src))
        fs.set_ex(st, z3.Store(fs.ex(st), dst, True)); fs.set_co(st, z3.Store(fs.co(st), dst, z3.Select(fs.co(st), src)))
        after_action(eng, st, 'link', node)
        out.append((st, mk_none()))
        return out
    @reg.model('os.chmod')
    def chmod(eng, st, args, kw, node): return oserr(eng, st, 'chmod', node) + [(st, mk_none())]
    @reg.model('os.path.isfile')
    def isfile(eng, st, args, kw, node):
        r = z3.Select(fs.ex(st), args[0].z)
        rv = fresh_z(BOOL, 'isfile'); st.assume(rv == r)
        after_action(eng, st, 'isfile', node, False)
        return [(st, mk_bool(rv))]
    @reg.model('os.path.exists', 'os.path.lexists')
    def exists_(eng, st, args, kw, node):
        # a check is only a snapshot: the environment (other uploaders, mirroring downloaders) acts right after it
        r = z3.Select(fs.ex(st), args[0].z)
        rv = fresh_z(BOOL, 'exists'); st.assume(rv == r)
        after_action(eng, st, 'exists', node, False)
        return [(st, mk_bool(rv))]
    ISDIR = z3.Function('os_path_isdir', S, z3.BoolSort())
    reg.models['os.path.isdir'] = lambda eng, st, args, kw, node: [(st, mk_bool(fresh_z(BOOL, 'isdir')))]
    reg.models['os.umask'] = lambda eng, st, args, kw, node: [(st, mk_int(fresh_z(INT, 'umask')))]
    reg.models['os.makedirs'] = lambda eng, st, args, kw, node: oserr(eng, st, 'makedirs', node) + [(st, mk_none())]
    @reg.model('bob.archive.NamedTemporaryFile', 'tempfile.NamedTemporaryFile')
    def ntf(eng, st, args, kw, node):
        out = oserr(eng, st, 'NamedTemporaryFile', node)
        p = fresh_z(STR, 'tmpname')
        st.assume(z3.Not(z3.Select(fs.ex(st), p)))
        if 'DEST' in st.ghost: st.assume(p != st.ghost['DEST'].z); st.ghost['TMP'] = V(STR, p)
        fs.set_ex(st, z3.Store(fs.ex(st), p, True)); fs.set_co(st, z3.Store(fs.co(st), p, z3.Empty(B)))
        after_action(eng, st, 'create-temporary-file', node)
        fd = fresh_z(INT, 'fd'); st.assume(fs.FD_PATH(fd) == p)
        f = eng.new_obj(st, fs.PYFILE, {'path': V(STR, p), 'name': V(STR, p), 'pos': mk_int(0), 'writable': mk_bool(True), 'fd': V(INT, fd)})
        out.append((st, f))
        return out

    # ------------------------------------------------------------------ LocalArchiveUploader.__exit__
    reg.classes[LAU] = ClassSpec(LAU, {'tmp': ObjT(fs.PYFILE), 'fileMode': OptT(INT), 'destination': STR, 'overwrite': BOOL})
    def lau_req(failed):
        def req(s):
            st = s.st; g = st.ghost; me = s.self
            tp = me.tmp.f('path').z
            r = [('tmp-name', z3.And(me.tmp.f('name').z == tp, g['TMP'].z == tp, tp != me.destination.z)),
                 ('tmp-exists', z3.Select(fs.ex(st), tp)),
                 ('ghost-dest', z3.And(g['DEST'].z == me.destination.z, g['OVERWRITE'].z == me.overwrite.z)),
                 ('snapshot', snapshot_is_current(st)), ('reader-invariant', reader_inv(st)),
                 ('nothing-published-yet', z3.Not(g['PUBLISHED'].z))]
            if not failed: r.append(('temporary-file-is-complete-when-body-succeeded', COMPLETE(z3.Select(fs.co(st), tp))))
            return r
        return req
    def lau_post_ok(o, n, r):
        e, c = dstate(n.st)
        return z3.And(z3.Not(r.z), e, COMPLETE(c), z3.Not(z3.Select(fs.ex(n.st), o.self.tmp.f('path').z)))
    def lau_post_failed(o, n, r):
        return z3.And(z3.Not(r.z), z3.Not(n.st.ghost['PUBLISHED'].z), z3.Not(z3.Select(fs.ex(n.st), o.self.tmp.f('path').z)))
    def lau_exc_failed(o, n): return z3.Not(n.st.ghost['PUBLISHED'].z)
    units = []
    for failed, et in ((False, NONE), (True, BOOL)):
        units.append(Unit(F, 'LocalArchiveUploader.__exit__', {'self': ObjT(LAU), 'exc_type': et, 'exc_value': NONE, 'traceback': NONE}, 'C09',
            name='LocalArchiveUploader.__exit__[%s]' % ('body-failed' if failed else 'body-succeeded'), requires=lau_req(failed), ghost_init=ghost_init,
            ensures=[('failed-upload-publishes-nothing-and-removes-its-temporary-file', lau_post_failed)] if failed else
                    [('an-artifact-is-present-and-complete-and-the-temporary-file-is-gone', lau_post_ok)],
            ensures_exc=[('failed-upload-publishes-nothing', '*', lau_exc_failed)] if failed else [],
            raises={'OSError': True, 'FileNotFoundError': True}, result=BOOL,
            note='publish by link()+unlink() (never replace) / replace() only for overwritable meta data; G and R after every FS action, environment step in between'))

    # ------------------------------------------------------------------ LocalArchive._openUploadFile
    reg.classes[LA] = ClassSpec(LA, {'_BaseArchive__ignoreUploadErrors': BOOL, '_BaseArchive__name': OptT(STR), '_LocalArchive__path': STR, '_LocalArchive__basePath': STR, '_LocalArchive__fileMode': OptT(INT), '_LocalArchive__dirMode': OptT(INT)})
    reg.inline_patterns += ['bob.archive.LocalArchiveUploader.__init__', 'bob.archive.LocalArchiveUploader.__enter__', 'bob.archive.LocalArchiveUploader._LocalArchiveUploader__*', 'bob.archive.LocalArchiveUploader.__*']
    PT = TupleT(STR, STR)
    @reg.model('bob.archive.LocalArchive._getPath')
    def getpath(eng, st, args, kw, node):
        return [(st, V(PT, tup_mk(PT, [PDIR(args[1].z, args[2].z), PFILE(args[1].z, args[2].z)])))]
    reg.trusted.append('LocalArchive._getPath(buildId, suffix): a function of its arguments (uninterpreted); the artifact name is its second component')
    def ouf_req(s):
        st = s.st; g = st.ghost
        return [('ghost-dest', z3.And(g['DEST'].z == PFILE(s.buildId.z, s.suffix.z), g['OVERWRITE'].z == s.overwrite.z)),
                ('snapshot', snapshot_is_current(st)), ('reader-invariant', reader_inv(st)), ('nothing-published-yet', z3.Not(g['PUBLISHED'].z))]
    def ouf_post(o, n, r):
        st = n.st; g = st.ghost; tp = r.tmp.f('path').z
        return z3.And(r.destination.z == g['DEST'].z, r.overwrite.z == o.overwrite.z, r.tmp.f('name').z == tp, g['TMP'].z == tp, tp != g['DEST'].z,
                      z3.Select(fs.ex(st), tp), z3.Select(fs.co(st), tp) == z3.Empty(B),
                      snapshot_is_current(st), reader_inv(st), z3.Not(g['PUBLISHED'].z))
    def ouf_exc(o, n): return z3.And(z3.Not(n.st.ghost['PUBLISHED'].z), reader_inv(n.st))
    units.append(Unit(F, 'LocalArchive._openUploadFile', {'self': ObjT(LA), 'buildId': BYTES, 'suffix': STR, 'overwrite': BOOL}, 'C09', requires=ouf_req, ghost_init=ghost_init,
        ensures=[('upload-goes-to-a-private-temporary-file-and-the-uploader-carries-the-overwrite-flag', ouf_post)],
        ensures_exc=[('artifact-name-untouched', '*', ouf_exc), ('exists-error-only-for-package-uploads', 'bob.archive.ArtifactExistsError', lambda o, n: z3.Not(o.overwrite.z))],
        raises={'bob.archive.ArtifactExistsError': True, 'OSError': True}, result=ObjT(LAU),
        note='existence check, then a temporary file in the destination directory; the artifact name itself is not touched'))
    units.append(Watch(F, 'LocalArchive._getPath', 'artifact name computation (modelled as an uninterpreted function of build-id and suffix)'))
    # ------------------------------------------------------------------ call-site contracts (modular use of the two units above)
    def lau_call_req(s):
        st = s.st; g = st.ghost; me = s.self; tp = me.tmp.f('path').z
        r = [('tmp-name', z3.And(me.tmp.f('name').z == tp, g['TMP'].z == tp, tp != me.destination.z)), ('tmp-exists', z3.Select(fs.ex(st), tp)),
             ('ghost-dest', z3.And(g['DEST'].z == me.destination.z, g['OVERWRITE'].z == me.overwrite.z)),
             ('snapshot', snapshot_is_current(st)), ('reader-invariant', reader_inv(st)), ('nothing-published-yet', z3.Not(g['PUBLISHED'].z))]
        if s.exc_type.t == NONE: r.append(('temporary-file-is-complete-when-body-succeeded', COMPLETE(z3.Select(fs.co(st), tp))))
        return r
    def lau_call_post(o, n, r):
        q = [z3.Not(r.z), reader_inv(n.st), snapshot_is_current(n.st), n.st.ghost['PACK_OK'].z == o.st.ghost['PACK_OK'].z, n.st.ghost['DEST'].z == o.st.ghost['DEST'].z, n.st.ghost['OVERWRITE'].z == o.st.ghost['OVERWRITE'].z]
        if o.exc_type.t != NONE: q.append(z3.Not(n.st.ghost['PUBLISHED'].z))
        return z3.And(*q)
    def lau_call_exc(o, n):
        q = [reader_inv(n.st), snapshot_is_current(n.st), n.st.ghost['PACK_OK'].z == o.st.ghost['PACK_OK'].z, n.st.ghost['DEST'].z == o.st.ghost['DEST'].z]
        if o.exc_type.t != NONE: q.append(z3.Not(n.st.ghost['PUBLISHED'].z))
        return z3.And(*q)
    reg.add(Unit(F, 'LocalArchiveUploader.__exit__', {'self': ObjT(LAU), 'exc_type': None, 'exc_value': None, 'traceback': None}, 'C09', requires=lau_call_req,
                 ensures=[('summary', lau_call_post)], ensures_exc=[('summary', '*', lau_call_exc)], raises={'OSError': True}, result=BOOL, verify=False))
    def ouf_call_post(o, n, r):
        return z3.And(ouf_post(o, n, r), n.st.ghost['DEST'].z == o.st.ghost['DEST'].z, n.st.ghost['OVERWRITE'].z == o.st.ghost['OVERWRITE'].z)
    def ouf_call_exc(o, n):
        return z3.And(ouf_exc(o, n), snapshot_is_current(n.st), n.st.ghost['DEST'].z == o.st.ghost['DEST'].z)
    reg.add(Unit(F, 'LocalArchive._openUploadFile', {'self': ObjT(LA), 'buildId': BYTES, 'suffix': STR, 'overwrite': BOOL}, 'C09', requires=ouf_req,
                 ensures=[('summary', ouf_call_post)], ensures_exc=[('summary', '*', ouf_call_exc), ('exists', 'bob.archive.ArtifactExistsError', lambda o, n: z3.Not(o.overwrite.z))],
                 raises={'bob.archive.ArtifactExistsError': True, 'OSError': True}, result=ObjT(LAU), verify=False))

    # ------------------------------------------------------------------ BaseArchive._uploadPackage / cachePackage (on a LocalArchive)
    reg.models['signal.signal'] = lambda eng, st, args, kw, node: [(st, mk_none())]
    reg.models['bob.archive.BaseArchive._namedErrorString'] = lambda eng, st, args, kw, node: [(st, V(STR, fresh_z(STR, 'errstr')))]
    for cname, val in (('SKIPPED', 1), ('EXECUTED', 2), ('ERROR', 5), ('WARNING', 4)):
        reg.constants['bob.tty.' + cname] = reg.constants['bob.archive.' + cname] = (lambda v: (lambda e, st: mk_int(v)))(val)
    reg.constants['bob.archive.ARTIFACT_SUFFIX'] = lambda e, st: mk_str('.tgz')
    @reg.model('bob.archive.TarHelper._pack')
    def pack(eng, st, args, kw, node):
        me, name, fobj = args[0], args[1], args[2]
        p = eng.getfield(st, fobj, 'path').z
        out = []
        for kind in ('OSError', 'tarfile.TarError', None):
            x = st.fork() if kind else st
            c = fresh_z(BYTES, 'packed')
            fs.set_co(x, z3.Store(fs.co(x), p, c))
            eng.oblige(x, 'pack@%s:writes-only-the-temporary-file' % node.lineno, p == x.ghost['TMP'].z, 'guarantee', node)
            after_action(eng, x, 'pack-writes', node)
            if kind: out.append(eng.raise_(x, kind, 'pack fails at %s' % eng.loc(node)))
            else: x.assume(COMPLETE(c)); x.ghost['PACK_OK'] = V(BOOL, z3.BoolVal(True)); out.append((x, mk_none()))
        return out
    def up_req(s):
        st = s.st; g = st.ghost
        return [('ghost-dest', z3.And(g['DEST'].z == PFILE(s.buildId.z, s.suffix.z), z3.Not(g['OVERWRITE'].z))),
                ('snapshot', snapshot_is_current(st)), ('reader-invariant', reader_inv(st)), ('nothing-published-yet', z3.Not(g['PUBLISHED'].z))]
    RT = TupleT(STR, INT)
    def up_post(o, n, r):
        e, c = dstate(n.st)
        return z3.And(reader_inv(n.st), z3.Implies(r[1].z == 2, z3.And(e, COMPLETE(c))),
                      z3.Implies(r[1].z == 5, z3.Implies(n.st.ghost['PUBLISHED'].z, n.st.ghost['PACK_OK'].z)))
    def up_exc(o, n):
        # an upload whose pack failed publishes nothing; the only error after publishing is a failing clean-up of the
        # private temporary file (os.unlink after a successful link), which leaves the complete artifact in place
        return z3.And(reader_inv(n.st), z3.Implies(n.st.ghost['PUBLISHED'].z, n.st.ghost['PACK_OK'].z))
    units.append(Unit(F, 'BaseArchive._uploadPackage', {'self': ObjT(LA), 'buildId': BYTES, 'suffix': STR, 'audit': STR, 'content': STR}, 'C09',
        name='BaseArchive._uploadPackage[file archive]', requires=up_req, ghost_init=ghost_init,
        ensures=[('ok-means-a-complete-artifact-is-present;error-means-nothing-was-published', up_post)],
        ensures_exc=[('failed-upload-leaves-nothing-under-the-artifact-name', 'bob.errors.BuildError', up_exc)],
        raises={'bob.errors.BuildError': True}, result=None,
        note='package uploads never request overwrite; the uploader context sees the failure of the pack; verified for self being a LocalArchive'))
    def cp_req(s):
        st = s.st; g = st.ghost
        return [('ghost-dest', z3.And(g['DEST'].z == PFILE(s.buildId.z, z3.StringVal('.tgz')), z3.Not(g['OVERWRITE'].z))),
                ('snapshot', snapshot_is_current(st)), ('reader-invariant', reader_inv(st)), ('nothing-published-yet', z3.Not(g['PUBLISHED'].z))]
    OL = OptT(ObjT(LAU))
    def cp_post(o, n, r):
        return z3.And(reader_inv(n.st), z3.Not(n.st.ghost['PUBLISHED'].z))
    units.append(Unit(F, 'BaseArchive.cachePackage', {'self': ObjT(LA), 'buildId': BYTES, 'workspace': STR}, 'C09',
        name='BaseArchive.cachePackage[file archive]', requires=cp_req, ghost_init=ghost_init,
        ensures=[('opening-a-mirror-publishes-nothing', cp_post)], ensures_exc=[('opening-a-mirror-publishes-nothing', '*', lambda o, n: cp_post(o, n, None))],
        raises={'bob.errors.BuildError': True}, result=None, note='mirror uploads never request overwrite'))
    # ================================================================== cache mirroring: Tee / MirrorLeecher / MirrorWriter
    MWS = OpaqueT('MirrorWriterRef'); MWZ = sort_of(MWS); SRCT = OpaqueT('SourceStream'); FIN = OpaqueT('Finalizer'); FINZ = sort_of(FIN)
    IGN = z3.Function('MW_ignoreUploadErrors', MWZ, z3.BoolSort()); FIN_PATH = z3.Function('FIN_path', FINZ, S)
    class _M(T):
        def __init__(self, n): self.n = n
        def key(self): return self.n
        def name(self): return self.n
    from pyvc import ty as _ty
    RECVT = _M('MwBytesMap'); _ty._sorts[RECVT] = z3.ArraySort(MWZ, B)
    STT = _M('MwStateMap'); _ty._sorts[STT] = z3.ArraySort(MWZ, z3.IntSort())
    FST = _M('FinStateMap'); _ty._sorts[FST] = z3.ArraySort(FINZ, z3.IntSort())
    reg.trusted += ['source stream: read(n) with n != 0 returns b"" only at the end of the stream; the artifact held by the source archive is COMPLETE (reader invariant of that archive)',
                    'MirrorWriter objects are referred to by identity in Tee/MirrorLeecher (uninterpreted sort); their contract (write appends to RECV, commit/abort finalize once) is the one proved for the real class below, restated as a model']
    def mghost(eng, st):
        fs.init_ghost(eng, st)
        st.ghost['RECV'] = V(RECVT, z3.Const(fresh_name('RECV'), z3.ArraySort(MWZ, B)))         # bytes each mirror received
        st.ghost['MSTATE'] = V(STT, z3.Const(fresh_name('MSTATE'), z3.ArraySort(MWZ, z3.IntSort())))   # 0 open, 1 committed, 2 aborted
        st.ghost['FSTATE'] = V(FST, z3.Const(fresh_name('FSTATE'), z3.ArraySort(FINZ, z3.IntSort())))
        st.ghost['SRC'] = V(BYTES, fresh_z(BYTES, 'SRC'))              # bytes read from the source stream so far
        st.ghost['SRC_EOF'] = V(BOOL, fresh_z(BOOL, 'SRC_EOF'))
    def G(st, n): return st.ghost[n].z
    def setg(st, n, z): st.ghost[n] = V(st.ghost[n].t, z)
    MERR = ('bob.archive.ArtifactExistsError', 'bob.archive.ArtifactError', 'bob.webdav.WebdavError', 'OSError')

    # ---- the MirrorWriter contract, as a model over references (used by MirrorLeecher.read and Tee.__exit__)
    reg.attr_models['MirrorWriterRef.ignoreUploadErrors'] = lambda eng, st, b, node: [(st, mk_bool(IGN(b.z)))]
    @reg.model('MirrorWriterRef.write')
    def mw_write(eng, st, args, kw, node):
        c, data = args[0].z, args[1].z
        x = st.fork(); setg(x, 'RECV', z3.Store(G(x, 'RECV'), c, fresh_z(BYTES, 'torn')))
        out = [eng.raise_(x, 'OSError', 'mirror write fails at %s' % eng.loc(node))]
        setg(st, 'RECV', z3.Store(G(st, 'RECV'), c, z3.Concat(z3.Select(G(st, 'RECV'), c), data)))
        out.append((st, mk_none()))
        return out
    @reg.model('MirrorWriterRef.commit')
    def mw_commit(eng, st, args, kw, node):
        c = args[0].z; ln = node.lineno
        eng.oblige(st, 'commit@%s:mirror-not-finalized-before' % ln, z3.Select(G(st, 'MSTATE'), c) == 0, 'typestate', node)
        eng.oblige(st, 'commit@%s:only-a-mirror-that-received-the-whole-source-stream-is-committed' % ln,
                   z3.And(G(st, 'SRC_EOF'), z3.Select(G(st, 'RECV'), c) == G(st, 'SRC')), 'atomicity', node)
        out = []
        for k in MERR:
            x = st.fork(); q = fresh_z(INT, 'state'); x.assume(z3.Or(q == 0, q == 1))       # closing the file may fail before the context is left
            setg(x, 'MSTATE', z3.Store(G(x, 'MSTATE'), c, q)); out.append(eng.raise_(x, k, 'commit fails at %s' % eng.loc(node)))
        setg(st, 'MSTATE', z3.Store(G(st, 'MSTATE'), c, 1))
        return out + [(st, mk_none())]
    @reg.model('MirrorWriterRef.abort')
    def mw_abort(eng, st, args, kw, node):
        c = args[0].z
        eng.oblige(st, 'abort@%s:mirror-not-finalized-before' % node.lineno, z3.Select(G(st, 'MSTATE'), c) == 0, 'typestate', node)
        x = st.fork(); q = fresh_z(INT, 'state'); x.assume(z3.Or(q == 0, q == 2))
        setg(x, 'MSTATE', z3.Store(G(x, 'MSTATE'), c, q))
        setg(st, 'MSTATE', z3.Store(G(st, 'MSTATE'), c, 2))
        return [eng.raise_(x, 'OSError', 'abort fails at %s' % eng.loc(node)), (st, mk_none())]
    @reg.model('SourceStream.read')
    def src_read(eng, st, args, kw, node):
        size = args[1].z if len(args) > 1 else z3.IntVal(-1)
        out = [eng.raise_(st.fork(), 'OSError', 'source read fails at %s' % eng.loc(node))]
        chunk = fresh_z(BYTES, 'chunk')
        st.assume(z3.Implies(G(st, 'SRC_EOF'), z3.Length(chunk) == 0))
        setg(st, 'SRC', z3.Concat(G(st, 'SRC'), chunk))
        setg(st, 'SRC_EOF', z3.Or(G(st, 'SRC_EOF'), z3.And(z3.Length(chunk) == 0, size != 0)))
        out.append((st, V(BYTES, chunk)))
        return out
    reg.models['SourceStream.close'] = lambda eng, st, args, kw, node: [(st, mk_none())]
    reg.always_truthy = set(getattr(reg, 'always_truthy', ())) | {'MirrorWriterRef'}

    LT = ListT(MWS)
    def insync(st, L, lo=None):
        """every mirror in list L (from index lo) is open and has received exactly the bytes read from the source"""
        j = z3.Int(fresh_name('j')); n = list_len(LT, L); c = list_get(LT, L, j)
        return z3.ForAll([j], z3.Implies(z3.And((lo if lo is not None else 0) <= j, j < n),
                         z3.And(z3.Select(G(st, 'MSTATE'), c) == 0, z3.Select(G(st, 'RECV'), c) == G(st, 'SRC'))), patterns=[list_get(LT, L, j)])
    def distinct(L):
        a, b = z3.Int(fresh_name('a')), z3.Int(fresh_name('b')); n = list_len(LT, L)
        return z3.ForAll([a, b], z3.Implies(z3.And(0 <= a, a < b, b < n), list_get(LT, L, a) != list_get(LT, L, b)),
                         patterns=[z3.MultiPattern(list_get(LT, L, a), list_get(LT, L, b))])
    def sublist(L, L0):
        """every element of L is an element of L0"""
        j = z3.Int(fresh_name('j')); k = z3.Int(fresh_name('k'))
        return z3.ForAll([j], z3.Implies(z3.And(0 <= j, j < list_len(LT, L)),
                         z3.Exists([k], z3.And(0 <= k, k < list_len(LT, L0), list_get(LT, L0, k) == list_get(LT, L, j)))), patterns=[list_get(LT, L, j)])
    def no_new_commits(nst, ost):
        c = z3.Const(fresh_name('c'), MWZ)
        return z3.ForAll([c], z3.Implies(z3.Select(G(nst, 'MSTATE'), c) == 1, z3.Select(G(ost, 'MSTATE'), c) == 1))
    def all_open(st, L, lo=0):
        j = z3.Int(fresh_name('j'))
        return z3.ForAll([j], z3.Implies(z3.And(lo <= j, j < list_len(LT, L)), z3.Select(G(st, 'MSTATE'), list_get(LT, L, j)) == 0), patterns=[list_get(LT, L, j)])

    # ---- MirrorLeecher.read
    reg.classes[ML] = ClassSpec(ML, {'_MirrorLeecher__file': SRCT, '_MirrorLeecher__caches': LT})
    def ml_req(s):
        L = s.self.f('__caches').z
        return [('mirrors-in-sync', insync(s.st, L)), ('mirrors-distinct', distinct(L)), ('len', list_len(LT, L) >= 0)]
    def ml_post(o, n, r):
        L = n.self.f('__caches').z; L0 = o.self.f('__caches').z
        return z3.And(insync(n.st, L), distinct(L), sublist(L, L0), no_new_commits(n.st, o.st), G(n.st, 'SRC') == z3.Concat(G(o.st, 'SRC'), r.z),
                      z3.Implies(z3.And(z3.Length(r.z) == 0, o.size.z != 0), G(n.st, 'SRC_EOF')), z3.Implies(G(o.st, 'SRC_EOF'), G(n.st, 'SRC_EOF')))
    def ml_loop(cur, old):
        L = cur.self.f('__caches').z; L0 = old.self.f('__caches').z; i = cur.i.z; st = cur.st; ret = cur.ret.z
        j = z3.Int(fresh_name('j')); c = list_get(LT, L, j); n = list_len(LT, L)
        before = z3.Concat(G(old.st, 'SRC'), z3.Empty(B))
        return [('index', z3.And(0 <= i, i <= n)), ('ret', z3.And(ret == old.ret.z if old.has('ret') else z3.BoolVal(True), z3.Length(ret) > 0)),
                ('source', z3.And(G(st, 'SRC') == z3.Concat(before, ret), G(st, 'SRC_EOF') == G(old.st, 'SRC_EOF'))),
                ('served-mirrors-have-the-new-chunk', z3.ForAll([j], z3.Implies(z3.And(0 <= j, j < i),
                    z3.And(z3.Select(G(st, 'MSTATE'), c) == 0, z3.Select(G(st, 'RECV'), c) == G(st, 'SRC'))), patterns=[list_get(LT, L, j)])),
                ('pending-mirrors-are-as-before', z3.ForAll([j], z3.Implies(z3.And(i <= j, j < n),
                    z3.And(z3.Select(G(st, 'MSTATE'), c) == 0, z3.Select(G(st, 'RECV'), c) == before)), patterns=[list_get(LT, L, j)])),
                ('mirrors-distinct', distinct(L)), ('no-new-mirrors', sublist(L, L0)), ('nothing-committed', no_new_commits(st, old.st))]
    def ml_exc(o, n):
        L = n.self.f('__caches').z
        return z3.And(all_open(n.st, L), distinct(L), no_new_commits(n.st, o.st), list_len(LT, L) >= 0)
    units.append(Unit(F, 'MirrorLeecher.read', {'self': ObjT(ML), 'size': INT}, 'C09', requires=ml_req, ghost_init=mghost,
        ensures=[('every-remaining-mirror-received-exactly-what-was-read', ml_post)], ensures_exc=[('remaining-mirrors-are-open-and-nothing-was-committed', '*', ml_exc)],
        raises={'bob.errors.BuildError': True, 'OSError': True}, result=BYTES,
        loops={1: LoopSpec(inv=ml_loop, decreases=lambda cur: list_len(LT, cur.self.f('__caches').z) - cur.i.z)},
        locals_types={'c': MWS}, note='a mirror whose write fails is aborted and dropped; all others stay in sync with the source stream'))
    reg.add(Unit(F, 'MirrorLeecher.read', {'self': ObjT(ML), 'size': INT}, 'C09', requires=ml_req, ensures=[('summary', lambda o, n, r: z3.And(ml_post(o, n, r), list_len(LT, n.self.f('__caches').z) >= 0))],
                 ensures_exc=[('summary', '*', ml_exc)], raises={'bob.errors.BuildError': True, 'OSError': True}, result=BYTES, modifies=['self.__caches'],
                 modifies_ghost=['RECV', 'MSTATE', 'SRC', 'SRC_EOF'], verify=False))

    # ---- Tee.__exit__
    reg.classes[TEE] = ClassSpec(TEE, {'_Tee__file': SRCT, '_Tee__owner': BOOL, '_Tee__caches': LT, '_Tee__leecher': ObjT(ML)})
    def tee_self(eng, st):
        me = eng.fresh(st, ObjT(TEE), 'self')
        le = eng.getfield(st, me, '_Tee__leecher')
        eng.setfield(st, le, '_MirrorLeecher__caches', eng.getfield(st, me, '_Tee__caches'))      # the leecher works on the very same list
        eng.setfield(st, le, '_MirrorLeecher__file', eng.getfield(st, me, '_Tee__file'))
        return me
    def tee_req(s):
        L = s.self.f('__caches').z
        return [('mirrors-in-sync', insync(s.st, L)), ('mirrors-distinct', distinct(L)), ('len', list_len(LT, L) >= 0)]
    def tee_drain(cur, old):
        L = cur.self.f('__caches').z
        return [('mirrors-in-sync', insync(cur.st, L)), ('mirrors-distinct', distinct(L)), ('len', list_len(LT, L) >= 0), ('nothing-committed-yet', no_new_commits(cur.st, old.st))]
    def tee_commit(cur, old):
        L = cur.self.f('__caches').z
        return [('mirrors-in-sync', insync(cur.st, L)), ('mirrors-distinct', distinct(L)), ('len', list_len(LT, L) >= 0),
                ('source-was-read-to-its-end', z3.Or(G(cur.st, 'SRC_EOF'), list_len(LT, L) == 0))]
    def tee_abort(failed):
        def inv(cur, old, k, L):
            r = [('remaining-mirrors-are-open', all_open(cur.st, L, k)), ('mirrors-distinct', distinct(L))]
            if failed: r.append(('nothing-committed', no_new_commits(cur.st, old.st)))      # old = state at function entry
            return r
        return inv
    def tee_post_failed(o, n, r): return z3.And(z3.Not(r.z), no_new_commits(n.st, o.st))
    for failed, et in ((False, NONE), (True, BOOL)):
        units.append(Unit(F, 'Tee.__exit__', {'self': tee_self, 'exc_type': et, 'exc_value': NONE, 'traceback': NONE}, 'C09', ghost_init=mghost,
            name='Tee.__exit__[%s]' % ('download-failed' if failed else 'download-succeeded'), requires=tee_req,
            ensures=[('a-failed-download-commits-no-mirror', tee_post_failed)] if failed else [('result', lambda o, n, r: z3.Not(r.z))],
            ensures_exc=[('a-failed-download-commits-no-mirror', '*', lambda o, n: no_new_commits(n.st, o.st))] if failed else [],
            raises={'bob.errors.BuildError': True, 'OSError': True}, result=BOOL,
            loops={1: LoopSpec(inv=tee_drain), 2: LoopSpec(inv=tee_commit, decreases=lambda cur: list_len(LT, cur.self.f('__caches').z)), 3: LoopSpec(inv=tee_abort(failed))},
            locals_types={'c': MWS}, note='drain the source, then commit every mirror (obligation at commit: it received the whole stream), abort the rest'))
    units += [Watch(F, 'Tee.__init__', 'opens one mirror per cache archive (cachePackage) and aborts them if one fails'),
              Watch(F, 'Tee.__enter__', 'creates the MirrorLeecher on the same cache list'),
              Watch(F, 'BaseArchive._downloadPackage', 'wraps the extraction into the Tee context, so that a failing extraction aborts the mirrors')]
    # ---- the real MirrorWriter (its finalizer is the __exit__ of the uploader context, e.g. LocalArchiveUploader.__exit__)
    reg.classes[MW] = ClassSpec(MW, {'ignoreUploadErrors': BOOL, '_MirrorWriter__finalizer': FIN, '_MirrorWriter__fileName': OptT(STR), '_MirrorWriter__fileObj': ObjT(fs.PYFILE)})
    @reg.model('Finalizer.__call__')
    def fin_call(eng, st, args, kw, node):
        f = args[0].z; ln = node.lineno; commit = args[1].t == NONE
        eng.oblige(st, 'finalizer@%s:upload-context-is-left-only-once' % ln, z3.Select(G(st, 'FSTATE'), f) == 0, 'typestate', node)
        if commit:
            eng.oblige(st, 'finalizer@%s:success-is-signalled-only-for-a-file-holding-the-whole-source-stream' % ln,
                       z3.And(G(st, 'SRC_EOF'), z3.Select(fs.co(st), FIN_PATH(f)) == G(st, 'SRC')), 'atomicity', node)
        setg(st, 'FSTATE', z3.Store(G(st, 'FSTATE'), f, 1 if commit else 2))
        return [eng.raise_(st.fork(), k, 'finalizer fails at %s' % eng.loc(node)) for k in (MERR if commit else ('OSError',))] + [(st, mk_bool(False))]
    def mw_inv(s):
        me = s.self
        return [('file-is-the-one-the-finalizer-publishes', me.f('__fileObj').f('path').z == FIN_PATH(me.f('__finalizer').z)), ('open', z3.Select(G(s.st, 'FSTATE'), me.f('__finalizer').z) == 0)]
    def mw_path(v): return v.self.f('__fileObj').f('path').z
    def fstate(v): return z3.Select(G(v.st, 'FSTATE'), v.self.f('__finalizer').z)
    units.append(Unit(F, 'MirrorWriter.write', {'self': ObjT(MW), 'data': BYTES}, 'C09', requires=mw_inv, ghost_init=mghost,
        ensures=[('appends-exactly-the-data', lambda o, n, r: z3.And(z3.Select(fs.co(n.st), mw_path(o)) == z3.Concat(z3.Select(fs.co(o.st), mw_path(o)), o.data.z), fstate(n) == 0))],
        ensures_exc=[('still-open', '*', lambda o, n: fstate(n) == 0)], raises={'OSError': True}, note='RECV[c] of the reference model is the content of the mirror file'))
    units.append(Unit(F, 'MirrorWriter.commit', {'self': ObjT(MW)}, 'C09', ghost_init=mghost,
        requires=lambda s: mw_inv(s) + [('received-the-whole-source-stream', z3.And(G(s.st, 'SRC_EOF'), z3.Select(fs.co(s.st), mw_path(s)) == G(s.st, 'SRC')))],
        ensures=[('finalized-as-committed', lambda o, n, r: fstate(n) == 1)], ensures_exc=[('finalized-as-committed-or-still-open', '*', lambda o, n: z3.Or(fstate(n) == 1, fstate(n) == 0))],
        raises={k: True for k in MERR}, note='success is signalled to the upload context only with the complete stream in the file'))
    units.append(Unit(F, 'MirrorWriter.abort', {'self': ObjT(MW)}, 'C09', requires=mw_inv, ghost_init=mghost,
        ensures=[('finalized-as-aborted', lambda o, n, r: fstate(n) == 2)], ensures_exc=[('finalized-as-aborted-or-still-open', '*', lambda o, n: z3.Or(fstate(n) == 2, fstate(n) == 0))],
        raises={'OSError': True}, note='failure is signalled to the upload context (which removes its temporary file)'))
    units.append(Watch(F, 'MirrorWriter.__init__', 'enters the upload context and remembers its __exit__ as finalizer (object invariant of MirrorWriter assumed from here)'))
    return units
