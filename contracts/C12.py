# C12 - Checkouts converge to the recipe and never destroy user work  (never-destroy clause at Bob's level)
#
# Effect contracts (Dyn mode) on the code that may move or delete source workspaces:
#  * LocalBuilder._cookCheckoutStep: no destructive file-system call is reachable at all; an existing SCM directory is
#    only ever renamed into the attic, and only when the attic is enabled; an in-place switch is attempted only after
#    canSwitch() said yes; a new checkout that collides with an existing path raises before anything runs.
#  * clean.checkRegularSource: answers True only if EVERY recorded SCM of the workspace is expendable.
#  * ScmStatus.expendable: implies none of modified/error/switched/unpushed_main/unpushed_local/unknown.
#  * clean.doClean: with --dry-run nothing is removed and no state is changed.
# Convergence ("equals a fresh checkout") and the truth of git's status output depend on git: not decided here.
import ast, z3
from pyvc.api import *
from pyvc.ty import *
from pyvc.core import Raise, Exc, Unsupported
from pyvc.view import SV, W
from pyvc import dyn
from pyvc.dyn import DYN, D

FB = 'pym/bob/builder.py'; FC = 'pym/bob/cmds/build/clean.py'; FS_ = 'pym/bob/scm/scm.py'
TRUTHY = z3.Function('truthy_Dyn', D, z3.BoolSort())

def build(reg):
    which = getattr(reg, 'current_unit_name', None)
    units = []
    # ------------------------------------------------------------- ScmStatus.expendable (plain mode)
    SS = 'bob.scm.scm.ScmStatus'
    # ScmTaint members are read from the real enum body: their values are the single letter flags
    LETTER = {'attic': 'A', 'collides': 'C', 'error': 'E', 'modified': 'M', 'new': 'N', 'overridden': 'O', 'switched': 'S', 'unknown': '?',
              'unpushed_main': 'U', 'unpushed_local': 'u'}
    reg.classes[SS] = ClassSpec(SS, {'_ScmStatus__flags': DictT(STR, STR)})
    reg.inline_patterns += ['bob.scm.scm.ScmStatus.flags', 'bob.scm.scm.ScmStatus.dirty']
    reg.trusted.append('ScmTaint enum members are identified with their (distinct) letter values as written in the enum body')
    def exp_post(o, n, r):
        f = o.self.f('__flags')
        bad = [LETTER[x] for x in ('modified', 'error', 'switched', 'unpushed_main', 'unpushed_local', 'unknown')]
        return z3.Implies(r.z, z3.And(*[z3.Not(f.has_key(z3.StringVal(b))) for b in bad]))
    units.append(Unit(FS_, 'ScmStatus.expendable', {'self': ObjT(SS)}, 'C12', ensures=[('expendable-implies-no-user-work-flag', exp_post)], result=BOOL,
                      note='expendable => not modified/error/switched/unpushed/unknown'))
    def dirty_post(o, n, r):
        f = o.self.f('__flags')
        bad = [LETTER[x] for x in ('modified', 'error', 'switched', 'unpushed_main')]
        return r.z == z3.Or(*[f.has_key(z3.StringVal(b)) for b in bad])
    units.append(Unit(FS_, 'ScmStatus.dirty', {'self': ObjT(SS)}, 'C12', ensures=[('dirty-iff-flag', dirty_post)], result=BOOL))
    for u_ in units: u_.dyn_literals = False

    # ------------------------------------------------------------- Dyn mode units
    dyn.install(reg)
    reg.tracked_names = {'removePath', 'emptyDirectory', 'rmtree', 'unlink', 'remove', 'rename', 'replace', 'canSwitch', '__runScmSwitch',
                         '_LocalBuilder__runScmSwitch', 'checkSCM', 'delDirectoryState', 'delAtticDirectoryState', 'exists'}
    def ghost_init(eng, st):
        st.ghost['CANSWITCH'] = V(DYN, fresh_z(DYN, 'noCanSwitchYet')); st.ghost['CS_CALLED'] = mk_bool(False)
        st.ghost['EXISTS_SCMPATH'] = mk_bool(False)
    def forbid(name):
        @reg.model('Dyn.' + name)
        def m(eng, st, args, kw, node):
            u = reg.current_unit
            if getattr(u, 'forbid_destructive', False):
                eng.oblige(st, 'never-destroy:%s@%s' % (name, node.lineno), False, 'effect', node, note='destructive call %s reachable in %s' % (name, u.name))
            elif getattr(u, 'dry_run_guard', False):
                args_v = st.frames[-1].get('args')
                if args_v is None: raise KeyError('local args (proof hint) not found')
                dry = TRUTHY(dyn.ATTR(args_v.z, z3.StringVal('dry_run')))
                eng.oblige(st, 'dry-run-mutates-nothing:%s@%s' % (name, node.lineno), z3.Not(dry), 'effect', node)
            return [(st, mk_none())]
    for n_ in ('removePath', 'emptyDirectory', 'rmtree', 'unlink', 'remove', 'replace', 'delDirectoryState', 'delAtticDirectoryState'): forbid(n_)
    @reg.model('Dyn.rename')
    def m_rename(eng, st, args, kw, node):
        u = reg.current_unit
        if getattr(u, 'forbid_destructive', False):
            me = st.frames[-1].get('self')
            attic = TRUTHY(dyn.ATTR(me.z, z3.StringVal('_LocalBuilder__attic')))
            eng.oblige(st, 'move-to-attic-only-if-attic-enabled@%s' % node.lineno, attic, 'effect', node)
            st.ghost['RENAMED'] = mk_bool(True)
        return [(st, mk_none())]
    @reg.model('Dyn.canSwitch')
    def m_canswitch(eng, st, args, kw, node):
        r = dyn.fresh('canSwitch'); st.ghost['CANSWITCH'] = r; st.ghost['CS_CALLED'] = mk_bool(True); return [(st, r)]
    @reg.model('Dyn._LocalBuilder__runScmSwitch', 'Dyn.__runScmSwitch')
    def m_switch(eng, st, args, kw, node):
        eng.oblige(st, 'switch-only-after-canSwitch@%s' % node.lineno, z3.And(st.ghost['CS_CALLED'].z, TRUTHY(st.ghost['CANSWITCH'].z)), 'effect', node)
        return [(st, dyn.fresh('didSwitch'))]
    reg.pure_names |= {'Dyn.canSwitch'}
    P = {'self': DYN, 'checkoutStep': DYN, 'depth': DYN}
    u = Unit(FB, 'LocalBuilder._cookCheckoutStep', P, 'C12', ghost_init=ghost_init, ensures=[], raises={'bob.errors.BuildError': True, 'AssertionError': True},
             result=None, max_paths=20000, note='switch-or-attic loop, collision check: never a destructive call on a source workspace')
    u.forbid_destructive = True
    units.append(u)

    # checkRegularSource: True only if all SCMs are expendable
    EXPD = z3.Function('SCM_EXPENDABLE', D, z3.BoolSort())
    @reg.model('Dyn.checkSCM')
    def m_checkscm(eng, st, args, kw, node):
        # args: [module-recv, workspace, scmDir, scmSpec, verbose]; result depends on the scm directory entry
        return [(st, mk_bool(EXPD(dyn.dynify(eng, st, args[2]))))]
    reg.pure_names |= {'Dyn.checkSCM'}
    def crs_loop(cur, old, k, L):
        lt = ListT(DYN); i = z3.Int('ci')
        ret = cur.ret.z
        # ret still True => every entry seen so far is expendable (entry = (scmDir, (digest, spec)); scmDir = ITEM(entry,0))
        return [('ret-implies-all-expendable-so-far', z3.Implies(ret, z3.ForAll([i], z3.Implies(z3.And(0 <= i, i < k), EXPD(dyn.ITEM(list_get(lt, L, i), z3.IntVal(0)))))))]
    def crs_post(o, n, r):
        if not n.has('__iter1'): raise KeyError('loop #1 (proof hint) not found')
        lt = ListT(DYN); L = n.var('__iter1').z; i = z3.Int('pi')
        return z3.Implies(r.z, z3.ForAll([i], z3.Implies(z3.And(0 <= i, i < list_len(lt, L)), EXPD(dyn.ITEM(list_get(lt, L, i), z3.IntVal(0))))))
    units.append(Unit(FC, 'checkRegularSource', {'workspace': DYN, 'verbose': DYN}, 'C12', ghost_init=ghost_init,
        ensures=[('true-only-if-every-scm-is-expendable', crs_post)], loops={1: LoopSpec(inv=crs_loop)}, result=BOOL, locals_types={'ret': BOOL},
        note='source workspaces may only be deleted if all of their SCMs are expendable'))
    ud = Unit(FC, 'doClean', {'argv': DYN, 'bobRoot': DYN}, 'C12', ghost_init=ghost_init, ensures=[], result=None, max_paths=20000,
              raises={'bob.errors.BuildError': True}, note='--dry-run removes nothing and changes no state')
    ud.dry_run_guard = True; ud.tracked = {'removePath', 'delDirectoryState', 'delAtticDirectoryState', 'rmtree', 'unlink'}
    units.append(ud)
    units += [Watch('pym/bob/scm/git.py', 'GitScm.canSwitch', 'switch feasibility'), Watch('pym/bob/scm/git.py', 'GitScm.switch', 'in-place switch (git semantics)'),
              Watch('pym/bob/scm/git.py', 'GitScm.__checkoutTagOnBranch', 'contains-check before reset --keep'), Watch(FC, 'checkSCM', 'status of one SCM'),
              Watch(FC, 'collectPaths', 'paths in use'), Watch(FB, 'AtticTracker.affected', 'nested SCM tracking'),
              Watch('pym/bob/scm/imp.py', 'ImportScm.invoke', 'import prune+copy'), Watch('pym/bob/scm/url.py', 'UrlScm.invoke', 'url digest check')]
    return units
