# C11 - Directory hashes are content exact and cache transparent  (pym/bob/utils.py DirHasher)
#
# Cache transparency as a representation invariant of the merge-walk over the on-disk index:
#   TRUTHFUL(rec)  :=  rec.digest == DIG(rec.name, rec.stat...)      (DIG = what `process` computes for a file
#                                                                    with that name and stat; "stat identifies content"
#                                                                    is the property's own premise)
# FileIndex.check returns DIG(name, st) in BOTH branches and leaves the prefetched record truthful; only truthful
# records are ever written (precondition of __writeEntry, proved at its call site), records are encoded with
# the documented field order.  Content exactness of __hashDir is covered by the bounded native search only.
import ast, z3
from pyvc.api import *
from pyvc.ty import *
from pyvc.core import Raise, Exc
from pyvc.view import SV, W
from theories import fs

F = 'pym/bob/utils.py'
FI = 'bob.utils.DirHasher.FileIndex'; STAT = 'bob.utils.DirHasher.FileIndex.Stat'; NI = 'bob.utils.DirHasher.NullIndex'
B = sort_of(BYTES); I = z3.IntSort()
STR_ = OpaqueT('StatResult'); PROC = OpaqueT('Processor')
DIG = z3.Function('DIG', sort_of(PROC), B, I, I, I, I, I, I, B)          # process, name, ctime, mtime, dev, ino, mode, size
MASKINO = z3.Function('MASKINO', I, I)
SF = {n: z3.Function('ST_' + n, sort_of(STR_), I) for n in ('st_ctime_ns', 'st_mtime_ns', 'st_dev', 'st_ino', 'st_mode', 'st_size')}
PACKREC = z3.Function('PACK_qqQQLQ20sH', I, I, I, I, I, I, B, I, B)
JOIN = z3.Function('PATH_JOIN', B, B, B)
PROCF = z3.Function('PROCESS', sort_of(PROC), B, B)

def build(reg):
    fs.install(reg)
    reg.classes[STAT] = ClassSpec(STAT, {'name': BYTES, 'ctime': INT, 'mtime': INT, 'dev': INT, 'ino': INT, 'mode': INT, 'size': INT, 'digest': BYTES})
    reg.classes[FI] = ClassSpec(FI, {'_FileIndex__cachePath': STR, '_FileIndex__cacheDir': STR, '_FileIndex__inPos': INT, '_FileIndex__inPosOld': INT,
        '_FileIndex__outFile': OptT(OpaqueT('OutFile')), '_FileIndex__inFile': OptT(OpaqueT('InFile')), '_FileIndex__current': ObjT(STAT), '_FileIndex__mismatch': BOOL})
    reg.classes[NI] = ClassSpec(NI, {})
    reg.always_truthy = {'OutFile', 'InFile'}
    reg.trusted += [
        'premise of the property: stat data identifies content, i.e. process(path) is a function DIG(process, name, ctime, mtime, dev, ino, mode, size)',
        'ASSUMED contract of FileIndex.__readEntry: the old index file consists of truthful records (only truthful records are ever written: proved precondition of __writeEntry; the byte-level prefix copy up to __inPosOld is not modelled)',
        'os.stat_result fields are uninterpreted functions of the stat object; maskIno is an uninterpreted function; struct.pack(CACHE_ENTRY_FMT, ...) is an uninterpreted function of its 8 fields',
    ]
    for n, f in SF.items():
        reg.attr_models['StatResult.' + n] = (lambda f: (lambda eng, st, b, node: [(st, mk_int(f(b.z)))]))(f)
    @reg.model('bob.utils.maskIno')
    def maskino(eng, st, args, kw, node): return [(st, mk_int(MASKINO(args[0].z)))]
    @reg.model('os.path.join')
    def join(eng, st, args, kw, node):
        if args[0].t == BYTES: return [(st, V(BYTES, JOIN(args[0].z, args[1].z)))]
        return None
    @reg.model('Processor.__call__')
    def proc(eng, st, args, kw, node):
        st.trace.append(('process', args[1].z))
        return [(st, V(BYTES, PROCF(args[0].z, args[1].z)))]
    reg.pure_names |= {'bob.utils.maskIno', 'os.path.join', 'Processor.__call__', 'struct.pack'}
    reg.constants['bob.utils.DirHasher.FileIndex.CACHE_ENTRY_FMT'] = lambda e, st: mk_str('=qqQQLQ20sH')
    reg.constants['bob.utils.DirHasher.FileIndex.SIGNATURE'] = lambda e, st: mk_bytes(b'BOB2')
    @reg.model('struct.pack')
    def pack(eng, st, args, kw, node):
        if z3.is_string_value(args[0].z) and args[0].z.as_string() == '=qqQQLQ20sH' and len(args) == 9:
            return [(st, V(BYTES, PACKREC(*[a.z for a in args[1:]])))]
        return None
    # output file (NamedTemporaryFile) as ghost byte sequence
    @reg.model('bob.utils.NamedTemporaryFile', 'tempfile.NamedTemporaryFile')
    def ntf(eng, st, args, kw, node):
        st.ghost['out'] = V(BYTES, z3.Empty(B)); st.ghost['out_created'] = mk_bool(True)
        return [(st, V(OpaqueT('OutFile'), z3.Const('the_outfile', sort_of(OpaqueT('OutFile')))))]
    @reg.model('OutFile.write')
    def ow(eng, st, args, kw, node):
        st.ghost['out'] = V(BYTES, z3.Concat(st.ghost['out'].z, args[1].z)); return [(st, mk_int(z3.Length(args[1].z)))]
    INPREFIX = z3.Function('INFILE_PREFIX', I, B)
    @reg.model('InFile.tell')
    def it(eng, st, args, kw, node): return [(st, mk_int(fresh_z(INT, 'tell')))]
    @reg.model('InFile.seek')
    def isk(eng, st, args, kw, node): return [(st, mk_int(args[1].z))]
    @reg.model('InFile.read')
    def ir(eng, st, args, kw, node):
        eng.assume_note('InFile.read(n) after seek(0) returns the first n bytes of the old index (uninterpreted INFILE_PREFIX(n))')
        return [(st, V(BYTES, INPREFIX(args[1].z)))]

    def truthful(proc_z, rec):
        return rec.digest.z == DIG(proc_z, rec.name.z, rec.ctime.z, rec.mtime.z, rec.dev.z, rec.ino.z, rec.mode.z, rec.size.z)
    def dig_of(proc_z, name_z, st_z):
        return DIG(proc_z, name_z, SF['st_ctime_ns'](st_z), SF['st_mtime_ns'](st_z), SF['st_dev'](st_z), MASKINO(SF['st_ino'](st_z)), SF['st_mode'](st_z), SF['st_size'](st_z))
    THEPROC = z3.Const('the_process', sort_of(PROC))

    def ghost_init(eng, st):
        st.ghost['out'] = V(BYTES, fresh_z(BYTES, 'out')); st.ghost['out_created'] = V(BOOL, fresh_z(BOOL, 'out_created'))
    reg.ghost_const |= set()

    # __readEntry: assumed contract (see trusted base)
    def re_post(o, n, r):
        cur = n.self.f('__current')
        return z3.And(z3.Implies(r.z, truthful(THEPROC, cur)),
                      z3.Implies(z3.Not(r.z), z3.And(*[cur.f(x).z == o.self.f('__current').f(x).z for x in ('name', 'ctime', 'mtime', 'dev', 'ino', 'mode', 'size', 'digest')])),
                      n.self.f('__mismatch').z == o.self.f('__mismatch').z)
    reg.add(Unit(F, 'DirHasher.FileIndex.__readEntry', {'self': ObjT(FI)}, 'C11', ensures=[('truthful', re_post)], result=BOOL,
                 modifies=['self.__inPos', 'self.__inPosOld', 'self.__current'], verify=False, modifies_ghost=False))

    units = []
    # __match: True only if name and every stat field agree; the prefetched record stays truthful
    def m_req(s): return [('current-truthful', truthful(THEPROC, s.self.f('__current')))]
    def m_post(o, n, r):
        cur = n.self.f('__current'); st_ = o.var('st').z
        agree = z3.And(cur.name.z == o.name.z, cur.ctime.z == SF['st_ctime_ns'](st_), cur.mtime.z == SF['st_mtime_ns'](st_), cur.dev.z == SF['st_dev'](st_),
                       cur.ino.z == MASKINO(SF['st_ino'](st_)), cur.mode.z == SF['st_mode'](st_), cur.size.z == SF['st_size'](st_))
        return z3.And(r.z == agree, truthful(THEPROC, cur), n.self.f('__mismatch').z == o.self.f('__mismatch').z)
    def m_loop(cur, old):
        return [('current-truthful', truthful(THEPROC, cur.self.f('__current'))), ('frame', cur.self.f('__mismatch').z == old.self.f('__mismatch').z)]
    units.append(Unit(F, 'DirHasher.FileIndex.__match', {'self': ObjT(FI), 'name': BYTES, 'st': STR_}, 'C11', requires=m_req, ghost_init=ghost_init,
        ensures=[('match-iff-name-and-all-stat-fields-agree', m_post)], loops={1: LoopSpec(inv=m_loop)}, result=BOOL,
        modifies=['self.__inPos', 'self.__inPosOld', 'self.__current'], modifies_ghost=False, note='merge-walk: advance the old index up to `name`'))
    reg.add(units[-1])

    # __writeEntry: only truthful records may be written; record layout
    def w_req(s): return [('record-is-truthful', s.digest.z == dig_of(THEPROC, s.name.z, s.var('st').z))]
    def w_post(o, n, r):
        st_ = o.var('st').z
        rec = z3.Concat(PACKREC(SF['st_ctime_ns'](st_), SF['st_mtime_ns'](st_), SF['st_dev'](st_), MASKINO(SF['st_ino'](st_)), SF['st_mode'](st_),
                                SF['st_size'](st_), o.digest.z, z3.Length(o.name.z)), o.name.z)
        return z3.And(z3.SuffixOf(rec, n.ghost.out.z),
                      z3.Implies(z3.Not(o.self.f('__outFile').is_none()), n.ghost.out.z == z3.Concat(o.ghost.out.z, rec)))
    units.append(Unit(F, 'DirHasher.FileIndex.__writeEntry', {'self': ObjT(FI), 'name': BYTES, 'st': STR_, 'digest': BYTES}, 'C11', requires=w_req,
        ghost_init=ghost_init, ensures=[('record-appended-with-documented-layout', w_post)], modifies=['self.__outFile'],
        note='new index = copied prefix + appended records'))
    reg.add(units[-1])

    # check: the cache is transparent
    def c_req(s):
        return m_req(s) + [('process-is-the-hash-function', s.process.z == THEPROC),
                           ('stat-identifies-content', z3.And(PROCF(THEPROC, JOIN(s.prefix.z, s.name.z)) == dig_of(THEPROC, s.name.z, s.var('st').z),
                                                              PROCF(THEPROC, s.prefix.z) == dig_of(THEPROC, s.name.z, s.var('st').z)))]
    def c_post(o, n, r):
        return z3.And(r.z == dig_of(THEPROC, o.name.z, o.var('st').z), truthful(THEPROC, n.self.f('__current')),
                      z3.Implies(o.self.f('__mismatch').z, n.self.f('__mismatch').z))
    units.append(Unit(F, 'DirHasher.FileIndex.check', {'self': ObjT(FI), 'prefix': BYTES, 'name': BYTES, 'st': STR_, 'process': PROC}, 'C11',
        requires=c_req, ghost_init=ghost_init, ensures=[('cached-digest-equals-computed-digest', c_post)], result=BYTES,
        modifies=['self.__inPos', 'self.__inPosOld', 'self.__current', 'self.__mismatch', 'self.__outFile'],
        note='returns process(path) whether or not the index matched; the look-ahead record of the old index is never altered'))
    def n_post(o, n, r): return r.z == z3.If(z3.Length(o.name.z) > 0, PROCF(o.process.z, JOIN(o.prefix.z, o.name.z)), PROCF(o.process.z, o.prefix.z))
    units.append(Unit(F, 'DirHasher.NullIndex.check', {'self': ObjT(NI), 'prefix': BYTES, 'name': BYTES, 'st': STR_, 'process': PROC}, 'C11',
        ghost_init=ghost_init, ensures=[('uncached-is-process', n_post)], result=BYTES))
    units += [Watch(F, 'DirHasher.__hashDir', 'scandir walk, sorted entries, digest over mode+entry digest+name (comprehension/sorted not in the verified subset yet)'),
              Watch(F, 'DirHasher.__hashEntry', 'per file type digest'), Watch(F, 'DirHasher.__hashLink', 'link target digest'), Watch(F, 'hashFile', 'content digest'),
              Watch(F, 'DirHasher.FileIndex.__readEntry', 'binary record reader (assumed contract)'), Watch(F, 'DirHasher.FileIndex.open', 'index signature check'),
              Watch(F, 'DirHasher.FileIndex.close', 'atomic replace of the index'), Watch(F, 'DirHasher.hashDirectory', 'open/close index around the walk')]
    return units
