# C11 - Directory hashes are content exact and cache transparent  (pym/bob/utils.py DirHasher)
#
# Cache transparency as a representation invariant of the merge-walk over the on-disk index:
#   TRUTHFUL(rec)  :=  rec.digest == DIG(rec.name, rec.stat...)      (DIG = what `process` computes for a file
#                                                                    with that name and stat; "stat identifies content"
#                                                                    is the property's own premise)
# FileIndex.check returns DIG(name, st) in BOTH branches and leaves the prefetched record truthful; only truthful
# records are ever written (precondition of __writeEntry, proved at its call site), records are encoded with
# the documented field order.  Content exactness of __hashDir is covered by the bounded native search only.
import ast, z3
from pyvc.api import *
from pyvc.ty import *
from pyvc.core import Raise, Exc
from pyvc.view import SV, W
from theories import fs

F = 'pym/bob/utils.py'
FI = 'bob.utils.DirHasher.FileIndex'; STAT = 'bob.utils.DirHasher.FileIndex.Stat'; NI = 'bob.utils.DirHasher.NullIndex'
B = sort_of(BYTES); I = z3.IntSort()
STR_ = OpaqueT('StatResult'); PROC = OpaqueT('Processor')
DIG = z3.Function('DIG', sort_of(PROC), B, I, I, I, I, I, I, B)          # process, name, ctime, mtime, dev, ino, mode, size
MASKINO = z3.Function('MASKINO', I, I)
SF = {n: z3.Function('ST_' + n, sort_of(STR_), I) for n in ('st_ctime_ns', 'st_mtime_ns', 'st_dev', 'st_ino', 'st_mode', 'st_size')}
PACKREC = z3.Function('PACK_qqQQLQ20sH', I, I, I, I, I, I, B, I, B)
JOIN = z3.Function('PATH_JOIN', B, B, B)
PROCF = z3.Function('PROCESS', sort_of(PROC), B, B)

THEPROC = z3.Const('the_process', sort_of(PROC))

def build(reg):
    fs.install(reg)
    reg.classes[STAT] = ClassSpec(STAT, {'name': BYTES, 'ctime': INT, 'mtime': INT, 'dev': INT, 'ino': INT, 'mode': INT, 'size': INT, 'digest': BYTES})
    reg.classes[FI] = ClassSpec(FI, {'_FileIndex__cachePath': STR, '_FileIndex__cacheDir': STR, '_FileIndex__inPos': INT, '_FileIndex__inPosOld': INT,
        '_FileIndex__outFile': OptT(OpaqueT('OutFile')), '_FileIndex__inFile': OptT(OpaqueT('InFile')), '_FileIndex__current': ObjT(STAT), '_FileIndex__mismatch': BOOL})
    reg.classes[NI] = ClassSpec(NI, {})
    reg.always_truthy = {'OutFile', 'InFile'}
    reg.trusted += [
        'premise of the property: stat data identifies content, i.e. process(path) is a function DIG(process, name, ctime, mtime, dev, ino, mode, size)',
        'file invariant of the old index (axiom): signature, then complete records, each truthful; it is closed under what __writeEntry produces (record-aligned prefix of the old file ++ appended truthful records: both proved), the induction over runs itself is not mechanised',
        'struct.unpack(CACHE_ENTRY_FMT, raw): 8 uninterpreted field functions of raw; calcsize == 66',
        'os.stat_result fields are uninterpreted functions of the stat object; maskIno is an uninterpreted function; struct.pack(CACHE_ENTRY_FMT, ...) is an uninterpreted function of its 8 fields',
    ]
    for n, f in SF.items():
        reg.attr_models['StatResult.' + n] = (lambda f: (lambda eng, st, b, node: [(st, mk_int(f(b.z)))]))(f)
    @reg.model('bob.utils.maskIno')
    def maskino(eng, st, args, kw, node): return [(st, mk_int(MASKINO(args[0].z)))]
    @reg.model('os.path.join')
    def join(eng, st, args, kw, node):
        if args[0].t == BYTES: return [(st, V(BYTES, JOIN(args[0].z, args[1].z)))]
        return None
    @reg.model('Processor.__call__')
    def proc(eng, st, args, kw, node):
        st.trace.append(('process', args[1].z))
        return [(st, V(BYTES, PROCF(args[0].z, args[1].z)))]
    reg.pure_names |= {'bob.utils.maskIno', 'os.path.join', 'Processor.__call__', 'struct.pack'}
    reg.constants['bob.utils.DirHasher.FileIndex.CACHE_ENTRY_FMT'] = lambda e, st: mk_str('=qqQQLQ20sH')
    reg.constants['bob.utils.DirHasher.FileIndex.SIGNATURE'] = lambda e, st: mk_bytes(b'BOB2')
    @reg.model('struct.pack')
    def pack(eng, st, args, kw, node):
        if z3.is_string_value(args[0].z) and args[0].z.as_string() == '=qqQQLQ20sH' and len(args) == 9:
            return [(st, V(BYTES, PACKREC(*[a.z for a in args[1:]])))]
        return None
    # output file (NamedTemporaryFile) as ghost byte sequence
    @reg.model('bob.utils.NamedTemporaryFile', 'tempfile.NamedTemporaryFile')
    def ntf(eng, st, args, kw, node):
        st.ghost['out'] = V(BYTES, z3.Empty(B)); st.ghost['out_created'] = mk_bool(True)
        return [(st, V(OpaqueT('OutFile'), z3.Const('the_outfile', sort_of(OpaqueT('OutFile')))))]
    @reg.model('OutFile.write')
    def ow(eng, st, args, kw, node):
        st.ghost['out'] = V(BYTES, z3.Concat(st.ghost['out'].z, args[1].z)); return [(st, mk_int(z3.Length(args[1].z)))]
    # old index file as a ghost byte string with a read cursor
    INDATA = z3.Const('INFILE_DATA', B)
    def incur(st): return st.ghost['incur'].z
    @reg.model('InFile.tell')
    def it(eng, st, args, kw, node): return [(st, mk_int(incur(st)))]
    @reg.model('InFile.seek')
    def isk(eng, st, args, kw, node):
        st.ghost['incur'] = mk_int(args[1].z); return [(st, mk_int(args[1].z))]
    @reg.model('InFile.read')
    def ir(eng, st, args, kw, node):
        n = args[1].z; c = incur(st); ln = z3.Length(INDATA)
        avail = z3.If(c >= ln, 0, ln - c); take = z3.If(n < avail, z3.If(n < 0, 0, n), avail)
        st.ghost['incur'] = mk_int(c + take)
        return [(st, V(BYTES, z3.SubSeq(INDATA, c, take)))]
    UNP = [z3.Function('UNPACK_qqQQLQ20sH_%d' % i, B, (B if i == 6 else I)) for i in range(8)]
    SIZE = 66
    reg.constants['bob.utils.DirHasher.FileIndex.CACHE_ENTRY_SIZE'] = lambda e, st: mk_int(SIZE)
    @reg.model('struct.unpack')
    def unpack(eng, st, args, kw, node):
        if z3.is_string_value(args[0].z) and args[0].z.as_string() == '=qqQQLQ20sH':
            raw = args[1].z
            return [(st, V(PyTupT(8), [V(BYTES if i == 6 else INT, UNP[i](raw)) for i in range(8)]))]
        return None
    reg.pure_names |= {'struct.unpack', 'InFile.tell'}
    ALIGNED = z3.Function('INFILE_RECORD_BOUNDARY', I, z3.BoolSort())
    def rec_at(p):
        raw = z3.SubSeq(INDATA, p, SIZE); nl = UNP[7](raw)
        return raw, nl, z3.SubSeq(INDATA, p + SIZE, nl)
    def file_inv():
        """the old index was written by __writeEntry only: signature, then complete truthful records (see DESIGN: closed under
        'record-aligned prefix ++ appended truthful records', which is what __writeEntry produces)"""
        p = z3.Int('fp'); raw, nl, name = rec_at(p)
        return [ALIGNED(4),
                z3.ForAll([p], z3.Implies(z3.And(ALIGNED(p), p + SIZE <= z3.Length(INDATA)),
                    z3.And(nl >= 0, p + SIZE + nl <= z3.Length(INDATA), ALIGNED(p + SIZE + nl), p >= 4,
                           UNP[6](raw) == DIG(THEPROC, name, UNP[0](raw), UNP[1](raw), UNP[2](raw), UNP[3](raw), UNP[4](raw), UNP[5](raw)))),
                    patterns=[ALIGNED(p)])]
    reg.axioms['always:old-index-file-invariant'] = file_inv
    def cursor_inv(v):
        """reader invariant of the object: the prefetch position is a record boundary and the file cursor stands there"""
        me = v.self
        return z3.Implies(z3.Not(me.f('__inFile').is_none()), z3.And(ALIGNED(me.f('__inPos').z), ALIGNED(me.f('__inPosOld').z),
                                                                   z3.Or(incur(v.st) == me.f('__inPos').z, z3.And(incur(v.st) >= me.f('__inPos').z, z3.Length(INDATA) - incur(v.st) < SIZE)),      # at the boundary, or the end of the file was hit me.f('__inPosOld').z <= me.f('__inPos').z,
                                                                   me.f('__inPos').z <= z3.Length(INDATA), me.f('__inPosOld').z >= 4))
    def truthful(proc_z, rec):
        return rec.digest.z == DIG(proc_z, rec.name.z, rec.ctime.z, rec.mtime.z, rec.dev.z, rec.ino.z, rec.mode.z, rec.size.z)
    def dig_of(proc_z, name_z, st_z):
        return DIG(proc_z, name_z, SF['st_ctime_ns'](st_z), SF['st_mtime_ns'](st_z), SF['st_dev'](st_z), MASKINO(SF['st_ino'](st_z)), SF['st_mode'](st_z), SF['st_size'](st_z))

    def ghost_init(eng, st):
        st.ghost['out'] = V(BYTES, fresh_z(BYTES, 'out')); st.ghost['out_created'] = V(BOOL, fresh_z(BOOL, 'out_created'))
        st.ghost['incur'] = V(INT, fresh_z(INT, 'incur'))
    reg.ghost_const |= set()

    # __readEntry: decoding of one record, proved against the file invariant
    def re_req(s): return [('cursor-at-a-record-boundary', cursor_inv(s))]
    def re_post(o, n, r):
        cur = n.self.f('__current')
        return z3.And(z3.Implies(r.z, truthful(THEPROC, cur)),
                      z3.Implies(z3.Not(r.z), z3.And(*[cur.f(x).z == o.self.f('__current').f(x).z for x in ('name', 'ctime', 'mtime', 'dev', 'ino', 'mode', 'size', 'digest')])),
                      cursor_inv(n), z3.Implies(r.z, n.self.f('__inPosOld').z == o.self.f('__inPos').z),
                      z3.Implies(z3.Not(r.z), z3.And(n.self.f('__inPos').z == o.self.f('__inPos').z, n.self.f('__inPosOld').z == o.self.f('__inPosOld').z)),
                      n.self.f('__mismatch').z == o.self.f('__mismatch').z, n.self.f('__inFile').is_none() == o.self.f('__inFile').is_none())
    u_re = Unit(F, 'DirHasher.FileIndex.__readEntry', {'self': ObjT(FI)}, 'C11', requires=re_req, ghost_init=ghost_init, ensures=[('decodes-the-next-record-of-the-old-index', re_post)], result=BOOL,
                 modifies=['self.__inPos', 'self.__inPosOld', 'self.__current'], modifies_ghost=['incur'], note='binary record reader: field order, name length, positions')
    reg.add(u_re)
    units = [u_re]
    # __match: True only if name and every stat field agree; the prefetched record stays truthful
    def m_req(s): return [('current-truthful', truthful(THEPROC, s.self.f('__current'))), ('cursor-at-a-record-boundary', cursor_inv(s))]
    def m_post(o, n, r):
        cur = n.self.f('__current'); st_ = o.var('st').z
        agree = z3.And(cur.name.z == o.name.z, cur.ctime.z == SF['st_ctime_ns'](st_), cur.mtime.z == SF['st_mtime_ns'](st_), cur.dev.z == SF['st_dev'](st_),
                       cur.ino.z == MASKINO(SF['st_ino'](st_)), cur.mode.z == SF['st_mode'](st_), cur.size.z == SF['st_size'](st_))
        return z3.And(r.z == agree, truthful(THEPROC, cur), n.self.f('__mismatch').z == o.self.f('__mismatch').z, cursor_inv(n), n.self.f('__inFile').is_none() == o.self.f('__inFile').is_none())
    def m_loop(cur, old):
        return [('current-truthful', truthful(THEPROC, cur.self.f('__current'))), ('frame', z3.And(cur.self.f('__mismatch').z == old.self.f('__mismatch').z, cur.self.f('__inFile').is_none() == old.self.f('__inFile').is_none())),
                ('cursor-at-a-record-boundary', cursor_inv(cur))]
    units.append(Unit(F, 'DirHasher.FileIndex.__match', {'self': ObjT(FI), 'name': BYTES, 'st': STR_}, 'C11', requires=m_req, ghost_init=ghost_init,
        ensures=[('match-iff-name-and-all-stat-fields-agree', m_post)], loops={1: LoopSpec(inv=m_loop)}, result=BOOL,
        modifies=['self.__inPos', 'self.__inPosOld', 'self.__current'], modifies_ghost=['incur'], note='merge-walk: advance the old index up to `name`'))
    reg.add(units[-1])

    # __writeEntry: only truthful records may be written; record layout
    def w_req(s): return [('record-is-truthful', s.digest.z == dig_of(THEPROC, s.name.z, s.var('st').z)), ('cursor-at-a-record-boundary', cursor_inv(s))]
    def w_post(o, n, r):
        st_ = o.var('st').z
        rec = z3.Concat(PACKREC(SF['st_ctime_ns'](st_), SF['st_mtime_ns'](st_), SF['st_dev'](st_), MASKINO(SF['st_ino'](st_)), SF['st_mode'](st_),
                                SF['st_size'](st_), o.digest.z, z3.Length(o.name.z)), o.name.z)
        created = o.self.f('__outFile').is_none()
        prefix = z3.If(o.self.f('__inFile').is_none(), z3.SubSeq(z3.Concat(*[z3.Unit(z3.BitVecVal(c, 8)) for c in b'BOB2']), 0, 4), z3.SubSeq(INDATA, 0, o.self.f('__inPosOld').z))
        return z3.And(z3.SuffixOf(rec, n.ghost.out.z),
                      z3.Implies(z3.Not(created), n.ghost.out.z == z3.Concat(o.ghost.out.z, rec)),
                      z3.Implies(created, n.ghost.out.z == z3.Concat(prefix, rec)),       # new index = record-aligned prefix of the old one (or the signature) ++ this record
                      cursor_inv(n), n.self.f('__inFile').is_none() == o.self.f('__inFile').is_none())
    units.append(Unit(F, 'DirHasher.FileIndex.__writeEntry', {'self': ObjT(FI), 'name': BYTES, 'st': STR_, 'digest': BYTES}, 'C11', requires=w_req,
        ghost_init=ghost_init, ensures=[('record-appended-with-documented-layout', w_post)], modifies=['self.__outFile'],
        note='new index = copied prefix + appended records'))
    reg.add(units[-1])

    # check: the cache is transparent
    def c_req(s):
        return m_req(s) + [('process-is-the-hash-function', s.process.z == THEPROC),
                           ('stat-identifies-content', z3.And(PROCF(THEPROC, JOIN(s.prefix.z, s.name.z)) == dig_of(THEPROC, s.name.z, s.var('st').z),
                                                              PROCF(THEPROC, s.prefix.z) == dig_of(THEPROC, s.name.z, s.var('st').z)))]
    def c_post(o, n, r):
        return z3.And(r.z == dig_of(THEPROC, o.name.z, o.var('st').z), truthful(THEPROC, n.self.f('__current')),
                      z3.Implies(o.self.f('__mismatch').z, n.self.f('__mismatch').z), cursor_inv(n))
    units.append(Unit(F, 'DirHasher.FileIndex.check', {'self': ObjT(FI), 'prefix': BYTES, 'name': BYTES, 'st': STR_, 'process': PROC}, 'C11',
        requires=c_req, ghost_init=ghost_init, ensures=[('cached-digest-equals-computed-digest', c_post)], result=BYTES,
        modifies=['self.__inPos', 'self.__inPosOld', 'self.__current', 'self.__mismatch', 'self.__outFile'],
        note='returns process(path) whether or not the index matched; the look-ahead record of the old index is never altered'))
    def n_post(o, n, r): return r.z == z3.If(z3.Length(o.name.z) > 0, PROCF(o.process.z, JOIN(o.prefix.z, o.name.z)), PROCF(o.process.z, o.prefix.z))
    units.append(Unit(F, 'DirHasher.NullIndex.check', {'self': ObjT(NI), 'prefix': BYTES, 'name': BYTES, 'st': STR_, 'process': PROC}, 'C11',
        ghost_init=ghost_init, ensures=[('uncached-is-process', n_post)], result=BYTES))
    units += [Watch(F, 'DirHasher.__hashDir', 'scandir walk, sorted entries, digest over mode+entry digest+name (comprehension/sorted not in the verified subset yet)'),
              Watch(F, 'DirHasher.__hashEntry', 'per file type digest'), Watch(F, 'DirHasher.__hashLink', 'link target digest'), Watch(F, 'hashFile', 'content digest'),
              Watch(F, 'DirHasher.FileIndex.open', 'index signature check'),
              Watch(F, 'DirHasher.FileIndex.close', 'atomic replace of the index'), Watch(F, 'DirHasher.hashDirectory', 'open/close index around the walk')]
    return units
