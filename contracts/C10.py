# C10 - Workspace state commits atomically and is single-writer  (pym/bob/state.py)
#
# Crash-recovery invariant method: a ghost file system records, for the three state files, existence,
# content and durability.  After EVERY file-system action of __save/__commit/finalize (each is a crash
# point, incl. failing and partial writes) the obligations J state that what the next start would recover
# (Rec: verified .new, else the committed .pickle) is one of the saved snapshots, not older than the last
# completed invocation.  Power-failure model: content that was not fsync'ed may be replaced by garbage.
import ast, z3
from pyvc.api import *
from pyvc.ty import *
from pyvc.core import Raise, Exc
from pyvc.view import SV, W
from theories import fs

F = 'pym/bob/state.py'
BS = 'bob.state._BobState'; DA = 'bob.state.DigestAdder'
B = sort_of(BYTES); S = z3.StringSort()
TBL = OpaqueT('Table')
ADLER = z3.Function('ADLER32', B, z3.IntSort(), z3.IntSort())
PACKL = z3.Function('PACK_L', z3.IntSort(), B)
TABLES = ['byNameDirs', 'results', 'inputs', 'jenkins', 'dirStates', 'layerStates', 'buildState', 'variantIds', 'atticDirs', 'storagePath']


def prefix(c): return z3.SubSeq(c, 0, z3.Length(c) - 4)
def suffix(c): return z3.SubSeq(c, z3.Length(c) - 4, 4)
def trailer_ok(c): return z3.And(z3.Length(c) >= 4, suffix(c) == PACKL(ADLER(prefix(c), 1)))
def enc(b): return z3.Concat(b, PACKL(ADLER(b, 1)))

def axioms():
    x, y = z3.Ints('px py'); b = z3.Const('adl_b', B); s = z3.Int('adl_s')
    return [z3.ForAll([x], z3.Length(PACKL(x)) == 4, patterns=[PACKL(x)]),
            z3.ForAll([x, y], z3.Implies(z3.And(PACKL(x) == PACKL(y), 0 <= x, x < 2**32, 0 <= y, y < 2**32), x == y), patterns=[z3.MultiPattern(PACKL(x), PACKL(y))]),
            z3.ForAll([b, s], z3.And(ADLER(b, s) >= 0, ADLER(b, s) < 2**32), patterns=[ADLER(b, s)])]

def build(reg):
    fs.install(reg)
    reg.axioms['always:adler-pack'] = axioms
    reg.trusted += [
        'zlib.adler32: uninterpreted function with 32-bit range and the streaming law adler32(a+b, s) == adler32(b, adler32(a, s)) (instantiated at pickle.dump)',
        'struct.pack("=L", x): fixed width 4, injective on 0..2^32-1',
        'pickle.dump(state, f): writes PICKLE(state) to f.write in two arbitrary chunks; pickle.load reads back a complete pickle and ignores the 4 trailer bytes',
        'power-failure model: content of a file that was not fsync\'ed may be arbitrary after a crash; ASSUMPTION: such torn content does not carry a valid Adler-32 trailer unless it is the intended content',
    ]
    fields = {'_BobState__path': STR, '_BobState__uncommittedPath': STR, '_BobState__asynchronous': INT, '_BobState__dirty': BOOL,
              '_BobState__createdWithVersion': INT, '_BobState__lock': OptT(STR), '_BobState__buildIdCache': NONE}
    for t in TABLES: fields['_BobState__' + t] = TBL
    reg.classes[BS] = ClassSpec(BS, fields)
    reg.classes[DA] = ClassSpec(DA, {'fd': ObjT(fs.PYFILE), 'csum': INT})
    reg.inline_patterns += ['bob.state.DigestAdder.*']
    reg.constants['bob.state._BobState.CUR_VERSION'] = lambda e, st: mk_int(9)

    def ghost_init(eng, st):
        fs.init_ghost(eng, st)
        st.ghost['SNAPS'] = V(SetT(BYTES), fresh_z(SetT(BYTES), 'SNAPS'))
        st.ghost['SEQ'] = V(DictSeq, z3.Const(fresh_name('SEQ'), z3.ArraySort(B, z3.IntSort())))
        for n in ('NEXTSEQ', 'LASTSEQ'): st.ghost[n] = V(INT, fresh_z(INT, n))
        st.ghost['CUR'] = V(BYTES, fresh_z(BYTES, 'CUR')); st.ghost['HASCUR'] = V(BOOL, fresh_z(BOOL, 'HASCUR'))
    class _DS(T):
        def key(self): return 'seq'
        def name(self): return 'SeqMap'
    DictSeq = _DS()
    from pyvc import ty as _ty
    _ty._sorts[DictSeq] = z3.ArraySort(B, z3.IntSort())

    def paths(s):
        p = s.self.f('__path').z; u = s.self.f('__uncommittedPath').z
        return p, u
    def good(st, c):
        g = st.ghost
        return z3.And(z3.Select(g['SNAPS'].z, prefix(c)), z3.Select(g['SEQ'].z, prefix(c)) >= g['LASTSEQ'].z)

    def J(st, p, u, cu):
        """crash invariant, for .new content cu (actual content or an admissible crash image of it)"""
        e, c, y = fs.ex(st), fs.co(st), fs.sy(st)
        cp = z3.Select(c, p)
        new_ok = z3.And(z3.Select(e, u), trailer_ok(cu))
        return [
            ('uncommitted-valid-implies-saved-snapshot', z3.Implies(new_ok, good(st, cu))),
            ('committed-is-durable-saved-snapshot', z3.Implies(z3.Select(e, p), z3.And(z3.Select(y, p), trailer_ok(cp), good(st, cp)))),
            # a completed invocation leaves a committed file behind, and nobody ever removes it
            ('committed-file-persists', z3.Implies(st.ghost['LASTSEQ'].z > 0, z3.Select(e, p))),
        ]
    def RUN(st, p, u):
        """process-local invariant between start-up and finalize: .new, if present, is the latest save"""
        g = st.ghost; e, c = fs.ex(st), fs.co(st); cur = g['CUR'].z
        return [
            ('new-iff-saved', g['HASCUR'].z == z3.Select(e, u)),
            ('new-is-latest-save', z3.Implies(z3.Select(e, u), z3.And(z3.Select(c, u) == enc(cur), z3.Select(g['SNAPS'].z, cur),
                                   z3.Select(g['SEQ'].z, cur) >= g['LASTSEQ'].z, z3.Select(g['SEQ'].z, cur) < g['NEXTSEQ'].z))),
            ('seq', z3.And(g['NEXTSEQ'].z >= 1, g['LASTSEQ'].z >= 0, g['LASTSEQ'].z < g['NEXTSEQ'].z)),
        ]
    def wf_paths(s):
        p, u = paths(s)
        r = [('paths', u == z3.Concat(p, z3.StringVal('.new')))]
        lk = s.self.f('__lock')
        r.append(('lock-file-is-not-a-state-file', z3.And(z3.Not(lk.opt_eq(p)), z3.Not(lk.opt_eq(u)))))
        return r

    def find_self(st):
        for fr in st.frames:
            v = fr.get('self')
            if v is not None and isinstance(v.t, ObjT) and v.t.cls == BS: return v
        return None

    def crash_hook(eng, st, what, node):
        me = find_self(st)
        if me is None: return
        p = eng.getfield(st, me, '_BobState__path').z; u = eng.getfield(st, me, '_BobState__uncommittedPath').z
        anyu = fresh_z(BYTES, 'crash_new')
        cu = z3.Select(fs.co(st), u)
        st2 = st.fork()
        st2.assume(z3.If(z3.Select(fs.sy(st2), u), anyu == cu, z3.Or(anyu == cu, z3.Not(trailer_ok(anyu)))))
        for name, z in J(st2, p, u, anyu):
            eng.oblige(st2, 'crash-after-%s@%s:%s' % (what, getattr(node, 'lineno', '?'), name), z, 'crash-invariant', node)
    reg.crash_hook = crash_hook

    # C10 specific ghost bookkeeping on top of the generic replace model
    base_replace = reg.models['bob.utils.replacePath']
    @reg.model('bob.utils.replacePath', 'os.replace')
    def replace(eng, st, args, kw, node):
        me = find_self(st)
        outs = []
        for x, o in base_replace(eng, st, args, kw, node):
            if not isinstance(o, Raise) and me is not None:
                u = eng.getfield(x, me, '_BobState__uncommittedPath').z
                dst, src = args[1].z, args[0].z
                x.ghost['CUR'] = V(BYTES, z3.If(dst == u, prefix(z3.Select(fs.co(x), u)), x.ghost['CUR'].z))
                x.ghost['HASCUR'] = V(BOOL, z3.If(dst == u, z3.BoolVal(True), z3.If(src == u, z3.BoolVal(False), x.ghost['HASCUR'].z)))
            outs.append((x, o))
        return outs
    base_unlink = reg.models['os.unlink']
    @reg.model('os.unlink')
    def unlink(eng, st, args, kw, node):
        me = find_self(st)
        outs = []
        for x, o in base_unlink(eng, st, args, kw, node):
            if not isinstance(o, Raise) and me is not None:
                u = eng.getfield(x, me, '_BobState__uncommittedPath').z
                x.ghost['HASCUR'] = V(BOOL, z3.If(args[0].z == u, z3.BoolVal(False), x.ghost['HASCUR'].z))
            outs.append((x, o))
        return outs

    @reg.model('zlib.adler32')
    def adler(eng, st, args, kw, node):
        v = args[1].z if len(args) > 1 else z3.IntVal(1)
        return [(st, mk_int(ADLER(args[0].z, v)))]
    @reg.model('struct.pack')
    def pack(eng, st, args, kw, node):
        if not z3.is_string_value(args[0].z) or args[0].z.as_string() != '=L': return None
        outs, ok = eng.guard(st, z3.And(args[1].z >= 0, args[1].z < 2**32), 'struct.error', node, 'struct.pack("=L") out of range')
        if ok is not None: outs.append((ok, V(BYTES, PACKL(args[1].z))))
        return outs
    @reg.model('struct.unpack')
    def unpack(eng, st, args, kw, node):
        if not z3.is_string_value(args[0].z) or args[0].z.as_string() != '=L': return None
        outs, ok = eng.guard(st, z3.Length(args[1].z) == 4, 'struct.error', node, 'struct.unpack("=L") needs exactly 4 bytes')
        if ok is not None:
            x = fresh_z(INT, 'unpacked'); ok.assume(z3.And(x >= 0, x < 2**32, PACKL(x) == args[1].z))
            outs.append((ok, V(TupleT(INT), tup_mk(TupleT(INT), [x]))))
        return outs
    reg.pure_names |= {'zlib.adler32', 'struct.pack', 'struct.unpack'}
    @reg.model('pickle.dump')
    def dump(eng, st, args, kw, node):
        obj, f = args
        if not isinstance(obj.t, RecT): return None
        keys = ['version'] + TABLES + ['createdWithVersion']
        if sorted(obj.z.keys()) != sorted(keys):
            raise Unsupported('state record has keys %s, contract expects %s' % (sorted(obj.z.keys()), sorted(keys)))
        PK = z3.Function('PICKLE_STATE', *([z3.IntSort()] + [sort_of(TBL)] * len(TABLES) + [z3.IntSort(), B]))
        blob = PK(*[obj.z[k].z for k in keys])
        g = st.ghost
        # ghost: the snapshot is registered as saved (a crash from now on may recover it once it is complete)
        g['SNAPS'] = V(SetT(BYTES), z3.Store(g['SNAPS'].z, blob, True))
        g['SEQ'] = V(DictSeq, z3.Store(g['SEQ'].z, blob, g['NEXTSEQ'].z))
        g['NEXTSEQ'] = V(INT, g['NEXTSEQ'].z + 1)
        g['LASTBLOB'] = V(BYTES, blob)
        c1, c2 = fresh_z(BYTES, 'chunk1'), fresh_z(BYTES, 'chunk2')
        st.assume(z3.Concat(c1, c2) == blob)
        st.assume(ADLER(z3.Concat(c1, c2), 1) == ADLER(c2, ADLER(c1, 1)))      # streaming law, instance
        outs = []
        for x, r in eng.call_special(st, f, 'write', [V(BYTES, c1)], node):
            if isinstance(r, Raise): outs.append((x, r)); continue
            for y, r2 in eng.call_special(x, f, 'write', [V(BYTES, c2)], node):
                outs.append((y, r2 if isinstance(r2, Raise) else mk_none()))
        return outs

    # ------------------------------------------------------------------ units
    def req_run(s):
        p, u = paths(s)
        return wf_paths(s) + RUN(s.st, p, u) + J(s.st, p, u, z3.Select(fs.co(s.st), u))
    def post_inv(o, n, r):
        p, u = paths(n)
        return z3.And(*[c for _, c in RUN(n.st, p, u) + J(n.st, p, u, z3.Select(fs.co(n.st), u))])

    def save_post(o, n, r):
        p, u = paths(n); g = n.ghost
        sync = o.self.f('__asynchronous').z == 0
        cur_fields = [z3.IntVal(9)] + [o.self.f('__' + t).z for t in TABLES] + [o.self.f('__createdWithVersion').z]
        PK = z3.Function('PICKLE_STATE', *([z3.IntSort()] + [sort_of(TBL)] * len(TABLES) + [z3.IntSort(), B]))
        blob = PK(*cur_fields)
        return z3.And(
            z3.Implies(sync, z3.And(z3.Select(fs.ex(n.st), u), z3.Select(fs.co(n.st), u) == enc(blob), g.CUR.z == blob, z3.Not(n.self.f('__dirty').z))),
            z3.Implies(z3.Not(sync), z3.And(n.self.f('__dirty').z, fs.ex(n.st) == fs.ex(o.st), fs.co(n.st) == fs.co(o.st))))
    units = []
    units.append(Unit(F, '_BobState.__save', {'self': ObjT(BS)}, 'C10', requires=req_run, ghost_init=ghost_init,
        ensures=[('recovery-invariants', post_inv), ('saved-snapshot-is-current-state', save_post)],
        raises={'bob.errors.ParseError': True}, ensures_exc=[('recovery-invariants', '*', lambda o, n: post_inv(o, n, None))],
        modifies=['self.__dirty'], note='write .dirty with Adler-32 trailer, atomically rename to .new; crash point after every FS action'))
    reg.add(units[-1])

    def commit_req(verify):
        def req(s):
            p, u = paths(s)
            r = wf_paths(s) + J(s.st, p, u, z3.Select(fs.co(s.st), u)) + [('verify', s.verify.z == z3.BoolVal(verify))]
            r += [('seq', z3.And(s.ghost.NEXTSEQ.z >= 1, s.ghost.LASTSEQ.z >= 0, s.ghost.LASTSEQ.z < s.ghost.NEXTSEQ.z))]
            if not verify: r += RUN(s.st, p, u)
            else: r += [('hascur', s.ghost.HASCUR.z == z3.Select(fs.ex(s.st), u))]
            return r
        return req
    def ghost_frame(o, n):
        return [n.ghost.HASCUR.z == z3.Select(fs.ex(n.st), paths(n)[1]), n.ghost.SNAPS.z == o.ghost.SNAPS.z, n.ghost.SEQ.z == o.ghost.SEQ.z,
                n.ghost.NEXTSEQ.z == o.ghost.NEXTSEQ.z, n.ghost.LASTSEQ.z == o.ghost.LASTSEQ.z, n.ghost.fs_ioerrors.z >= o.ghost.fs_ioerrors.z,
                z3.Or(z3.Not(n.ghost.HASCUR.z), n.ghost.CUR.z == o.ghost.CUR.z),
                # only the two state files are touched
                z3.ForAll([qp], z3.Implies(z3.And(qp != paths(n)[0], qp != paths(n)[1]),
                          z3.And(z3.Select(fs.ex(n.st), qp) == z3.Select(fs.ex(o.st), qp), z3.Select(fs.co(n.st), qp) == z3.Select(fs.co(o.st), qp)))),
                # without an I/O error the uncommitted file is gone afterwards
                z3.Implies(n.ghost.fs_ioerrors.z == o.ghost.fs_ioerrors.z, z3.Not(z3.Select(fs.ex(n.st), paths(n)[1]))),
                # the uncommitted file is never modified, only renamed or removed
                z3.Implies(z3.Select(fs.ex(n.st), paths(n)[1]), z3.Select(fs.co(n.st), paths(n)[1]) == z3.Select(fs.co(o.st), paths(n)[1]))]
    qp = z3.String('qp')
    def commit_post(verify):
        def post(o, n, r):
            p, u = paths(n)
            cls = [c for _, c in J(n.st, p, u, z3.Select(fs.co(n.st), u))] + ghost_frame(o, n)
            # the uncommitted file is gone afterwards or (I/O error) still the one we had
            if not verify:
                # finalize: if there was a save in this invocation and no I/O error happened, it is committed and durable
                cur = o.ghost.CUR.z
                cls.append(z3.Implies(z3.And(o.ghost.HASCUR.z, n.ghost.fs_ioerrors.z == o.ghost.fs_ioerrors.z),
                                      z3.And(z3.Select(fs.ex(n.st), p), z3.Select(fs.co(n.st), p) == enc(cur), z3.Select(fs.sy(n.st), p))))
            if verify:
                e0, c0 = fs.ex(o.st), fs.co(o.st)
                new_ok = z3.And(z3.Select(e0, u), trailer_ok(z3.Select(c0, u)))
                noio = n.ghost.fs_ioerrors.z == o.ghost.fs_ioerrors.z
                cls.append(z3.Implies(noio, z3.If(new_ok,
                    z3.And(z3.Select(fs.ex(n.st), p), z3.Select(fs.co(n.st), p) == z3.Select(c0, u)),
                    z3.And(z3.Select(fs.ex(n.st), p) == z3.Select(e0, p), z3.Select(fs.co(n.st), p) == z3.Select(c0, p)))))
            return z3.And(*cls)
        return post
    for verify in (True, False):
        units.append(Unit(F, '_BobState.__commit', {'self': ObjT(BS), 'verify': BOOL}, 'C10', name='_BobState.__commit[verify=%s]' % verify,
            requires=commit_req(verify), ghost_init=ghost_init, ensures=[('recovery-invariant', commit_post(verify))],
            note='start-up (verify) / finalize (no verify) commit: fsync + rename, discard corrupted file'))

    def fin_req(s):
        return req_run(s) + [('sync', z3.And(s.self.f('__asynchronous').z == 0, z3.Not(s.self.f('__dirty').z)))]
    def fin_post(o, n, r):
        p, u = paths(n)
        return z3.And(*[c for _, c in J(n.st, p, u, z3.Select(fs.co(n.st), u))])
    # finalize calls __commit(False) through its contract
    def commit_call_req(s):
        p, u = paths(s)
        return wf_paths(s) + J(s.st, p, u, z3.Select(fs.co(s.st), u)) + [('finalize-or-startup', z3.Or(s.verify.z, z3.And(*[c for _, c in RUN(s.st, p, u)])))]
    def commit_call_post(o, n, r):
        p, u = paths(n)
        cls = [c for _, c in J(n.st, p, u, z3.Select(fs.co(n.st), u))] + ghost_frame(o, n)
        if getattr(reg.current_unit, 'fs_infallible', False): cls.append(n.ghost.fs_ioerrors.z == o.ghost.fs_ioerrors.z)
        # start-up commit: a verified left-over .new becomes the committed file, a corrupted one is discarded
        e0, c0 = fs.ex(o.st), fs.co(o.st)
        new_ok = z3.And(z3.Select(e0, u), trailer_ok(z3.Select(c0, u)))
        noio = n.ghost.fs_ioerrors.z == o.ghost.fs_ioerrors.z
        cls.append(z3.Implies(z3.And(o.verify.z, noio), z3.If(new_ok,
            z3.And(z3.Select(fs.ex(n.st), p), z3.Select(fs.co(n.st), p) == z3.Select(c0, u)),
            z3.And(z3.Select(fs.ex(n.st), p) == z3.Select(e0, p), z3.Select(fs.co(n.st), p) == z3.Select(c0, p)))))
        return z3.And(*cls)
    reg.add(Unit(F, '_BobState.__commit', {'self': ObjT(BS), 'verify': BOOL}, 'C10', requires=commit_call_req,
                 ensures=[('recovery-invariant', commit_call_post)], verify=False))
    units.append(Unit(F, '_BobState.finalize', {'self': ObjT(BS)}, 'C10', requires=fin_req, ghost_init=ghost_init,
        ensures=[('recovery-invariant', fin_post)], note='commit without verification + unlock'))
    units[-1].fs_infallible = True
    reg.add(Unit(F, '_BobState.finalize', {'self': ObjT(BS)}, 'C10', requires=fin_req, ensures=[('recovery-invariant', fin_post)], verify=False))

    def sync_post(o, n, r):
        return z3.And(n.self.f('__asynchronous').z == o.self.f('__asynchronous').z - 1,
                      z3.Implies(n.self.f('__asynchronous').z == 0, z3.Not(n.self.f('__dirty').z)), post_inv(o, n, r))
    units.append(Unit(F, '_BobState.setSynchronous', {'self': ObjT(BS)}, 'C10',
        requires=lambda s: req_run(s) + [('balanced', s.self.f('__asynchronous').z >= 1)], ghost_init=ghost_init,
        ensures=[('dirty-state-is-flushed-when-leaving-asynchronous-mode', sync_post)], raises={'bob.errors.ParseError': True},
        note='deferred saves are flushed when the asynchronous section ends'))

    # ---- __init__: lock, recovery commit, load
    LS = OpaqueT('LoadedState')
    UNP_T = z3.Function('UNPICKLE_TABLE', B, S, sort_of(TBL)); UNP_I = z3.Function('UNPICKLE_INT', B, S, z3.IntSort())
    LS_OF = z3.Function('LOADED_FROM', sort_of(LS), B)
    LOCK = '.bob-state.lock'
    reg.constants['errno.EEXIST'] = lambda e, st: mk_int(17)
    for cname, val in (('os.O_CREAT', 64), ('os.O_EXCL', 128), ('os.O_WRONLY', 1)):
        reg.constants[cname] = (lambda v: (lambda e, st: mk_int(v)))(val)
    @reg.model('os.open')
    def os_open(eng, st, args, kw, node):
        path, flags = args[0], z3.simplify(args[1].z)
        if not z3.is_int_value(flags): return None
        fl = flags.as_long(); out = []
        if fl & 64 and fl & 128:
            x = st.fork(); x.assume(z3.Select(fs.ex(x), path.z))
            if eng.feasible(x): out.append((x, Raise(Exc('FileExistsError', [], {'errno': mk_int(17)}, 'os.open(O_CREAT|O_EXCL) of existing file'))))
            st.assume(z3.Not(z3.Select(fs.ex(st), path.z)))
        y = st.fork(); en = fresh_z(INT, 'errno'); y.assume(en != 17)
        out.append((y, Raise(Exc('OSError', [], {'errno': V(INT, en)}, 'os.open fails'))))
        if fl & 64:
            if not (fl & 128): eng.assume_note('lock file opened without O_EXCL')
            fs.set_ex(st, z3.Store(fs.ex(st), path.z, True))
        out.append((st, mk_int(fresh_z(INT, 'lockfd'))))
        return out
    @reg.model('os.close')
    def os_close(eng, st, args, kw, node): return [(st, mk_none())]
    @reg.model('pickle.load')
    def load(eng, st, args, kw, node):
        f = args[0]; p_ = eng.getfield(st, f, 'path').z; c = z3.Select(fs.co(st), p_)
        out = []
        # content that is not a complete pickle: any of the documented unpickling errors (incl. EOFError)
        x = st.fork(); x.assume(z3.Not(trailer_ok(c)))
        if eng.feasible(x):
            for cls in ('pickle.UnpicklingError', 'EOFError', 'ValueError'):
                out.append(eng.raise_(x.fork(), cls, 'pickle.load of an incomplete/garbled file'))
        st.assume(trailer_ok(c))
        v = fresh_z(LS, 'loaded'); st.assume(LS_OF(v) == prefix(c))
        out.append((st, V(LS, v)))
        return out
    reg.exc_classes['pickle.UnpicklingError'] = ['pickle.PickleError']; reg.exc_classes['UnpicklingError'] = ['pickle.PickleError']
    reg.exc_classes['pickle.PickleError'] = ['Exception']; reg.exc_classes['PickleError'] = ['Exception']
    def ls_index(eng, st, c, i, node):
        if c.t == LS and i.t == STR:
            if z3.is_string_value(i.z) and i.z.as_string() in ('version',): return [(st, mk_int(UNP_I(LS_OF(c.z), i.z)))]
            return [(st, V(TBL, UNP_T(LS_OF(c.z), i.z)))]
        return None
    reg.index_hook = ls_index
    @reg.model('LoadedState.get')
    def ls_get(eng, st, args, kw, node):
        c, k = args[0], args[1]
        if z3.is_string_value(k.z) and k.z.as_string() == 'createdWithVersion': return [(st, mk_int(UNP_I(LS_OF(c.z), k.z)))]
        return [(st, V(TBL, UNP_T(LS_OF(c.z), k.z)))]
    @reg.model('Table.values', 'Table.items')
    def tbl_values(eng, st, args, kw, node):
        eng.assume_note('version-upgrade loops over loaded tables are not modelled (iteration over an abstract table is empty)')
        return [(st, V(IterT(), []))]
    def comp_hook(eng, st, e, kind):
        eng.assume_note('version-upgrade comprehensions over loaded tables yield an abstract table')
        return [(st, V(TBL, fresh_z(TBL, 'upgraded')))]
    reg.comp_hook = comp_hook
    reg.pure_names |= {'LoadedState.get', 'Table.values', 'Table.items', 'os.path.exists'}

    def init_req(s):
        e, c = fs.ex(s.st), fs.co(s.st); p = z3.StringVal('.bob-state.pickle'); u = z3.StringVal('.bob-state.pickle.new')
        return J(s.st, p, u, z3.Select(c, u)) + [('seq', z3.And(s.ghost.NEXTSEQ.z >= 1, s.ghost.LASTSEQ.z >= 0, s.ghost.LASTSEQ.z < s.ghost.NEXTSEQ.z)),
                                                 ('hascur', s.ghost.HASCUR.z == z3.Select(e, u))]
    def init_self(eng, st): return eng.new_obj(st, BS, {})
    def init_post_loaded(o, n, r):
        # what was recovered: verified .new, else the committed file; the tables come from exactly that one file
        e0, c0 = fs.ex(o.st), fs.co(o.st); p = z3.StringVal('.bob-state.pickle'); u = z3.StringVal('.bob-state.pickle.new')
        new_ok = z3.And(z3.Select(e0, u), trailer_ok(z3.Select(c0, u)))
        rec = z3.If(new_ok, z3.Select(c0, u), z3.Select(c0, p))
        has = z3.Or(new_ok, z3.Select(e0, p))
        noio = n.ghost.fs_ioerrors.z == o.ghost.fs_ioerrors.z
        same = z3.And(*[n.self.f('__' + t).z == UNP_T(prefix(rec), z3.StringVal(t)) for t in ('results', 'inputs', 'byNameDirs')])
        newest = z3.And(UNP_I(prefix(rec), z3.StringVal('version')) > 5, UNP_I(prefix(rec), z3.StringVal('version')) <= 9)
        return z3.Implies(z3.And(has, noio, newest), z3.And(same, z3.Select(n.ghost.SNAPS.z, prefix(rec)), z3.Select(n.ghost.SEQ.z, prefix(rec)) >= n.ghost.LASTSEQ.z))
    def init_post_lock(o, n, r):
        lk = n.self.f('__lock')
        return z3.And(z3.Not(z3.Select(fs.ex(o.st), z3.StringVal(LOCK))),
                      z3.Or(lk.is_none(), z3.And(lk.opt_eq(z3.StringVal(LOCK)), z3.Select(fs.ex(n.st), z3.StringVal(LOCK)))))
    def init_exc_locked(o, n):
        # a second instance is refused and leaves the workspace of the running instance exactly as it was
        locked = z3.Select(fs.ex(o.st), z3.StringVal(LOCK))
        return z3.Implies(locked, z3.And(fs.ex(n.st) == fs.ex(o.st), fs.co(n.st) == fs.co(o.st)))
    units.append(Unit(F, '_BobState.__init__', {'self': init_self}, 'C10', requires=init_req, ghost_init=ghost_init,
        ensures=[('loads-exactly-the-recovered-snapshot', init_post_loaded), ('holds-the-lock', init_post_lock)],
        raises={'bob.errors.ParseError': True},
        ensures_exc=[('refused-instance-does-not-touch-the-workspace', '*', init_exc_locked)],
        locals_types={}, max_paths=3000,
        note='O_CREAT|O_EXCL lock; commit of a left-over verified .new; load; only ParseError may escape'))
    units[-1].fs_infallible = True

    # DigestAdder on its own: running checksum and trailer
    def da_write_post(o, n, r):
        p = n.self.fd.path.z
        return z3.And(n.self.csum.z == ADLER(o.data.z, o.self.csum.z),
                      z3.Select(fs.co(n.st), p) == z3.Concat(z3.Select(fs.co(o.st), p), o.data.z))
    units.append(Unit(F, 'DigestAdder.write', {'self': ObjT(DA), 'data': BYTES}, 'C10', ghost_init=ghost_init,
        ensures=[('csum-and-content', da_write_post)], raises={'OSError': True}, result=INT, note='checksum computed on the fly'))
    def da_exit_post(o, n, r):
        p = n.self.fd.path.z
        return z3.And(z3.Select(fs.co(n.st), p) == z3.Concat(z3.Select(fs.co(o.st), p), PACKL(o.self.csum.z)), z3.Not(r.z))
    units.append(Unit(F, 'DigestAdder.__exit__', {'self': ObjT(DA), 'exc_type': NONE, 'exc_value': NONE, 'traceback': NONE}, 'C10',
        requires=lambda s: [('csum-range', z3.And(s.self.csum.z >= 0, s.self.csum.z < 2**32))], ghost_init=ghost_init,
        ensures=[('trailer-appended', da_exit_post)], raises={'OSError': True}, result=BOOL))
    return units
