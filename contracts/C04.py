# C04 - Package graph caches are transparent: the touch discipline that decides when a computed package may be re-used.
#
# pym/bob/stringparser.py Env: every accessor that reveals information about key k (get, __getitem__, __contains__)
# records k in EVERY open touch set; touch(keys) records all keys in every set; copies share the touch stack.
# pym/bob/input.py PackageMatcher.touch: a cache hit propagates exactly the env keys to the environment's touch sets
# and the tool names to the tools' touch sets; PackageMatcher.matches answers True only if every recorded key agrees.
import ast, z3
from pyvc.api import *
from pyvc.ty import *
from pyvc.core import Raise, Exc, Unsupported
from pyvc.view import SV, W

FS_ = 'pym/bob/stringparser.py'; FI = 'pym/bob/input.py'
ENV = 'bob.stringparser.Env'; PM = 'bob.input.PackageMatcher'
VAL = OpaqueT('EnvValue')
TS = ListT(SetT(STR))

def build(reg):
    reg.classes[ENV] = ClassSpec(ENV, {'data': DictT(STR, VAL), 'touched': TS, 'funs': OpaqueT('Funs'), 'funArgs': OpaqueT('FunArgs')})
    reg.trusted += ['Env.data values are abstract; MappingProxyType/inspect and the bulk accessors (prune, filter, detach, update) are untracked by design and audited at their call sites in Recipe.prepare (watched)']
    S = z3.StringSort()
    def touched_all(new, old, keyset):
        """every touch set grew by keyset(k) and lost nothing; the stack keeps its length"""
        j = z3.Int('tj'); x = z3.String('tx')
        tn = new.self.touched; to = old.self.touched
        return z3.And(tn.len() == to.len(),
                      z3.ForAll([j, x], z3.Implies(z3.And(0 <= j, j < to.len()),
                                z3.Select(list_get(TS, tn.z, j), x) == z3.Or(z3.Select(list_get(TS, to.z, j), x), keyset(x)))))
    def loop_inv(keyset):
        def inv(cur, old, k, L):
            j = z3.Int('lj'); x = z3.String('lx')
            tn = cur.self.touched; to = old.self.touched
            return [('len', z3.And(tn.len() == to.len(), list_len(TS, L) == to.len())),
                    ('done-prefix', z3.ForAll([j, x], z3.Implies(z3.And(0 <= j, j < k), z3.Select(list_get(TS, tn.z, j), x) == z3.Or(z3.Select(list_get(TS, to.z, j), x), keyset(old, x))))),
                    ('rest-unchanged', z3.ForAll([j], z3.Implies(z3.And(k <= j, j < to.len()), list_get(TS, tn.z, j) == list_get(TS, to.z, j)))),
                    ('data-unchanged', cur.self.data.z == old.self.data.z)] + \
                   ([('keys-unchanged', cur.keys.z == old.keys.z)] if cur.has('keys') else [])
        return inv
    units = []
    key_is = lambda o, x: x == o.key.z
    u = Unit(FS_, 'Env.__touch', {'self': ObjT(ENV), 'key': STR}, 'C04', requires=lambda s: [('len', s.self.touched.len() >= 0)],
             ensures=[('key-recorded-in-every-touch-set', lambda o, n, r: touched_all(n, o, lambda x: x == o.key.z)), ('data-unchanged', lambda o, n, r: n.self.data.z == o.self.data.z)],
             loops={1: LoopSpec(inv=loop_inv(key_is))}, modifies=['self.touched'], modifies_ghost=False)
    units.append(u); reg.add(u)
    keys_are = lambda o, x: z3.Select(o.keys.z, x)
    u = Unit(FS_, 'Env.touch', {'self': ObjT(ENV), 'keys': SetT(STR)}, 'C04', requires=lambda s: [('len', s.self.touched.len() >= 0)],
             ensures=[('keys-recorded-in-every-touch-set', lambda o, n, r: touched_all(n, o, lambda x: z3.Select(o.keys.z, x))), ('data-unchanged', lambda o, n, r: n.self.data.z == o.self.data.z)],
             loops={1: LoopSpec(inv=loop_inv(keys_are))}, modifies=['self.touched'], modifies_ghost=False)
    units.append(u); reg.add(u)
    def acc_post(o, n, r): return touched_all(n, o, lambda x: x == o.key.z)
    units.append(Unit(FS_, 'Env.__getitem__', {'self': ObjT(ENV), 'key': STR}, 'C04', requires=lambda s: [('len', s.self.touched.len() >= 0)],
        ensures=[('reading-a-key-touches-it', acc_post), ('value', lambda o, n, r: r.z == opt_val(opt(VAL), z3.Select(o.self.data.z, o.key.z)))],
        raises={'KeyError': lambda o: opt_is_none(opt(VAL), z3.Select(o.self.data.z, o.key.z))},
        ensures_exc=[('reading-a-key-touches-it', 'KeyError', lambda o, n: touched_all(n, o, lambda x: x == o.key.z))], result=VAL, modifies=['self.touched']))
    units.append(Unit(FS_, 'Env.__contains__', {'self': ObjT(ENV), 'key': STR}, 'C04', requires=lambda s: [('len', s.self.touched.len() >= 0)],
        ensures=[('testing-a-key-touches-it', acc_post), ('value', lambda o, n, r: r.z == z3.Not(opt_is_none(opt(VAL), z3.Select(o.self.data.z, o.key.z))))], result=BOOL, modifies=['self.touched']))
    units.append(Unit(FS_, 'Env.get', {'self': ObjT(ENV), 'key': STR, 'default': OptT(VAL)}, 'C04', requires=lambda s: [('len', s.self.touched.len() >= 0)],
        ensures=[('reading-a-key-touches-it', acc_post)], result=None, modifies=['self.touched']))

    # ---- PackageMatcher.touch
    RID = OpaqueT('ResultId')
    reg.classes[PM] = ClassSpec(PM, {'env': DictT(STR, OptT(VAL)), 'tools': DictT(STR, OptT(RID)), 'sandbox': OptT(RID), 'packageName': STR,
                                     'states': OpaqueT('States'), 'corePackage': OpaqueT('CorePackage'), 'subTreePackages': OpaqueT('SubTree')})
    def env2(eng, st): return eng.fresh(st, ObjT(ENV), 'inputEnv')
    def tools2(eng, st): return eng.fresh(st, ObjT(ENV), 'inputTools')
    def keys_of(dz, t):
        return lambda x: z3.Not(opt_is_none(opt(t), z3.Select(dz, x)))
    def pm_touch_post(o, n, r):
        j = z3.Int('pj'); x = z3.String('px')
        def grew(new_e, old_e, has):
            return z3.And(new_e.touched.len() == old_e.touched.len(),
                          z3.ForAll([j, x], z3.Implies(z3.And(0 <= j, j < old_e.touched.len()),
                                    z3.Select(list_get(TS, new_e.touched.z, j), x) == z3.Or(z3.Select(list_get(TS, old_e.touched.z, j), x), has(x)))))
        return z3.And(grew(n.inputEnv, o.inputEnv, keys_of(o.self.env.z, OptT(VAL))), grew(n.inputTools, o.inputTools, keys_of(o.self.tools.z, OptT(RID))))
    units.append(Unit(FI, 'PackageMatcher.touch', {'self': ObjT(PM), 'inputEnv': env2, 'inputTools': tools2}, 'C04',
        requires=lambda s: [('len', z3.And(s.inputEnv.touched.len() >= 0, s.inputTools.touched.len() >= 0))],
        ensures=[('cache-hit-propagates-env-keys-and-tool-names', pm_touch_post)], modifies=['inputEnv.touched', 'inputTools.touched'],
        note='on a memo hit the keys the cached package depended on are recorded on the caller as well'))
    units += [Watch(FI, 'PackageMatcher.matches', 'memo lookup: env, tools, sandbox, states, package name must agree'), Watch(FI, 'PackageMatcher.__init__', 'snapshot of the touched keys'),
              Watch(FI, 'Recipe.prepare', 'memo block, untracked bulk reads followed by explicit touch (400 lines, outside the verified subset)'),
              Watch(FI, 'RecipeSet.generatePackages', 'cache key: Bob source hash, file digests, root env, sandbox flag'), Watch(FI, 'YamlCache.loadYaml', 'stat keyed YAML cache'),
              Watch('pym/bob/pathspec.py', 'PkgGraphNode.init', 'query graph cache keyed by the package cache key'),
              Watch(FS_, 'Env.prune', 'bulk accessor (untracked)'), Watch(FS_, 'Env.copy', 'copies share the touch stack')]
    return units
