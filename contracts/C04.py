# C04 - Package graph caches are transparent: the touch discipline that decides when a computed package may be re-used.
#
# pym/bob/stringparser.py Env: every accessor that reveals information about key k (get, __getitem__, __contains__)
# records k in EVERY open touch set; touch(keys) records all keys in every set; copies share the touch stack.
# pym/bob/input.py PackageMatcher.touch: a cache hit propagates exactly the env keys to the environment's touch sets
# and the tool names to the tools' touch sets; PackageMatcher.matches answers True only if every recorded key agrees.
import ast, z3
from pyvc.api import *
from pyvc.ty import *
from pyvc.core import Raise, Exc, Unsupported
from pyvc.view import SV, W

FS_ = 'pym/bob/stringparser.py'; FI = 'pym/bob/input.py'
ENV = 'bob.stringparser.Env'; PM = 'bob.input.PackageMatcher'
VAL = OpaqueT('EnvValue')
TS = ListT(SetT(STR))

def build(reg):
    reg.classes[ENV] = ClassSpec(ENV, {'data': DictT(STR, VAL), 'touched': TS, 'funs': OpaqueT('Funs'), 'funArgs': OpaqueT('FunArgs')})
    reg.trusted += ['Env.data values are abstract; MappingProxyType/inspect and the bulk accessors (prune, filter, detach, update) are untracked by design and audited at their call sites in Recipe.prepare (watched)']
    S = z3.StringSort()
    def touched_all(new, old, keyset):
        """every touch set grew by keyset(k) and lost nothing; the stack keeps its length"""
        j = z3.Int('tj'); x = z3.String('tx')
        tn = new.self.touched; to = old.self.touched
        return z3.And(tn.len() == to.len(),
                      z3.ForAll([j, x], z3.Implies(z3.And(0 <= j, j < to.len()),
                                z3.Select(list_get(TS, tn.z, j), x) == z3.Or(z3.Select(list_get(TS, to.z, j), x), keyset(x)))))
    def loop_inv(keyset):
        def inv(cur, old, k, L):
            j = z3.Int('lj'); x = z3.String('lx')
            tn = cur.self.touched; to = old.self.touched
            return [('len', z3.And(tn.len() == to.len(), list_len(TS, L) == to.len())),
                    ('done-prefix', z3.ForAll([j, x], z3.Implies(z3.And(0 <= j, j < k), z3.Select(list_get(TS, tn.z, j), x) == z3.Or(z3.Select(list_get(TS, to.z, j), x), keyset(old, x))))),
                    ('rest-unchanged', z3.ForAll([j], z3.Implies(z3.And(k <= j, j < to.len()), list_get(TS, tn.z, j) == list_get(TS, to.z, j)))),
                    ('data-unchanged', cur.self.data.z == old.self.data.z)] + \
                   ([('keys-unchanged', cur.keys.z == old.keys.z)] if cur.has('keys') else [])
        return inv
    units = []
    key_is = lambda o, x: x == o.key.z
    u = Unit(FS_, 'Env.__touch', {'self': ObjT(ENV), 'key': STR}, 'C04', requires=lambda s: [('len', s.self.touched.len() >= 0)],
             ensures=[('key-recorded-in-every-touch-set', lambda o, n, r: touched_all(n, o, lambda x: x == o.key.z)), ('data-unchanged', lambda o, n, r: n.self.data.z == o.self.data.z)],
             loops={1: LoopSpec(inv=loop_inv(key_is))}, modifies=['self.touched'], modifies_ghost=False)
    units.append(u); reg.add(u)
    keys_are = lambda o, x: z3.Select(o.keys.z, x)
    u = Unit(FS_, 'Env.touch', {'self': ObjT(ENV), 'keys': SetT(STR)}, 'C04', requires=lambda s: [('len', s.self.touched.len() >= 0)],
             ensures=[('keys-recorded-in-every-touch-set', lambda o, n, r: touched_all(n, o, lambda x: z3.Select(o.keys.z, x))), ('data-unchanged', lambda o, n, r: n.self.data.z == o.self.data.z)],
             loops={1: LoopSpec(inv=loop_inv(keys_are))}, modifies=['self.touched'], modifies_ghost=False)
    units.append(u); reg.add(u)
    def acc_post(o, n, r): return touched_all(n, o, lambda x: x == o.key.z)
    units.append(Unit(FS_, 'Env.__getitem__', {'self': ObjT(ENV), 'key': STR}, 'C04', requires=lambda s: [('len', s.self.touched.len() >= 0)],
        ensures=[('reading-a-key-touches-it', acc_post), ('value', lambda o, n, r: r.z == opt_val(opt(VAL), z3.Select(o.self.data.z, o.key.z)))],
        raises={'KeyError': lambda o: opt_is_none(opt(VAL), z3.Select(o.self.data.z, o.key.z))},
        ensures_exc=[('reading-a-key-touches-it', 'KeyError', lambda o, n: touched_all(n, o, lambda x: x == o.key.z))], result=VAL, modifies=['self.touched']))
    units.append(Unit(FS_, 'Env.__contains__', {'self': ObjT(ENV), 'key': STR}, 'C04', requires=lambda s: [('len', s.self.touched.len() >= 0)],
        ensures=[('testing-a-key-touches-it', acc_post), ('value', lambda o, n, r: r.z == z3.Not(opt_is_none(opt(VAL), z3.Select(o.self.data.z, o.key.z))))], result=BOOL, modifies=['self.touched']))
    units.append(Unit(FS_, 'Env.get', {'self': ObjT(ENV), 'key': STR, 'default': OptT(VAL)}, 'C04', requires=lambda s: [('len', s.self.touched.len() >= 0)],
        ensures=[('reading-a-key-touches-it', acc_post)], result=None, modifies=['self.touched']))

    # ---- PackageMatcher.touch
    RID = OpaqueT('ResultId')
    # the matcher records for every touched key its value OR None ("was not set"): a key with value None is still a key,
    # so the dictionaries map to wrapper sorts (an Optional value type would conflate "None" with "absent key")
    VALN = OpaqueT('EnvValueOrNone'); RIDN = OpaqueT('ResultIdOrNone')
    reg.classes[PM] = ClassSpec(PM, {'env': DictT(STR, VALN), 'tools': DictT(STR, RIDN), 'sandbox': OptT(RID), 'packageName': STR,
                                     'states': OpaqueT('States'), 'corePackage': OpaqueT('CorePackage'), 'subTreePackages': OpaqueT('SubTree')})
    def env2(eng, st): return eng.fresh(st, ObjT(ENV), 'inputEnv')
    def tools2(eng, st): return eng.fresh(st, ObjT(ENV), 'inputTools')
    def keys_of(dz, t):
        return lambda x: z3.Not(opt_is_none(opt(t), z3.Select(dz, x)))
    def pm_touch_post(o, n, r):
        j = z3.Int('pj'); x = z3.String('px')
        def grew(new_e, old_e, has):
            return z3.And(new_e.touched.len() == old_e.touched.len(),
                          z3.ForAll([j, x], z3.Implies(z3.And(0 <= j, j < old_e.touched.len()),
                                    z3.Select(list_get(TS, new_e.touched.z, j), x) == z3.Or(z3.Select(list_get(TS, old_e.touched.z, j), x), has(x)))))
        return z3.And(grew(n.inputEnv, o.inputEnv, keys_of(o.self.env.z, VALN)), grew(n.inputTools, o.inputTools, keys_of(o.self.tools.z, RIDN)))
    units.append(Unit(FI, 'PackageMatcher.touch', {'self': ObjT(PM), 'inputEnv': env2, 'inputTools': tools2}, 'C04',
        requires=lambda s: [('len', z3.And(s.inputEnv.touched.len() >= 0, s.inputTools.touched.len() >= 0))],
        ensures=[('cache-hit-propagates-env-keys-and-tool-names', pm_touch_post)], modifies=['inputEnv.touched', 'inputTools.touched'],
        note='on a memo hit the keys the cached package depended on are recorded on the caller as well'))
    # ---- PackageMatcher.matches: the memo lookup answers True exactly if every recorded key agrees
    TOOLV = OpaqueT('ToolValue'); RID_OF = z3.Function('TOOL_resultId', sort_of(TOOLV), sort_of(RID)); SBV = OpaqueT('SandboxValue'); SB_RID = z3.Function('SANDBOX_resultId', sort_of(SBV), sort_of(RID))
    TENV = 'bob.stringparser.Env#tools'       # the tools environment: same class, values are tools
    reg.attr_models['ToolValue.resultId'] = lambda e, st, b, n: [(st, V(RID, RID_OF(b.z)))]
    reg.attr_models['SandboxValue.resultId'] = lambda e, st, b, n: [(st, V(RID, SB_RID(b.z)))]
    reg.always_truthy = set(getattr(reg, 'always_truthy', ())) | {'ToolValue', 'SandboxValue'}
    TDATA = DictT(STR, TOOLV); EDATA = DictT(STR, VAL)
    ENVI = OpaqueT('InputEnv'); TOOLI = OpaqueT('InputTools')
    E_DATA = z3.Function('InputEnv_data', sort_of(ENVI), sort_of(EDATA)); T_DATA = z3.Function('InputTools_data', sort_of(TOOLI), sort_of(TDATA))
    OV = OptT(VAL); OR_ = OptT(RID); OT = OptT(TOOLV)
    V2N = z3.Function('value_or_none', sort_of(OV), sort_of(VALN)); R2N = z3.Function('resultid_or_none', sort_of(OR_), sort_of(RIDN))
    def inj():
        a, b = z3.Consts('v2a v2b', sort_of(OV)); c, d = z3.Consts('r2a r2b', sort_of(OR_))
        return [z3.ForAll([a, b], z3.Implies(V2N(a) == V2N(b), a == b), patterns=[z3.MultiPattern(V2N(a), V2N(b))]),
                z3.ForAll([c, d], z3.Implies(R2N(c) == R2N(d), c == d), patterns=[z3.MultiPattern(R2N(c), R2N(d))])]
    reg.axioms['always:value-or-none-embedding-is-injective'] = inj
    # Env.get at the call sites of matches(): value of the key or None (the touch effect is the subject of the Env.get unit above)
    reg.models['InputEnv.get'] = lambda e, st, a, kw, n: [(st, V(VALN, V2N(z3.Select(E_DATA(a[0].z), a[1].z))))]
    reg.models['InputTools.get'] = lambda e, st, a, kw, n: [(st, V(OT, z3.Select(T_DATA(a[0].z), a[1].z)))]
    reg.pure_names |= {'InputEnv.get', 'InputTools.get'}
    def eq_hook(e, st, a, b):
        for x, y in ((a, b), (b, a)):
            if x.t == RIDN:
                if y.t == RID: return x.z == R2N(opt_some(OR_, y.z))
                if y.t == NONE: return x.z == R2N(opt_none(OR_))
                if y.t == OR_: return x.z == R2N(y.z)
        return None
    reg.eq_hook = eq_hook
    def rid_in(tin, kk): return z3.If(opt_is_none(OT, z3.Select(tin, kk)), opt_none(OR_), opt_some(OR_, RID_OF(opt_val(OT, z3.Select(tin, kk)))))
    OVN = OptT(VALN); ORN = OptT(RIDN)
    def agree(o):
        me = o.self; k = z3.Const(fresh_name('mk'), z3.StringSort())
        envd = me.env.z; toold = me.tools.z
        ein = E_DATA(o.inputEnv.z); tin = T_DATA(o.inputTools.z)
        env_ok = z3.ForAll([k], z3.Implies(z3.Not(opt_is_none(OVN, z3.Select(envd, k))), opt_val(OVN, z3.Select(envd, k)) == V2N(z3.Select(ein, k))))
        tools_ok = z3.ForAll([k], z3.Implies(z3.Not(opt_is_none(ORN, z3.Select(toold, k))), opt_val(ORN, z3.Select(toold, k)) == R2N(rid_in(tin, k))))
        sb = o.inputSandbox
        sb_in = z3.If(opt_is_none(sb.t, sb.z), opt_none(OR_), opt_some(OR_, SB_RID(opt_val(sb.t, sb.z)))) if isinstance(sb.t, OptT) else opt_none(OR_)
        return env_ok, tools_ok, me.sandbox.z == sb_in, me.states.z == o.inputStates.z, me.packageName.z == o.packageName.z
    def m_post(o, n, r):
        return r.z == z3.And(*agree(o))
    def m_loop_env(cur, old, k, L):
        IT = TupleT(STR, VALN); LT = ListT(IT); i = z3.Int(fresh_name('mi')); ein = E_DATA(old.inputEnv.z)
        return [('items-so-far-agree', z3.ForAll([i], z3.Implies(z3.And(0 <= i, i < k), tup_get(IT, list_get(LT, L, i), 1) == V2N(z3.Select(ein, tup_get(IT, list_get(LT, L, i), 0)))), patterns=[list_get(LT, L, i)])),
                ('frame', z3.And(cur.self.env.z == old.self.env.z, cur.self.tools.z == old.self.tools.z))]
    def m_loop_tools(cur, old, k, L):
        IT = TupleT(STR, RIDN); LT = ListT(IT); i = z3.Int(fresh_name('ti')); tin = T_DATA(old.inputTools.z)
        return [('items-so-far-agree', z3.ForAll([i], z3.Implies(z3.And(0 <= i, i < k), tup_get(IT, list_get(LT, L, i), 1) == R2N(rid_in(tin, tup_get(IT, list_get(LT, L, i), 0)))), patterns=[list_get(LT, L, i)])),
                ('env-agrees', agree(old)[0]), ('frame', z3.And(cur.self.env.z == old.self.env.z, cur.self.tools.z == old.self.tools.z))]
    units.append(Unit(FI, 'PackageMatcher.matches', {'self': ObjT(PM), 'inputEnv': ENVI, 'inputTools': TOOLI, 'inputStates': OpaqueT('States'), 'inputSandbox': OptT(SBV), 'packageName': STR}, 'C04',
        ensures=[('true-exactly-if-every-recorded-env-key-tool-sandbox-state-and-the-name-agree', m_post)], result=BOOL,
        loops={1: LoopSpec(inv=m_loop_env), 2: LoopSpec(inv=m_loop_tools)}, locals_types={'match': OptT(TOOLV)},
        note='memo lookup decision'))
    units += [Watch(FI, 'PackageMatcher.__init__', 'snapshot of the touched keys'),
              Watch(FI, 'Recipe.prepare', 'memo block, untracked bulk reads followed by explicit touch (400 lines, outside the verified subset)'),
              Watch(FI, 'RecipeSet.generatePackages', 'cache key: Bob source hash, file digests, root env, sandbox flag'), Watch(FI, 'YamlCache.loadYaml', 'stat keyed YAML cache'),
              Watch('pym/bob/pathspec.py', 'PkgGraphNode.init', 'query graph cache keyed by the package cache key'),
              Watch(FS_, 'Env.prune', 'bulk accessor (untracked)'), Watch(FS_, 'Env.copy', 'copies share the touch stack')]
    return units
