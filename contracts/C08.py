# C08 - Artifact packing is lossless, corruption is rejected, extraction is confined
#
# Confinement as contracts on the real code:
#  * utils._tarExtractFilter(member, path): returns a member only if the real path of the (stripped) member name under
#    the real destination is INSIDE the destination (commonpath test) and, for hard links, the resolved link target as
#    well; anything else raises BuildError.  os.path.* are uninterpreted: the contract pins WHICH tests are made on
#    WHICH operands.
#  * TarHelper.__extractPackage: a member is handed to tar.extract only if its name starts with 'content/' (prefix
#    stripped) and, for hard links, its link name starts with 'content/' (prefix stripped); the audit goes to the audit
#    file only; unknown members and wrong archive versions raise BuildError.  Loop invariant over the member stream.
# Losslessness and the rejection of corrupted archives depend on tarfile/gzip: bounded native search only.
import ast, z3
from pyvc.api import *
from pyvc.ty import *
from pyvc.core import Raise, Exc, Unsupported
from pyvc.view import SV, W

FU = 'pym/bob/utils.py'; FA = 'pym/bob/archive.py'
TI = OpaqueT('TarInfo'); TF = OpaqueT('TarFile'); S = z3.StringSort(); TIS = sort_of(TI)
REAL = z3.Function('os_path_realpath', S, S); JOIN = z3.Function('os_path_join', S, S, S)
COMMON2 = z3.Function('os_path_commonpath2', S, S, S); ISABS = z3.Function('os_path_isabs', S, z3.BoolSort())
LSTRIP = z3.Function('str_lstrip', S, S, S)
NAME = z3.Function('TI_name', TIS, S); LINK = z3.Function('TI_linkname', TIS, S); ISLNK = z3.Function('TI_islnk', TIS, z3.BoolSort())
REPL = z3.Function('TI_replace_name', TIS, S, TIS)

def inside(x, p): return COMMON2(x, p) == p

def build(reg):
    reg.trusted += ['os.path.realpath/join/commonpath/isabs and str.lstrip are uninterpreted functions; INSIDE(x, p) is defined as commonpath([x, p]) == p',
                    'TarInfo.replace(name=n) yields a member with that name and unchanged type and link name',
                    'tarfile applies the extraction filter to every member passed to TarFile.extract (Python >= 3.12 semantics, set by tarfileOpen)']
    reg.constants['os.sep'] = lambda e, st: mk_str('/')
    reg.attr_models['TarInfo.name'] = lambda eng, st, b, node: [(st, V(STR, st.ghost['NAMES'].z[b.z] if 'NAMES' in st.ghost else NAME(b.z)))]
    reg.attr_models['TarInfo.linkname'] = lambda eng, st, b, node: [(st, V(STR, st.ghost['LINKS'].z[b.z] if 'LINKS' in st.ghost else LINK(b.z)))]
    @reg.model('TarInfo.islnk')
    def islnk(eng, st, args, kw, node): return [(st, mk_bool(ISLNK(args[0].z)))]
    @reg.model('TarInfo.replace')
    def replace(eng, st, args, kw, node):
        n = kw['name'].z; m = REPL(args[0].z, n)
        st.assume(z3.And(NAME(m) == n, LINK(m) == LINK(args[0].z), ISLNK(m) == ISLNK(args[0].z)))
        return [(st, V(TI, m))]
    @reg.model('os.path.realpath')
    def realpath(eng, st, args, kw, node): return [(st, V(STR, REAL(args[0].z)))]
    @reg.model('os.path.join')
    def join(eng, st, args, kw, node): return [(st, V(STR, JOIN(args[0].z, args[1].z)))]
    @reg.model('os.path.isabs')
    def isabs(eng, st, args, kw, node): return [(st, mk_bool(ISABS(args[0].z)))]
    @reg.model('os.path.commonpath')
    def commonpath(eng, st, args, kw, node):
        a = args[0]
        if isinstance(a.t, ListT):
            L = eng.deref(st, a)
            outs, ok = eng.guard(st, list_len(a.t, L) == 2, 'Unsupported', node, 'commonpath of a list that does not have 2 elements')
            if ok is None: raise Unsupported('commonpath with a list of unknown length')
            return [(ok, V(STR, COMMON2(list_get(a.t, L, 0), list_get(a.t, L, 1))))]
        return None
    @reg.model('str.lstrip')
    def lstrip(eng, st, args, kw, node): return [(st, V(STR, LSTRIP(args[0].z, args[1].z)))]
    def startswith(eng, st, args, kw, node):
        r, a = args[0], args[1]
        if isinstance(a.t, TupleT): return [(st, mk_bool(z3.Or(*[z3.PrefixOf(tup_get(a.t, a.z, i), r.z) for i in range(len(a.t.elems))])))]
        return [(st, mk_bool(z3.PrefixOf(a.z, r.z)))]
    reg.models['str.startswith'] = startswith
    reg.pure_names |= {'os.path.realpath', 'os.path.join', 'os.path.isabs', 'os.path.commonpath', 'TarInfo.islnk', 'TarInfo.replace', 'str.lstrip', 'str.startswith'}

    def filt_post(o, n, r):
        dest = REAL(o.path.z); m = r.z
        nm = NAME(m)
        return z3.And(inside(REAL(JOIN(dest, nm)), dest), z3.Not(ISABS(nm)),
                      z3.Implies(ISLNK(m), inside(REAL(JOIN(dest, LINK(m))), dest)),
                      LINK(m) == LINK(o.member.z), ISLNK(m) == ISLNK(o.member.z),
                      z3.Or(nm == NAME(o.member.z), nm == LSTRIP(NAME(o.member.z), z3.StringVal('//'))))
    units = []
    units.append(Unit(FU, '_tarExtractFilter', {'member': TI, 'path': STR}, 'C08', ensures=[('returned-member-stays-inside-the-destination', filt_post)],
        raises={'bob.errors.BuildError': True}, result=TI, note='extraction filter: member path and hard link target are confined to the real destination'))

    # ---- TarHelper.__extractPackage
    TH = 'bob.archive.TarHelper'
    reg.classes[TH] = ClassSpec(TH, {})
    class _M(T):
        def __init__(self, n): self.n = n
        def key(self): return self.n
        def name(self): return self.n
    from pyvc import ty as _ty
    MAPT = _M('TarInfoStrMap'); _ty._sorts[MAPT] = z3.ArraySort(TIS, S)
    def ghost_init(eng, st):
        st.ghost['NAMES'] = V(MAPT, z3.Lambda([z3.Const('gm', TIS)], NAME(z3.Const('gm', TIS))))
        st.ghost['LINKS'] = V(MAPT, z3.Lambda([z3.Const('gl', TIS)], LINK(z3.Const('gl', TIS))))
        st.ghost['AUDIT_WRITES'] = mk_int(0)
    def set_name(eng, st, args, kw, node):
        st.ghost['NAMES'] = V(MAPT, z3.Store(st.ghost['NAMES'].z, args[0].z, args[1].z)); return [(st, mk_none())]
    def set_link(eng, st, args, kw, node):
        st.ghost['LINKS'] = V(MAPT, z3.Store(st.ghost['LINKS'].z, args[0].z, args[1].z)); return [(st, mk_none())]
    reg.models['TarInfo.__setattr__.name'] = set_name; reg.models['TarInfo.__setattr__.linkname'] = set_link
    reg.attr_models['TarFile.pax_headers'] = lambda eng, st, b, node: [(st, V(OpaqueT('PaxHeaders'), z3.Const('pax', sort_of(OpaqueT('PaxHeaders')))))]
    VSN = z3.String('archive_version')
    @reg.model('PaxHeaders.get')
    def pax_get(eng, st, args, kw, node): return [(st, V(STR, VSN))]
    @reg.model('TarFile.next')
    def tnext(eng, st, args, kw, node):
        m = fresh_z(TI, 'member'); more = fresh_z(BOOL, 'more')
        out = []
        for x, val in eng.branch(st, more, 'tar.next'):
            if val:
                # a fresh member: its attributes are the ones stored in the archive
                x.assume(z3.And(z3.Select(x.ghost['NAMES'].z, m) == NAME(m), z3.Select(x.ghost['LINKS'].z, m) == LINK(m)))
                out.append((x, V(OptT(TI), opt_some(OptT(TI), m))))
            else: out.append((x, V(OptT(TI), opt_none(OptT(TI)))))
        y = st.fork(); out.append(eng.raise_(y, 'tarfile.TarError', 'corrupted archive'))
        return out
    @reg.model('TarFile.extract')
    def textract(eng, st, args, kw, node):
        m = args[1].z; cur = z3.Select(st.ghost['NAMES'].z, m); curl = z3.Select(st.ghost['LINKS'].z, m)
        pfx = z3.StringVal('content/')
        eng.oblige(st, 'extract@%s:only-members-of-the-content-namespace' % node.lineno, z3.And(z3.PrefixOf(pfx, NAME(m)), cur == z3.SubString(NAME(m), 8, z3.Length(NAME(m)) - 8)), 'confinement', node)
        eng.oblige(st, 'extract@%s:hard-link-target-in-the-content-namespace' % node.lineno,
                   z3.Implies(ISLNK(m), z3.And(z3.PrefixOf(pfx, LINK(m)), curl == z3.SubString(LINK(m), 8, z3.Length(LINK(m)) - 8))), 'confinement', node)
        eng.oblige(st, 'extract@%s:into-the-content-directory' % node.lineno, args[2].z == st.frames[-1]['content'].z, 'confinement', node)
        out = [(st, mk_none())]
        y = st.fork(); out.append(eng.raise_(y, 'UnicodeError', 'file name encoding')); z_ = st.fork(); out.append(eng.raise_(z_, 'OSError', 'extract fails'))
        return out
    @reg.model('TarFile.extractfile')
    def textractfile(eng, st, args, kw, node):
        m = args[1].z
        eng.oblige(st, 'extractfile@%s:only-the-audit-member' % node.lineno, NAME(m) == z3.StringVal('meta/audit.json.gz'), 'confinement', node)
        return [(st, V(OpaqueT('FileObj'), fresh_z(OpaqueT('FileObj'), 'src')))]
    @reg.model('open')
    def m_open(eng, st, args, kw, node):
        eng.oblige(st, 'open@%s:only-the-audit-file-is-written' % node.lineno, args[0].z == st.frames[-1]['audit'].z, 'confinement', node)
        return [(st, V(OpaqueT('FileObj'), fresh_z(OpaqueT('FileObj'), 'dst')))]
    for n_ in ('FileObj.__enter__',):
        reg.models[n_] = lambda eng, st, args, kw, node: [(st, args[0])]
    reg.models['FileObj.__exit__'] = lambda eng, st, args, kw, node: [(st, mk_bool(False))]
    reg.models['shutil.copyfileobj'] = lambda eng, st, args, kw, node: [(st, mk_none())]
    reg.always_truthy = {'TarInfo'}
    def ep_loop(cur, old):
        f = cur.f; ot = OptT(TI); m = opt_val(ot, f.z)
        return [('frame', z3.And(cur.audit.z == old.audit.z, cur.content.z == old.content.z)),
                ('current-member-is-as-stored-in-the-archive', z3.Implies(z3.Not(opt_is_none(ot, f.z)),
                    z3.And(z3.Select(cur.ghost.NAMES.z, m) == NAME(m), z3.Select(cur.ghost.LINKS.z, m) == LINK(m))))]
    units.append(Unit(FA, 'TarHelper.__extractPackage', {'self': ObjT(TH), 'tar': TF, 'audit': STR, 'content': STR}, 'C08', ghost_init=ghost_init,
        ensures=[], raises={'bob.errors.BuildError': True, 'tarfile.TarError': True, 'OSError': True}, loops={1: LoopSpec(inv=ep_loop)},
        locals_types={'f': OptT(TI)}, note='only content/ members (and content/ hard link targets) are extracted, only the audit file is written, everything else is refused'))
    units += [Watch(FA, 'TarHelper._extract', 'opens the stream reader, empties the destination'), Watch(FA, 'TarHelper._pack', 'pax tar + gzip writer'),
              Watch(FU, 'tarfileOpen', 'installs the extraction filter'), Watch('pym/bob/builder.py', 'LocalBuilder._downloadPackage', 'rejects downloads without audit or with a content hash mismatch'),
              Watch(FU, 'removePath', 'removes the old workspace')]
    return units
