# C05 - Failed or killed builds never poison the workspace  (pym/bob/builder.py, Dyn mode)
#
# Crash/abort invariant over ghost typestate of ONE workspace, checked after EVERY tracked action (each BobState
# mutator is one durable save = one kill point; _runShell may fail) and on every exit, normal or exceptional:
#     J1:  INPUTS and DS  =>  not DIRTY          (a step that would be skipped next time has complete content)
#     J2:  DS  =>  CF                             (a directory recorded for this digest holds content made for it)
#     J3:  INPUTS and DS  =>  the recorded result hash was computed after the last run of the script
# INPUTS: input hashes recorded; DS: recorded directory digest == current digest; DIRTY: a script run was started and
# did not finish / content removed; CF: content is empty, freshly created or was produced under the current digest.
import ast, z3
from pyvc.api import *
from pyvc.ty import *
from pyvc.core import Raise, Exc, Unsupported
from pyvc.view import SV, W
from pyvc import dyn
from pyvc.dyn import DYN, D

F = 'pym/bob/builder.py'
SEQ_OF = z3.Function('RESULT_SEQ_OF', D, z3.IntSort())

def build(reg):
    dyn.install(reg)
    reg.tracked_names = {'delInputHashes', 'setInputHashes', 'resetWorkspaceState', 'setResultHash', '_runShell', 'emptyDirectory',
                         'hashWorkspace', 'getDirectoryState', '_constructDir', 'removePath'}
    reg.trusted += ['every BobState mutator is one atomic durable save (property C10); a kill can happen after each of them',
                    '_runShell either completes the script (workspace content complete) or raises BuildError with arbitrary partial content',
                    'package steps are run with a cleaned workspace by the invoker (StepSpec clean flag, watched)']
    G = ('INPUTS', 'DIRTY', 'CF', 'DSSET')
    def ghost_init(eng, st):
        for n in G: st.ghost[n] = V(BOOL, fresh_z(BOOL, n))
        st.ghost['DS0'] = V(BOOL, fresh_z(BOOL, 'DS0'))          # recorded digest == current digest at entry
        st.ghost['RUNSEQ'] = V(INT, fresh_z(INT, 'RUNSEQ')); st.ghost['RESSEQ'] = V(INT, fresh_z(INT, 'RESSEQ'))
        st.ghost['OLDDS'] = V(DYN, fresh_z(DYN, 'oldDirState')); st.ghost['RAN'] = mk_bool(False)
    reg.ghost_const |= {'DS0', 'OLDDS'}
    def DS(st): return z3.Or(st.ghost['DSSET'].z, st.ghost['DS0'].z)
    def J(st):
        g = st.ghost
        return [('claimed-workspace-is-complete', z3.Implies(z3.And(g['INPUTS'].z, DS(st)), z3.Not(g['DIRTY'].z))),
                ('recorded-digest-matches-content', z3.Implies(DS(st), g['CF'].z)),
                ('result-hash-taken-after-the-run', z3.Implies(z3.And(g['INPUTS'].z, DS(st)), g['RESSEQ'].z == g['RUNSEQ'].z))]
    def crash_point(eng, st, what, node):
        for name, z in J(st): eng.oblige(st, 'kill-after-%s@%s:%s' % (what, getattr(node, 'lineno', '?'), name), z, 'crash-invariant', node)

    @reg.model('Dyn.delInputHashes')
    def m_del(eng, st, args, kw, node):
        st.ghost['INPUTS'] = mk_bool(False); crash_point(eng, st, 'delInputHashes', node); return [(st, mk_none())]
    @reg.model('Dyn.setInputHashes')
    def m_set(eng, st, args, kw, node):
        st.ghost['INPUTS'] = mk_bool(True); crash_point(eng, st, 'setInputHashes', node); return [(st, mk_none())]
    @reg.model('Dyn.resetWorkspaceState')
    def m_reset(eng, st, args, kw, node):
        st.ghost['INPUTS'] = mk_bool(False); st.ghost['DSSET'] = mk_bool(True); st.ghost['RESSEQ'] = mk_int(-1)
        crash_point(eng, st, 'resetWorkspaceState', node); return [(st, mk_none())]
    @reg.model('Dyn.setResultHash')
    def m_res(eng, st, args, kw, node):
        st.ghost['RESSEQ'] = mk_int(SEQ_OF(dyn.dynify(eng, st, args[2])))
        crash_point(eng, st, 'setResultHash', node); return [(st, mk_none())]
    @reg.model('Dyn.hashWorkspace')
    def m_hash(eng, st, args, kw, node):
        h = dyn.fresh('wshash'); st.assume(SEQ_OF(h.z) == st.ghost['RUNSEQ'].z); return [(st, h)]
    @reg.model('Dyn.now')
    def m_now(eng, st, args, kw, node):
        t = dyn.fresh('timestamp'); st.assume(SEQ_OF(t.z) == -1); return [(st, t)]
    @reg.model('Dyn.getDirectoryState')
    def m_getds(eng, st, args, kw, node): return [(st, st.ghost['OLDDS'])]
    @reg.model('Dyn._constructDir')
    def m_cdir(eng, st, args, kw, node):
        created = fresh_z(BOOL, 'created'); st.ghost['CREATED0'] = V(BOOL, created)
        # content of a freshly created directory is empty; an existing one holds content made for the recorded digest
        st.assume(st.ghost['CF'].z == z3.Or(created, st.ghost['DS0'].z))
        st.assume(z3.Implies(created, z3.Not(st.ghost['DIRTY'].z)))
        return [(st, V(PyTupT(2), [dyn.fresh('workspacePath'), V(BOOL, created)]))]
    @reg.model('Dyn.emptyDirectory', 'Dyn.removePath')
    def m_empty(eng, st, args, kw, node):
        st.ghost['CF'] = mk_bool(True); st.ghost['DIRTY'] = mk_bool(True); st.ghost['RUNSEQ'] = mk_int(st.ghost['RUNSEQ'].z + 1)
        crash_point(eng, st, 'emptyDirectory', node); return [(st, mk_none())]
    @reg.model('Dyn.getInputHashes')
    def m_getin(eng, st, args, kw, node):
        # inputs that are not recorded compare unequal to every list of current inputs
        r = dyn.fresh('recordedInputs'); x = z3.Const('gx', D)
        st.assume(z3.Implies(z3.Not(st.ghost['INPUTS'].z), z3.ForAll([x], z3.Not(dyn.EQ(r.z, x)), patterns=[dyn.EQ(r.z, x)])))
        st.ghost['RECORDED_INPUTS'] = r
        return [(st, r)]
    reg.pure_names |= {'Dyn.getInputHashes'}
    @reg.model('Dyn._runShell')
    def m_run(eng, st, args, kw, node):
        g = st.ghost
        # the build script: in clean-build mode (bob build / --clean) the invoker empties the workspace first, so that a re-run after a
        # failed or killed script never continues on its partial output: the clean-build switch must arrive as `cleanWorkspace`
        if len(args) > 2 and args[2].t == STR and z3.is_string_value(args[2].z) and args[2].z.as_string() == 'build':
            me = st.frames[-1].get('self'); cw = args[5] if len(args) > 5 else kw.get('cleanWorkspace')
            want = dyn.ATTR(me.z, z3.StringVal('_LocalBuilder__cleanBuild'))
            eng.oblige(st, 'runShell@%s:clean-build-switch-is-passed-as-the-clean-flag-of-the-build-script' % node.lineno,
                       (dyn.dynify(eng, st, cw) == want) if cw is not None else z3.BoolVal(False), 'effect', node)
            cr = st.frames[-1].get('created'); wc = args[4] if len(args) > 4 else kw.get('workspaceCreated')
            if cr is not None and wc is not None:
                eng.oblige(st, 'runShell@%s:workspace-created-flag-is-what-constructDir-reported' % node.lineno, dyn.dynify(eng, st, wc) == dyn.dynify(eng, st, cr), 'effect', node)
        g['RAN'] = mk_bool(True)
        g['DIRTY'] = mk_bool(True); g['RUNSEQ'] = mk_int(g['RUNSEQ'].z + 1)
        crash_point(eng, st, 'start-of-script', node)
        x = st.fork()
        out = [eng.raise_(x, 'bob.errors.BuildError', 'step script fails at %s' % eng.loc(node))]
        st.ghost['DIRTY'] = mk_bool(False); st.ghost['CF'] = mk_bool(True)
        out.append((st, mk_none()))
        return out
    @reg.model('Dyn.exists', 'Dyn.lexists')
    def m_exists(eng, st, args, kw, node):
        r = fresh_z(BOOL, 'exists')
        c0 = st.ghost.get('CREATED0')
        if c0 is not None: st.assume(z3.Implies(z3.Not(c0.z), r))      # _constructDir found (or made) the directory
        th = st.ghost.get('THERE0')
        if th is not None and getattr(node.func, 'attr', '') == 'lexists': r = th.z
        return [(st, mk_bool(r))]
    reg.pure_names |= {'Dyn.hashWorkspace', 'Dyn.now', 'Dyn.getDirectoryState', 'Dyn.exists', 'Dyn.lexists'}

    def eq_hint(local):
        """ties the code's own comparison `digest != oldDigest` to the ghost DS0 (proof hint: name of the digest local)"""
        def hook(eng, st, o, tag):
            pass
        return hook
    def req(s):
        st = s.st
        return J(st) + [('seq', z3.And(st.ghost['RUNSEQ'].z >= 0, st.ghost['RESSEQ'].z <= st.ghost['RUNSEQ'].z)), ('fresh-entry', z3.Not(st.ghost['DSSET'].z))]
    def post(o, n, r): return z3.And(*[c for _, c in J(n.st)])

    def link_digest_compare(eng, st):
        """DS0 is, by definition, the outcome of the function's comparison of the new digest with the recorded one"""
        x = z3.Const('dq', D)
        st.assume(z3.ForAll([x], dyn.EQ(x, st.ghost['OLDDS'].z) == st.ghost['DS0'].z, patterns=[dyn.EQ(x, st.ghost['OLDDS'].z)]))
        st.assume(z3.ForAll([x], dyn.EQ(st.ghost['OLDDS'].z, x) == st.ghost['DS0'].z, patterns=[dyn.EQ(st.ghost['OLDDS'].z, x)]))

    units = []
    P = {'self': DYN, 'buildStep': DYN, 'depth': DYN, 'buildBuildId': DYN}
    units.append(Unit(F, 'LocalBuilder._cookBuildStep', P, 'C05', requires=req, ghost_init=ghost_init, entry_hook=link_digest_compare,
        ensures=[('abort-invariant', post)], raises={'bob.errors.BuildError': True},
        ensures_exc=[('abort-invariant', '*', lambda o, n: post(o, n, None))], result=None, max_paths=6000,
        note='prune on digest change (empty, then record), invalidate before run, record after success'))
    P2 = {'self': DYN, 'packageStep': DYN, 'depth': DYN, 'packageBuildId': DYN}
    def pkg_entry(eng, st):
        link_digest_compare(eng, st)
        st.assume(st.ghost['DS0'].z)           # _preparePackageStep ran before: the recorded digest is the current one
    units.append(Unit(F, 'LocalBuilder._cookPackageStep', P2, 'C05', requires=req, ghost_init=ghost_init, entry_hook=pkg_entry,
        ensures=[('abort-invariant', post)], raises={'bob.errors.BuildError': True},
        ensures_exc=[('abort-invariant', '*', lambda o, n: post(o, n, None))], result=None, max_paths=6000,
        note='invalidate before run, record after success'))
    def prep_entry(eng, st):
        link_digest_compare(eng, st)
        th = fresh_z(BOOL, 'somethingThere'); st.ghost['THERE0'] = V(BOOL, th)
        st.assume(st.ghost['CF'].z == z3.Or(z3.Not(th), st.ghost['DS0'].z))
        st.assume(z3.Implies(z3.Not(th), z3.Not(st.ghost['DIRTY'].z)))
    @reg.model('Dyn.unlink')
    def m_unlink(eng, st, args, kw, node):
        st.ghost['CF'] = mk_bool(True); st.ghost['DIRTY'] = mk_bool(True); crash_point(eng, st, 'unlink', node); return [(st, mk_none())]
    units.append(Unit(F, 'LocalBuilder._preparePackageStep', {'self': DYN, 'packageStep': DYN}, 'C05', requires=req, ghost_init=ghost_init, entry_hook=prep_entry,
        ensures=[('abort-invariant', post), ('digest-recorded-or-unchanged', lambda o, n, r: z3.Or(n.ghost.DSSET.z, n.ghost.DS0.z))],
        result=None, note='a directory handed to a different variant is emptied before it is recorded for it'))
    # ---- _runShell: the only way a step script's outcome reaches the builder.  "A failed or killed step is never recorded as
    # succeeded" starts here: the function returns normally ONLY if the invoker reported exit status 0 (a script killed by a signal
    # comes back as a negative status), everything else leaves as BuildError.
    def rs_init(eng, st):
        st.ghost['RET'] = dyn.fresh('noret'); st.ghost['EXECUTED'] = mk_bool(False)
    @reg.model('Dyn.executeStep')
    def m_exec(eng, st, args, kw, node):
        if getattr(reg.current_unit, 'qual', '') != 'LocalBuilder._runShell': return None
        r = dyn.fresh('exitStatus'); st.ghost['RET'] = r; st.ghost['EXECUTED'] = mk_bool(True)
        return [(st, r)]
    ZERO = dyn.OF_INT(z3.IntVal(0))
    rs = Unit(F, 'LocalBuilder._runShell', {'self': DYN, 'step': DYN, 'scriptName': DYN, 'logger': DYN, 'workspaceCreated': DYN, 'cleanWorkspace': DYN, 'mode': DYN}, 'C05',
        ghost_init=rs_init, raises={'bob.errors.BuildError': True, 'OSError': True}, result=None, max_paths=2000,
        ensures=[('returns-normally-only-after-the-script-ran-and-reported-exit-status-zero', lambda o, n, r: z3.And(n.ghost.EXECUTED.z, dyn.EQ(n.ghost.RET.z, ZERO)))],
        note='every non-zero status (positive: exit code, negative: killed by a signal) becomes BuildError')
    rs.tracked = {'executeStep'}
    units.append(rs)
    units += [Watch(F, 'LocalBuilder._cookCheckoutStep', 'checkout step: attic/switch logic, audit regeneration'),
              Watch(F, 'LocalBuilder._downloadPackage', 'download + verification'),
              Watch('pym/bob/invoker.py', 'Invoker.executeStep', 'cleans the workspace when the clean flag is set'),
              Watch('pym/bob/languages.py', 'StepSpec.fromStep', 'clean flag of package steps')]
    return units
