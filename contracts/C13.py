# C13 - Steps run in exactly the declared environment   (pym/bob/invoker.py, languages.py, input.py)
#
# What contracts carry here is the *spawn discipline* of the invoker (Dyn mode, effect obligations):
#  * Invoker.executeStep / Invoker.executeFingerprint: every process that runs a step or fingerprint script is started
#    through __runCommand / callCommand / checkCommand with the literal keyword specEnv=False, i.e. the process
#    environment is the whitelist-filtered host environment plus the explicit `env` argument only; the declared
#    variables reach the script exclusively through the generated, shell-quoted prolog.
# Everything else of the property is about generated text interpreted by bash, the host environment and the C sandbox
# helper: which variables are declared (Recipe.prepare / Env.prune), quoting (shlex.quote in __formatProlog), argument
# order, tool paths and the fingerprint variable subset are covered by the bounded native search only (real builds whose
# scripts dump what they see); the sandbox clauses (mount set, read-only dependencies) are NOT covered at all in this
# sandbox: the namespace helper needs user namespaces.
import ast, z3
from pyvc.api import *
from pyvc.ty import *
from pyvc.core import Raise, Exc, Unsupported
from pyvc import dyn
from pyvc.dyn import DYN

F = 'pym/bob/invoker.py'
def build(reg):
    dyn.install(reg)
    reg.tracked_names = {'__runCommand', '_Invoker__runCommand', 'callCommand', 'checkCommand', 'runCommand', 'checkOutputCommand'}
    reg.trusted += ['Invoker.__runCommand merges the step environment into the process environment iff specEnv is true (function watched, read: _env = self.__env.copy(); if specEnv: _env.update(self.__spec.env); if env is not None: _env.update(env))',
                    'scm.invoke / CheckoutAssert.invoke (checkout helpers driven by the invoker) are not step scripts and are outside these obligations']
    def spawn(eng, st, args, kw, node):
        v = kw.get('specEnv')
        ok = v is not None and v.t == BOOL and z3.is_false(z3.simplify(v.z))
        eng.oblige(st, 'spawn@%s:script-process-gets-no-implicit-step-environment(specEnv=False)' % node.lineno, z3.BoolVal(bool(ok)), 'effect', node)
        st.ghost['SPAWNS'] = mk_int(st.ghost['SPAWNS'].z + 1)
        x = st.fork()
        return [eng.raise_(x, 'bob.invoker.InvocationError', 'command fails at %s' % eng.loc(node)), (st, dyn.fresh('proc'))]
    for n in ('Dyn.__runCommand', 'Dyn._Invoker__runCommand', 'Dyn.callCommand', 'Dyn.checkCommand'):
        reg.models[n] = spawn
    def ghost_init(eng, st): st.ghost['SPAWNS'] = mk_int(0)
    units = []
    units.append(Unit(F, 'Invoker.executeFingerprint', {'self': DYN, 'keepSandbox': DYN}, 'C13', ghost_init=ghost_init,
        ensures=[('exactly-one-script-process', lambda o, n, r: n.ghost.SPAWNS.z == 1)], raises={'bob.errors.BuildError': True}, result=None, max_paths=4000,
        note='the fingerprint script process inherits only the filtered host environment and BOB_CWD/PATH'))
    units.append(Unit(F, 'Invoker.executeStep', {'self': DYN, 'mode': DYN, 'workspaceCreated': DYN, 'clean': DYN, 'keepSandbox': DYN}, 'C13', ghost_init=ghost_init,
        ensures=[], raises={'bob.errors.BuildError': True, 'AssertionError': True}, result=None, max_paths=8000,
        note='the step script process inherits only the filtered host environment and the explicit sandbox variables'))
    # ---- Env.prune (typed, strict): the pruned environment holds exactly the allowed variables that are set, values unchanged
    from pyvc.view import SV, W
    FS_ = 'pym/bob/stringparser.py'; ENV = 'bob.stringparser.Env'; VAL = OpaqueT('EnvValue'); DT = DictT(STR, VAL); TS = ListT(SetT(STR)); OV = opt(VAL)
    reg.classes[ENV] = ClassSpec(ENV, {'data': DT, 'touched': TS, 'funs': OpaqueT('Funs'), 'funArgs': OpaqueT('FunArgs')})
    def env_new(e, st, a, kw, n):
        if a: return None
        o = e.new_obj(st, ENV, {'data': e.alloc(st, DT, z3.K(z3.StringSort(), opt_none(OV))), 'touched': e.fresh(st, TS, 'touched0'),
                                'funs': e.fresh(st, OpaqueT('Funs'), 'funs0'), 'funArgs': e.fresh(st, OpaqueT('FunArgs'), 'funArgs0')})
        return [(st, o)]
    reg.models[ENV] = env_new          # Env(): empty environment (Env.__init__ builds dict(other) of the default {})
    def env_comp(e, st, node, kind):
        src = ast.unparse(node).replace(' ', '')
        if kind == 'dict' and src == '{key:self.data[key]forkeyinset(self.data.keys())&allowed}':
            fr = st.frames[-1]; me = fr['self']; al = fr['allowed']
            D = e.deref(st, e.getfield(st, me, 'data'))
            at = al.t; A = e.deref(st, e.load_val(st, at.base, opt_val(at, al.z))) if isinstance(at, OptT) else e.deref(st, al)
            k = z3.Const(fresh_name('k'), z3.StringSort())
            R = z3.Lambda([k], z3.If(z3.And(z3.Select(A, k), z3.Not(opt_is_none(OV, z3.Select(D, k)))), z3.Select(D, k), opt_none(OV)))
            e.assume_note('dict comprehension over (set(keys) & allowed) evaluated as the restriction of the mapping (comprehension semantics, not proved by the engine)')
            return [(st, e.alloc(st, DT, R))]
        return None
    reg.comp_hook_typed = env_comp
    base_comp = reg.comp_hook
    reg.comp_hook = lambda e, st, node, kind: (env_comp(e, st, node, kind) or (base_comp(e, st, node, kind) if base_comp else None))
    def copy_model(e, st, a, kw, n):
        me = a[0]; o = e.fresh(st, ObjT(ENV), 'copy')
        e.setfield(st, o, 'data', e.alloc(st, DT, e.deref(st, e.getfield(st, me, 'data'))))
        for f in ('funs', 'funArgs', 'touched'): e.setfield(st, o, f, e.getfield(st, me, f))
        return [(st, o)]
    reg.models['bob.stringparser.Env.copy'] = copy_model
    def prune_post(o, n, r):
        D0 = o.self.data.z; k = z3.Const(fresh_name('k'), z3.StringSort()); R = r.data.z
        al = o.allowed
        if isinstance(al.t, OptT):
            isn = opt_is_none(al.t, al.z); A = o.eng.deref(o.st, o.eng.load_val(o.st, al.t.base, opt_val(al.t, al.z)))
        else: isn = z3.BoolVal(False); A = al.z
        return z3.ForAll([k], z3.Select(R, k) == z3.If(z3.Or(isn, z3.Select(A, k)), z3.Select(D0, k), opt_none(OV)))
    u = Unit(FS_, 'Env.prune', {'self': ObjT(ENV), 'allowed': OptT(SetT(STR))}, 'C13', result=ObjT(ENV),
        ensures=[('exactly-the-allowed-variables-that-are-set-with-unchanged-values', prune_post),
                 ('touch-tracking-is-shared', lambda o, n, r: z3.BoolVal(r.touched.same_object(o.self.touched))),
                 ('source-unchanged', lambda o, n, r: n.self.data.z == o.self.data.z)],
        note='restriction of the environment to the declared variables of a step')
    u.dyn = False; units.append(u)
    FL = 'pym/bob/languages.py'; FI = 'pym/bob/input.py'
    units += [Watch(F, 'Invoker.__init__', 'host environment filtered by the whitelist unless preserveEnv'), Watch(F, 'Invoker.__runCommand', 'process environment = filtered host env (+ spec env iff specEnv) + explicit env'),
              Watch(FL, 'BashLanguage.__formatProlog', 'shell-quoted export of every declared value, path arrays'), Watch(FL, 'BashLanguage.__setupExec', 'argument list'),
              Watch(FL, 'StepSpec.fromStep', 'environment, arguments, tool paths, dependency mounts of a step'), Watch(FL, 'BashLanguage.mangleFingerprints', 'fingerprint script with its variables'),
              Watch(FI, 'Recipe.prepare', 'environment pruning to the declared variables per step'), 
              Watch(FI, 'Step._getFingerprintScript', 'fingerprint variables restricted to fingerprintVars'),
              Watch(F, 'Invoker.__getSlimSandboxCmds', 'sandbox mounts (not covered)'), Watch(F, 'Invoker.__getFatSandboxCmds', 'sandbox mounts (not covered)')]
    return units
