# C15 - Shared package store is safe under concurrent projects  (pym/bob/share.py)
# No function of share.py is under contract yet: they are dominated by library calls (json, shutil, tempfile,
# flock) outside the verified subset.  The functions are WATCHED (source hash) and the property is covered by
# the bounded native search only (replay/C15.py).  This check therefore claims level 'bounded', not proof.
from pyvc.api import *
F = 'pym/bob/share.py'
def build(reg):
    return [Watch(F, 'LocalShare.gc', 'quota/garbage collection policy, exclusive repo lock'),
            Watch(F, 'LocalShare.installSharedPackage', 'prepare in temp dir, verify hash, atomic rename, tolerate lost race'),
            Watch(F, 'LocalShare.useSharedPackage', 'shared repo lock + exclusive package lock, user registration'),
            Watch(F, 'LocalShare.__addPackage', 'repo.json accounting'),
            Watch(F, 'OpenLocked.__enter__', 'flock'), Watch(F, 'OpenLocked.__exit__', 'flock'),
            Watch(F, 'checkUnused', 'usage check'), Watch(F, 'sameWorkspace', 'usage check')]
