# C15 - Shared package store is safe under concurrent projects  (pym/bob/share.py)
#
# Lock / ordering discipline as effect contracts on the real code (Dyn mode; ghost typestate REPO, PKG in {0 none, 1 shared,
# 2 exclusive}, VERIFIED, META_WRITTEN, RENAMED), obligations at every tracked effect on every path:
#  * LocalShare.gc: a package directory is renamed away only while the repository lock is held EXCLUSIVELY, never in a
#    dry run, and on a path where the loop's own guard admitted it (unused and pruneUnused, or over quota); the repository
#    accounting (repo.json) is rewritten under the same lock after every removal; nothing is deleted under the lock
#    (packages go to the attic directory first).
#  * LocalShare.installSharedPackage: the package becomes visible (rename to its final name) only after the content hash
#    of the prepared copy was compared with the expected one and pkg.json was written; a lost rename race (ENOTEMPTY /
#    EEXIST) is not an error; the repository size is updated only after a successful rename.
#  * LocalShare.useSharedPackage: the user list is rewritten only under the shared repository lock AND the exclusive
#    package lock; a missing package / missing store (FileNotFoundError) is "not shared", not an error.
#  * LocalShare.__addPackage: repo.json is read/created/rewritten only under its exclusive lock.
# The protocol-level clauses (at most one install per Build-Id, never collected while in use under ALL interleavings,
# size == sum of packages) need the composition of these functions over the real file system: bounded native interleaving
# search only (replay/C15.py), incl. known finding F-C15c.
import ast, z3
from pyvc.api import *
from pyvc.ty import *
from pyvc.core import Raise, Exc, Unsupported
from pyvc import dyn
from pyvc.dyn import DYN, D

F = 'pym/bob/share.py'
LOCK = OpaqueT('OpenLockedRef'); LZ = sort_of(LOCK)
L_KIND = z3.Function('lock_kind', LZ, z3.IntSort()); L_EXCL = z3.Function('lock_exclusive', LZ, z3.BoolSort())   # kind 1 repo.json, 2 pkg.json

def build(reg):
    dyn.install(reg)
    reg.tracked_names = {'useSharedPackage', 'OpenLocked', 'rename', 'dump', 'load', 'loadRepoMeta', 'rmtree', 'unlink', 'remove', 'move', 'copytree', 'hashDirectoryWithSize', '__addPackage', '_LocalShare__addPackage'}
    reg.trusted += ['flock semantics are the OS\'s (lockFile/unlockFile are one fcntl.flock call each: watched, not proved); callers of OpenLocked rely on OpenLocked.__enter__/__exit__ only through their contracts proved here',
                    'repo.json / pkg.json hold complete JSON whenever they are read under their lock: every writer rewrites them completely under the exclusive lock and OpenLocked.__exit__ flushes before unlocking (proved); a crash in the middle of such a rewrite is outside this property',
                    'os.rename of a directory is atomic and fails with ENOTEMPTY/EEXIST if the destination exists and is not empty',
                    'tempfile.TemporaryDirectory(dir=store) yields a private directory that is removed when the with-block is left (after the locks were released)']
    reg.constants['errno.ENOTEMPTY'] = lambda e, st: mk_int(39); reg.constants['errno.EEXIST'] = lambda e, st: mk_int(17)
    def ghost_init(eng, st):
        g = st.ghost
        g['REPO'] = mk_int(0); g['PKG'] = mk_int(0)
        g['REGISTERED'] = mk_bool(False); g['USE_CALLED'] = mk_bool(False); g['RENAME_TRIED'] = mk_bool(False); g['VERIFIED'] = mk_bool(False); g['META_WRITTEN'] = mk_bool(False); g['RENAMED'] = mk_bool(False); g['REMOVED'] = mk_int(0); g['ACCOUNTED'] = mk_int(0)
    def kind_of(node):
        src = ast.unparse(node.args[0]) if node.args else ''
        if 'repo.json' in src or src in ('fn',): return 1
        if 'pkg.json' in src or 'pkgMetaFile' in src: return 2
        raise Unsupported('OpenLocked on an unknown file at line %s: %s' % (node.lineno, src))
    @reg.model('bob.share.OpenLocked', 'Dyn.OpenLocked')
    def m_openlocked(eng, st, args, kw, node):
        a = args[-3:] if len(args) >= 3 else args
        l = fresh_z(LOCK, 'lock'); k = kind_of(node)
        ex = a[-1]
        exz = ex.z if ex.t == BOOL else z3.Bool(fresh_name('excl'))
        st.assume(z3.And(L_KIND(l) == k, L_EXCL(l) == exz))
        mode = a[-2]
        # opening truncates BEFORE the lock is taken: a meta file that may exist is never opened with 'w' (create with 'x', update with 'r+')
        eng.oblige(st, 'open@%s:meta-file-not-opened-in-a-truncating-mode' % node.lineno,
                   z3.Or(*[mode.z == z3.StringVal(x) for x in ('r', 'r+', 'x', 'x+')]) if mode.t == STR else z3.BoolVal(False), 'typestate', node)
        v = V(LOCK, l); v.src = ('lock', k, exz, ast.unparse(node.args[1]) if len(node.args) > 1 else '')
        return [(st, v)]
    def lock_enter(eng, st, args, kw, node):
        l = args[0]; k, exz = l.src[1], l.src[2]
        name = 'REPO' if k == 1 else 'PKG'
        eng.oblige(st, 'lock@%s:no-lock-is-taken-twice' % node.lineno, st.ghost[name].z == 0, 'typestate', node)
        out = []
        for cls in ('FileNotFoundError', 'FileExistsError', 'OSError'):
            out.append(eng.raise_(st.fork(), cls, 'open fails at %s' % eng.loc(node)))
        st.ghost[name] = mk_int(z3.If(exz, 2, 1)); st.ghost['HELD_' + name] = l
        out.append((st, dyn.fresh('fd')))
        return out
    def lock_exit(eng, st, args, kw, node):
        l = args[0]; k = l.src[1]; name = 'REPO' if k == 1 else 'PKG'
        st.ghost[name] = mk_int(0)
        return [(st, mk_bool(False))]
    reg.models['OpenLockedRef.__enter__'] = lock_enter; reg.models['OpenLockedRef.__exit__'] = lock_exit
    reg.always_truthy |= {'OpenLockedRef'}
    def g(st, n): return st.ghost[n].z

    # ---- effects
    @reg.model('Dyn.rename')
    def m_rename(eng, st, args, kw, node):
        u = getattr(reg.current_unit, 'qual', '')
        ln = node.lineno
        if u.endswith('gc'):
            eng.oblige(st, 'rename@%s:package-leaves-the-store-only-under-the-exclusive-repository-lock' % ln, g(st, 'REPO') == 2, 'typestate', node)
            fr = st.frames[-1]
            dry = fr.get('dryRun')
            eng.oblige(st, 'rename@%s:never-in-a-dry-run' % ln, z3.Not(eng.truth(st, dry)), 'effect', node)
            pu, prune = fr.get('pkgUnused'), fr.get('pruneUnused')
            me = fr['self']; quota = eng.getattr_(st, me, '_LocalShare__quota', node)[0][1] if False else None
            # the admission guard of the loop, restated: (unused and pruneUnused) or (quota set and over quota)
            qz = dyn.ATTR(me.z, z3.StringVal('_LocalShare__quota'))
            over = z3.And(qz != dyn.NONE_D, z3.Not(z3.Function('DYN_CMP_LtE', D, D, z3.BoolSort())(dyn.dynify(eng, st, fr['repoSizeBefore']) if 'repoSizeBefore' in fr else dyn.dynify(eng, st, st.ghost['SIZE_AT_GUARD']), qz)))
            eng.oblige(st, 'rename@%s:only-an-unused-package-when-asked-to-prune-unused-or-while-over-quota' % ln,
                       z3.Or(z3.And(eng.truth(st, pu), eng.truth(st, prune)), over), 'policy', node)
            st.ghost['REMOVED'] = mk_int(g(st, 'REMOVED') + 1)
        else:
            act = st.ghost.get('ACTUAL'); want = st.frames[-1].get('sharedHash')
            verified = dyn.EQ(act.z, dyn.dynify(eng, st, want)) if act is not None and want is not None else z3.BoolVal(False)     # the code's own `actualHash != sharedHash` test was false
            eng.oblige(st, 'rename@%s:package-becomes-visible-only-after-its-hash-was-verified-and-its-meta-data-written' % ln,
                       z3.And(verified, g(st, 'META_WRITTEN')), 'typestate', node)
            st.ghost['RENAME_TRIED'] = mk_bool(True)
            x = st.fork(); out = [eng.raise_(x, 'OSError', 'rename fails (lost race or I/O) at %s' % eng.loc(node))]
            st.ghost['RENAMED'] = mk_bool(True); out.append((st, mk_none())); return out
        return [eng.raise_(st.fork(), 'OSError', 'rename fails at %s' % eng.loc(node)), (st, mk_none())]
    @reg.model('Dyn.dump')
    def m_dump(eng, st, args, kw, node):
        u = getattr(reg.current_unit, 'qual', ''); ln = node.lineno
        if u.endswith('gc'):
            eng.oblige(st, 'dump@%s:accounting-rewritten-under-the-exclusive-repository-lock' % ln, g(st, 'REPO') == 2, 'typestate', node)
            st.ghost['ACCOUNTED'] = mk_int(g(st, 'ACCOUNTED') + 1)
        elif u.endswith('useSharedPackage'):
            eng.oblige(st, 'dump@%s:user-list-rewritten-only-under-shared-repository-lock-and-exclusive-package-lock' % ln, z3.And(g(st, 'REPO') == 1, g(st, 'PKG') == 2), 'typestate', node)
        elif u.endswith('installSharedPackage'):
            eng.oblige(st, 'dump@%s:meta-data-written-before-the-package-is-visible' % ln, z3.Not(g(st, 'RENAMED')), 'typestate', node)
            st.ghost['META_WRITTEN'] = mk_bool(True)
        elif 'addPackage' in u or u.endswith('update'):
            eng.oblige(st, 'dump@%s:repository-accounting-only-under-its-exclusive-lock' % ln, g(st, 'REPO') == 2, 'typestate', node)
        return [eng.raise_(st.fork(), 'OSError', 'write fails at %s' % eng.loc(node)), (st, mk_none())]
    @reg.model('Dyn.load', 'Dyn.loadRepoMeta')
    def m_load(eng, st, args, kw, node):
        u = getattr(reg.current_unit, 'qual', '')
        if 'addPackage' in u or u.endswith('update'):
            eng.oblige(st, 'load@%s:repository-accounting-read-under-its-exclusive-lock' % node.lineno, g(st, 'REPO') == 2, 'typestate', node)
        if u.endswith('useSharedPackage'):
            x = st.fork()
            return [eng.raise_(x, 'json.JSONDecodeError', 'corrupt json at %s' % eng.loc(node)), (st, dyn.fresh('json'))]
        return [(st, dyn.fresh('json'))]       # repo.json: complete JSON whenever it is read under its lock (every writer rewrites it under the exclusive lock; crashes are outside C15)
    reg.exc_classes['json.JSONDecodeError'] = ['ValueError']; reg.exc_classes['JSONDecodeError'] = ['ValueError']
    @reg.model('Dyn.hashDirectoryWithSize')
    def m_hash(eng, st, args, kw, node):
        h = dyn.fresh('actualHash'); st.ghost['ACTUAL'] = h
        return [(st, V(PyTupT(2), [h, dyn.fresh('actualSize')]))]
    for nm in ('rmtree', 'unlink', 'remove'):
        def m_del(eng, st, args, kw, node, nm=nm):
            eng.oblige(st, '%s@%s:nothing-is-deleted-while-a-lock-is-held' % (nm, node.lineno), z3.And(g(st, 'REPO') == 0, g(st, 'PKG') == 0), 'typestate', node)
            return [(st, mk_none())]
        reg.models['Dyn.' + nm] = m_del
    @reg.model('Dyn.useSharedPackage')
    def m_use(eng, st, args, kw, node):
        # (called by installSharedPackage when the package is already there: records this workspace as a user)
        x = st.fork(); out = [eng.raise_(x, 'bob.errors.BuildError', 'meta data unreadable at %s' % eng.loc(node))]
        path = dyn.fresh('usedPath'); st.ghost['REGISTERED'] = V(BOOL, path.z != dyn.NONE_D); st.ghost['USE_CALLED'] = mk_bool(True)
        out.append((st, V(PyTupT(2), [path, dyn.fresh('usedHash')])))
        return out
    @reg.model('Dyn.__addPackage', 'Dyn._LocalShare__addPackage')
    def m_add(eng, st, args, kw, node):
        eng.oblige(st, 'addPackage@%s:size-accounted-only-for-a-package-this-call-made-visible' % node.lineno, g(st, 'RENAMED'), 'typestate', node)
        return [eng.raise_(st.fork(), 'bob.errors.BuildError', 'accounting fails'), (st, dyn.fresh('repoSize'))]
    # ---- OpenLocked itself: the lock is what makes "read under the lock" mean "complete": a writer's buffered update has to be
    # flushed BEFORE the lock is released, the lock is released and the file closed on every path (ghost FLUSH_TRIED,
    # UNLOCK_TRIED, CLOSED, OPENED, LOCKED)
    def ol(): return getattr(reg.current_unit, 'qual', '').startswith('OpenLocked')
    @reg.model('Dyn.flush')
    def m_flush(eng, st, args, kw, node):
        if not ol(): return None
        st.ghost['FLUSH_TRIED'] = mk_bool(True)
        return [eng.raise_(st.fork(), 'OSError', 'flush fails (disk full) at %s' % eng.loc(node)), (st, mk_none())]
    @reg.model('Dyn.unlockFile')
    def m_unlock(eng, st, args, kw, node):
        if not ol(): return None
        eng.oblige(st, 'unlockFile@%s:buffered-updates-are-flushed-before-the-lock-is-released' % node.lineno, g(st, 'FLUSH_TRIED'), 'typestate', node)
        eng.oblige(st, 'unlockFile@%s:file-still-open-when-unlocked' % node.lineno, z3.Not(g(st, 'CLOSED')), 'typestate', node)
        st.ghost['UNLOCK_TRIED'] = mk_bool(True)
        return [eng.raise_(st.fork(), 'OSError', 'unlock fails at %s' % eng.loc(node)), (st, mk_none())]
    @reg.model('Dyn.close')
    def m_close(eng, st, args, kw, node):
        if not ol(): return None
        st.ghost['CLOSED'] = mk_bool(True)
        return [eng.raise_(st.fork(), 'OSError', 'close fails at %s' % eng.loc(node)), (st, mk_none())]
    @reg.model('Dyn.open', 'open')
    def m_open(eng, st, args, kw, node):
        if not ol(): return None
        out = [eng.raise_(st.fork(), c, 'open fails at %s' % eng.loc(node)) for c in ('FileNotFoundError', 'FileExistsError', 'OSError')]
        fd = dyn.fresh('fd'); st.ghost['OPENED'] = mk_bool(True); st.ghost['FD'] = fd
        return out + [(st, fd)]
    @reg.model('Dyn.lockFile')
    def m_lockfile(eng, st, args, kw, node):
        if not ol(): return None
        a = args[-2:]
        eng.oblige(st, 'lockFile@%s:the-opened-file-is-locked-in-the-requested-mode' % node.lineno,
                   z3.And(g(st, 'OPENED'), a[0].z == st.ghost['FD'].z, dyn.dynify(eng, st, a[1]) == dyn.ATTR(st.frames[-1]['self'].z, z3.StringVal('exclusive'))), 'typestate', node)
        x = st.fork(); out = [eng.raise_(x, 'OSError', 'flock fails / interrupted at %s' % eng.loc(node))]
        st.ghost['LOCKED'] = mk_bool(True)
        return out + [(st, mk_none())]
    def ol_init(eng, st):
        for n in ('FLUSH_TRIED', 'UNLOCK_TRIED', 'CLOSED', 'OPENED', 'LOCKED'): st.ghost[n] = mk_bool(False)
        st.ghost['FD'] = dyn.fresh('nofd')
    # the comparison `actualHash != sharedHash` decides VERIFIED: hook on the raise of the mismatch error is not needed, the
    # path condition carries it; VERIFIED is set when the code passes the comparison with equality
    units = []

    def gc_entry(eng, st): st.ghost['SIZE_AT_GUARD'] = dyn.fresh('repoSize')
    units.append(Unit(F, 'LocalShare.useSharedPackage', {'self': DYN, 'workspace': DYN, 'buildId': DYN}, 'C15', ghost_init=ghost_init,
        ensures=[('all-locks-released', lambda o, n, r: z3.And(n.ghost.REPO.z == 0, n.ghost.PKG.z == 0))],
        ensures_exc=[('all-locks-released', '*', lambda o, n: z3.And(n.ghost.REPO.z == 0, n.ghost.PKG.z == 0))],
        raises={'bob.errors.BuildError': True}, result=None, max_paths=4000,
        note='registers the user under shared repository lock + exclusive package lock; a missing store or package is "not shared"'))
    units.append(Unit(F, 'LocalShare.__addPackage', {'self': DYN, 'buildId': DYN, 'size': DYN}, 'C15', ghost_init=ghost_init,
        ensures=[('all-locks-released', lambda o, n, r: n.ghost.REPO.z == 0)], ensures_exc=[('all-locks-released', '*', lambda o, n: n.ghost.REPO.z == 0)],
        raises={'bob.errors.BuildError': True}, result=None, max_paths=4000, note='repo.json read/created/rewritten only under its exclusive lock'))
    def snap(cur, old, k, L):
        cur.st.ghost['SIZE_AT_GUARD'] = cur.var('repoSize').v        # value of repoSize that the admission guard of this iteration reads
        return [('exclusive-repository-lock-held-no-package-lock', z3.And(cur.ghost.REPO.z == 2, cur.ghost.PKG.z == 0))]
    def scan(cur, old, k, L):
        return [('exclusive-repository-lock-held-no-package-lock', z3.And(cur.ghost.REPO.z == 2, cur.ghost.PKG.z == 0)), ('nothing-removed-while-scanning', cur.ghost.REMOVED.z == 0)]
    units.append(Unit(F, 'LocalShare.gc', {'self': DYN, 'pruneUsed': DYN, 'pruneUnused': DYN, 'dryRun': DYN, 'progress': DYN, 'newPkg': DYN}, 'C15', ghost_init=ghost_init, entry_hook=gc_entry,
        ensures=[('all-locks-released', lambda o, n, r: z3.And(n.ghost.REPO.z == 0, n.ghost.PKG.z == 0))],
        ensures_exc=[('all-locks-released', '*', lambda o, n: z3.And(n.ghost.REPO.z == 0, n.ghost.PKG.z == 0))],
        raises={'bob.errors.BuildError': True, 'OSError': True, 'FileNotFoundError': True, 'FileExistsError': True}, result=None, max_paths=6000, loops={1: LoopSpec(inv=scan), 2: LoopSpec(inv=snap)},
        note='packages leave the store only under the exclusive repository lock, never in a dry run, only when the admission guard holds; accounting rewritten under the same lock'))
    def inst_post(o, n, r):
        installed = r[1]
        g = n.ghost
        # found installed (no rename tried): handed out only if the registration succeeded; lost rename race: the registration was
        # attempted (if the winner's package vanished again in between there is nothing left to register for)
        return z3.Implies(z3.Not(installed.z) if installed.t == BOOL else z3.BoolVal(False),
                          z3.And(g.USE_CALLED.z, z3.Not(g.RENAMED.z), z3.Implies(z3.Not(g.RENAME_TRIED.z), g.REGISTERED.z)))
    units.append(Unit(F, 'LocalShare.installSharedPackage', {'self': DYN, 'workspace': DYN, 'buildId': DYN, 'sharedHash': DYN, 'mayMove': DYN}, 'C15', ghost_init=ghost_init,
        ensures=[('a-package-installed-by-somebody-else-is-handed-out-only-after-recording-this-workspace-as-its-user', inst_post)], raises={'bob.errors.BuildError': True}, result=None, max_paths=6000,
        note='visible only after hash verification and meta data; lost rename race tolerated; size accounted after a successful rename'))
    units.append(Unit(F, 'OpenLocked.__exit__', {'self': DYN, 'exc_type': DYN, 'exc_value': DYN, 'traceback': DYN}, 'C15', ghost_init=ol_init,
        ensures=[('flushed-then-unlocked-then-closed', lambda o, n, r: z3.And(n.ghost.FLUSH_TRIED.z, n.ghost.UNLOCK_TRIED.z, n.ghost.CLOSED.z))],
        ensures_exc=[('file-closed-even-when-a-step-fails', '*', lambda o, n: n.ghost.CLOSED.z)],     # close() gives the flock up with the descriptor
        raises={'OSError': True}, result=None, max_paths=400,
        note='buffered updates reach the file before the lock is released; the lock is released and the file closed on every path'))
    units.append(Unit(F, 'OpenLocked.__enter__', {'self': DYN}, 'C15', ghost_init=ol_init,
        ensures=[('returns-the-opened-file-locked-and-not-closed', lambda o, n, r: z3.And(n.ghost.OPENED.z, n.ghost.LOCKED.z, z3.Not(n.ghost.CLOSED.z), r.z == n.ghost.FD.z))],
        ensures_exc=[('a-file-that-could-not-be-locked-is-closed-again', '*', lambda o, n: z3.Implies(n.ghost.OPENED.z, n.ghost.CLOSED.z))],
        raises={'OSError': True, 'FileNotFoundError': True, 'FileExistsError': True}, result=None, max_paths=400,
        note='opens the file and takes the flock in the requested mode; no descriptor (and no lock) leaks when locking fails'))
    units[-1].dyn_attr_store = True
    # ---- usage check (strict typed mode): a package is unused exactly if NO recorded user workspace still points to it
    META = OpaqueT('PkgMeta'); LSTR = ListT(STR)
    USERS = z3.Function('META_users', sort_of(META), sort_of(LSTR)); JOIN = z3.Function('path_join', z3.StringSort(), z3.StringSort(), z3.StringSort())
    SAME = z3.Function('sameWorkspace', z3.StringSort(), z3.StringSort(), z3.BoolSort())
    def meta_get(eng, st, args, kw, node):
        if not (z3.is_string_value(args[1].z) and args[1].z.as_string() == 'users'): raise Unsupported('pkgMeta.get of another key at %s' % eng.loc(node))
        L = USERS(args[0].z); st.assume(list_len(LSTR, L) >= 0)
        return [(st, eng.alloc(st, LSTR, L))]
    reg.models['PkgMeta.get'] = meta_get
    def m_same(eng, st, args, kw, node):
        if reg.dyn: return None
        return [eng.raise_(st.fork(), 'bob.errors.BuildError', 'workspace cannot be inspected at %s' % eng.loc(node)), (st, mk_bool(SAME(args[0].z, args[1].z)))]
    reg.models['bob.share.sameWorkspace'] = m_same
    def m_join(eng, st, args, kw, node):
        if reg.dyn or len(args) != 2 or args[0].t != STR or args[1].t != STR: return None
        return [(st, V(STR, JOIN(args[0].z, args[1].z)))]
    reg.models['os.path.join'] = m_join
    reg.pure_names |= {'bob.share.sameWorkspace', 'os.path.join', 'PkgMeta.get'}
    def unused_post(o, n, r):
        j = z3.Int('uj'); U = USERS(o.pkgMeta.z); ws = JOIN(o.pkgPath.z, z3.StringVal('workspace'))
        return r.z == z3.ForAll([j], z3.Implies(z3.And(0 <= j, j < list_len(LSTR, U)), z3.Not(SAME(list_get(LSTR, U, j), ws))), patterns=[list_get(LSTR, U, j)])
    cu = Unit(F, 'checkUnused', {'pkgMeta': META, 'pkgPath': STR}, 'C15', result=BOOL, raises={'bob.errors.BuildError': True},
        ensures=[('unused-exactly-if-no-recorded-user-workspace-points-to-the-package', unused_post)],
        note='strict typed mode; sameWorkspace(link, path) is an uninterpreted predicate that may raise BuildError (file system inspection: bounded native search)')
    cu.dyn = False; units.append(cu)
    units += [Watch(F, 'sameWorkspace', 'usage check (link / place-holder file inspection)')]
    return units
