# C18 - Package path queries return their declarative meaning  (pym/bob/pathspec.py)
#
# Under contract: LocationPath.__findReachableSubset, the worklist that trims the trail to the nodes from which the
# current results are reachable: proved (loop invariant, unbounded graphs) that the returned set only contains valid
# nodes, contains every valid start node, and is closed under "valid parent of a member".
# The forward/backward evaluation of the steps and the result listing are watched and covered by the bounded native
# search (generated DAGs x generated queries against an independent step-by-step evaluation).
import ast, z3
from pyvc.api import *
from pyvc.ty import *
from pyvc.core import Raise, Exc, Unsupported
from pyvc.view import SV, W

F = 'pym/bob/pathspec.py'
NODE = OpaqueT('GraphNode'); N = sort_of(NODE)
PARENT = z3.Function('IS_PARENT_OF', N, N, z3.BoolSort())       # PARENT(p, n): p is a parent of n
LP = 'bob.pathspec.LocationPath'

def build(reg):
    reg.classes[LP] = ClassSpec(LP, {})
    reg.trusted += ['PkgGraphNode.parents(True) returns exactly the parents of a node (IS_PARENT_OF; established by the graph construction, watched)',
                    'set.pop() removes and returns an arbitrary member']
    ST = SetT(NODE)
    @reg.model('GraphNode.parents')
    def parents(eng, st, args, kw, node):
        p = z3.Const(fresh_name('p'), N)
        # parents(True): every edge (direct and indirect dependencies); parents(False): only the direct ones, a subset
        DIRECT = z3.Function('IS_DIRECT_PARENT_OF', N, N, z3.BoolSort())
        flag = args[1] if len(args) > 1 else kw.get('indirect', kw.get('withIndirect'))
        if flag is None: raise Unsupported('parents() without its flag at %s' % eng.loc(node))
        fz = eng.truth(st, flag)
        st.assume(z3.ForAll([p], z3.Implies(DIRECT(p, args[0].z), PARENT(p, args[0].z)), patterns=[DIRECT(p, args[0].z)]))
        return [(st, eng.alloc(st, ST, z3.Lambda([p], z3.If(fz, PARENT(p, args[0].z), DIRECT(p, args[0].z)))))]
    reg.pure_names |= {'GraphNode.parents'}
    # set.pop(): arbitrary member
    def set_pop(eng, st, args, kw, node):
        r = args[0]; z = eng.deref(st, r)
        x = fresh_z(NODE, 'popped')
        outs, ok = eng.guard(st, z != z3.K(N, z3.BoolVal(False)), 'KeyError', node, 'pop from an empty set')
        if ok is not None:
            ok.assume(z3.Select(z, x)); eng.setcell(ok, r, z3.Store(z, x, False)); outs.append((ok, V(NODE, x)))
        return outs
    reg.models['set.pop'] = set_pop
    def set_copy_from(eng, st, args, kw, node):
        if not args: return [(st, eng.alloc(st, SetT(ANY), None))]
        a = args[0]
        if isinstance(a.t, SetT): return [(st, eng.alloc(st, a.t, eng.deref(st, a)))]
        return None
    reg.models['set'] = set_copy_from

    def inv(cur, old):
        ret = cur.ret.z; todo = cur.todo.z; valid = old.valid.z; nodes = old.nodes.z
        n, p = z3.Consts('rn rp', N)
        return [('ret-within-valid', z3.ForAll([n], z3.Implies(z3.Select(ret, n), z3.Select(valid, n)))),
                ('start-nodes-handled', z3.ForAll([n], z3.Implies(z3.And(z3.Select(nodes, n), z3.Select(valid, n)), z3.Or(z3.Select(ret, n), z3.Select(todo, n))))),
                ('parents-of-members-handled', z3.ForAll([n, p], z3.Implies(z3.And(z3.Select(ret, n), PARENT(p, n), z3.Select(valid, p)), z3.Or(z3.Select(ret, p), z3.Select(todo, p))))),
                ('frame', cur.valid.z == valid)]
    def post(o, n_, r):
        ret = r.z; valid = o.valid.z; nodes = o.nodes.z
        n, p = z3.Consts('pn pp', N)
        return z3.And(z3.ForAll([n], z3.Implies(z3.Select(ret, n), z3.Select(valid, n))),
                      z3.ForAll([n], z3.Implies(z3.And(z3.Select(nodes, n), z3.Select(valid, n)), z3.Select(ret, n))),
                      z3.ForAll([n, p], z3.Implies(z3.And(z3.Select(ret, n), PARENT(p, n), z3.Select(valid, p)), z3.Select(ret, p))))
    units = [Unit(F, 'LocationPath.__findReachableSubset', {'self': ObjT(LP), 'valid': ST, 'nodes': ST}, 'C18',
                  ensures=[('valid-closed-under-parents-and-contains-the-start-nodes', post)], loops={1: LoopSpec(inv=inv)}, result=ST,
                  locals_types={'ret': ST, 'todo': ST}, note='trail trimming: worklist closure over parent edges inside the trail')]
    units += [Watch(F, 'LocationPath.__findIntermediateNodes', 'trail between two result sets (recursive closure; fixed finding F-C18)'),
              Watch(F, 'LocationPath.evalForward', 'forward evaluation with trail'), Watch(F, 'LocationPath.evalBackward', 'backward evaluation for predicates'),
              Watch(F, 'LocationStep.evalForward', 'one step forward'), Watch(F, 'LocationStep.evalBackward', 'one step backward'),
              Watch(F, 'PackageSet.__findResultNodes', 'result listing (known finding F-C18b)'), Watch(F, 'PackageSet.__findResultPackages', 'result listing'),
              Watch(F, 'PackageSet.__query', 'alias substitution and parsing')]
    return units
