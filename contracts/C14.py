# C14 - Audit trails are complete and truthful  (pym/bob/audit.py)
#
# (1) Artifact ids are a function of the record content: representation invariant of Artifact
#         'artifact-id' in data  =>  the id was computed from the CURRENT content
#     kept by every mutator (each must invalidate the cached id after changing the record) and established by
#     __calculateArtifactId/dump/getId.  Ghost: a content version counter bumped by every write into the record.
# (2) Audit trails are transitively complete: closure invariant of Audit
#         every id referenced by the artifact or by a member of `references` is a key of `references`
#     kept by addArg/addTool/setSandbox/__merge given closed operands (loaded audits are assumed closed).
# _generateAudit (builder) and the digest functions are watched and covered by the bounded native search.
import ast, z3
from pyvc.api import *
from pyvc.ty import *
from pyvc.core import Raise, Exc, Unsupported
from pyvc.view import SV, W

F = 'pym/bob/audit.py'
ART = 'bob.audit.Artifact'; AUD = 'bob.audit.Audit'
JS = OpaqueT('JsonValue'); B = sort_of(BYTES)
CHILD = z3.Function('JSON_CHILD', sort_of(JS), z3.StringSort(), sort_of(JS))
ROOT = z3.Const('the_record', sort_of(JS))

def build(reg):
    reg.classes[ART] = ClassSpec(ART, {'_Artifact__data': JS})
    reg.trusted += ['the JSON record of an Artifact is an abstract value; every write into it (item assignment, del, append, setdefault) bumps a ghost content version; reads are uninterpreted',
                    'digestData/hashlib: the id computed by __calculateArtifactId is a function of the record content at that moment (digestData itself is watched, not proved)',
                    'audits loaded from files (Audit.fromFile) satisfy the closure invariant (or DEBUG[audit] validates them)']

    def ghost_init(eng, st):
        st.ghost['has_id'] = V(BOOL, fresh_z(BOOL, 'has_id'))
        st.ghost['id_version'] = V(INT, fresh_z(INT, 'id_version'))
        st.ghost['content_version'] = V(INT, fresh_z(INT, 'content_version'))
    def bump(st): st.ghost['content_version'] = V(INT, st.ghost['content_version'].z + 1)
    def is_root(v): return v.t == JS and z3.eq(z3.simplify(v.z), ROOT)
    def is_lit(v, s): return v.t == STR and z3.is_string_value(z3.simplify(v.z)) and z3.simplify(v.z).as_string() == s

    def index_hook(eng, st, c, i, node):
        if c.t == JS and i.t == STR: return [(st, V(JS, CHILD(c.z, i.z)))]
        return None
    def setitem_hook(eng, st, c, k, v, node):
        if c.t != JS: return None
        if is_root(c) and is_lit(k, 'artifact-id'):
            st.ghost['has_id'] = mk_bool(True); st.ghost['id_version'] = st.ghost['content_version']
        else: bump(st)
        return [(st, None)]
    def delitem_hook(eng, st, c, k, node):
        if c.t != JS: return None
        if is_root(c) and is_lit(k, 'artifact-id'): st.ghost['has_id'] = mk_bool(False)
        else: bump(st)
        return [(st, None)]
    def contains_hook(eng, st, cont, x, node):
        if cont.t != JS: return None
        if is_root(cont) and is_lit(x, 'artifact-id'): return st.ghost['has_id'].z
        f = z3.Function('JSON_HAS', sort_of(JS), z3.StringSort(), z3.IntSort(), z3.BoolSort())
        return f(cont.z, x.z, st.ghost['content_version'].z)
    reg.index_hook = index_hook; reg.setitem_hook = setitem_hook; reg.delitem_hook = delitem_hook; reg.contains_hook = contains_hook
    @reg.model('JsonValue.setdefault')
    def js_setdefault(eng, st, args, kw, node):
        bump(st); return [(st, V(JS, CHILD(args[0].z, args[1].z)))]
    @reg.model('JsonValue.append')
    def js_append(eng, st, args, kw, node):
        bump(st); return [(st, mk_none())]
    @reg.model('JsonValue.get')
    def js_get(eng, st, args, kw, node): return [(st, V(JS, CHILD(args[0].z, args[1].z)))]
    reg.model_effects['JsonValue.setdefault'] = lambda eng, st, recv, n, eff: None
    reg.opaque.update({'bob.utils.asHexStr': STR, 'hashlib.sha1': OpaqueT('Hasher'), 'bob.audit.digestData': NONE, 'Hasher.digest': BYTES,
                       'RecipesAudit.dump': JS, 'ScmClass.fromDir': OpaqueT('ScmAudit'), 'ScmAudit.dump': JS, 'JsonValue.items': NONE, 'bytes.fromhex': BYTES})
    reg.pure_names |= {'bytes.fromhex', 'bob.utils.asHexStr', 'hashlib.sha1', 'bob.audit.digestData', 'Hasher.digest', 'JsonValue.get'}
    def comp_hook(eng, st, e, kind): return [(st, V(JS, fresh_z(JS, 'comp')))]
    reg.comp_hook = comp_hook
    from theories import fs
    fs.install(reg); reg.fs_infallible = False

    def INV(s):
        g = s.ghost
        return [('cached-id-is-current', z3.Implies(g.has_id.z, g.id_version.z == g.content_version.z))]
    def req(s): return INV(s) + [('record', s.self.f('__data').z == ROOT)]
    def inv_post(o, n, r): return z3.And(*[c for _, c in INV(n)])
    def g_init(eng, st):
        ghost_init(eng, st); fs.init_ghost(eng, st)

    units = []
    def art_self(eng, st): return eng.new_obj(st, ART, {'_Artifact__data': V(JS, ROOT)})
    def mut(qual, params, raises=None, note='', extra_post=()):
        u = Unit(F, 'Artifact.' + qual, dict({'self': art_self}, **params), 'C14', requires=req, ghost_init=g_init,
                 ensures=[('artifact-id-is-a-function-of-the-record', inv_post)] + list(extra_post), raises=raises or {},
                 ensures_exc=[('artifact-id-is-a-function-of-the-record', '*', lambda o, n: inv_post(o, n, None))],
                 modifies=[], note=note)
        units.append(u); return u
    changed = lambda o, n, r: z3.Implies(n.ghost.content_version.z != o.ghost.content_version.z, z3.Not(n.ghost.has_id.z))
    mut('addDefine', {'name': STR, 'value': STR}, extra_post=[('changed-record-drops-cached-id', changed)])
    mut('addMetaEnv', {'var': STR, 'value': STR}, extra_post=[('changed-record-drops-cached-id', changed)])
    mut('addAuditFile', {'var': STR, 'value': STR}, extra_post=[('changed-record-drops-cached-id', changed)])
    mut('addTool', {'name': STR, 'toolId': BYTES}, extra_post=[('changed-record-drops-cached-id', changed)])
    mut('setSandbox', {'sandboxId': BYTES}, extra_post=[('changed-record-drops-cached-id', changed)])
    mut('addArg', {'argId': BYTES}, extra_post=[('changed-record-drops-cached-id', changed)])
    mut('setRecipes', {'recipes': OptT(OpaqueT('RecipesAudit'))}, extra_post=[('changed-record-drops-cached-id', changed)])
    mut('setEnv', {'env': STR}, raises={'bob.errors.ParseError': True}, extra_post=[('changed-record-drops-cached-id', changed)])
    mut('__invalidateId', {}, extra_post=[('drops-the-id', lambda o, n, r: z3.Not(n.ghost.has_id.z))])
    mut('__calculateArtifactId', {}, extra_post=[('id-present-and-current', lambda o, n, r: z3.And(n.ghost.has_id.z, n.ghost.id_version.z == n.ghost.content_version.z,
                                                                                         n.ghost.content_version.z == o.ghost.content_version.z))])
    # call-site contracts
    reg.add(Unit(F, 'Artifact.__invalidateId', {'self': ObjT(ART)}, 'C14', requires=lambda s: [('record', s.self.f('__data').z == ROOT)],
                 ensures=[('drops', lambda o, n, r: z3.And(z3.Not(n.ghost.has_id.z), n.ghost.content_version.z == o.ghost.content_version.z))],
                 modifies_ghost=['has_id'], verify=False))
    reg.add(Unit(F, 'Artifact.__calculateArtifactId', {'self': ObjT(ART)}, 'C14', requires=req,
                 ensures=[('current', lambda o, n, r: z3.And(n.ghost.has_id.z, n.ghost.id_version.z == n.ghost.content_version.z, n.ghost.content_version.z == o.ghost.content_version.z))],
                 modifies_ghost=['has_id', 'id_version'], verify=False))
    mut('dump', {}, extra_post=[('id-present-and-current', lambda o, n, r: z3.And(n.ghost.has_id.z, n.ghost.id_version.z == n.ghost.content_version.z))])
    units[-1].result = None
    mut('getId', {}, extra_post=[('id-present-and-current', lambda o, n, r: z3.And(n.ghost.has_id.z, n.ghost.id_version.z == n.ghost.content_version.z))])
    units[-1].result = None

    # ---------------------------------------------------------------- Audit closure
    ARTV = OpaqueT('ArtifactObj')            # Artifact objects held by an Audit, seen through REFS / ID
    REFS = z3.Function('ART_REFS', sort_of(ARTV), z3.IntSort(), z3.ArraySort(B, z3.BoolSort()))    # references at version
    IDOF = z3.Function('ART_ID', sort_of(ARTV), z3.IntSort(), B)
    RT = DictT(BYTES, ARTV)
    reg.classes[AUD] = ClassSpec(AUD, {'_Audit__artifact': ARTV, '_Audit__references': RT})
    def aud_ghost(eng, st):
        st.ghost['aver'] = V(INT, fresh_z(INT, 'aver'))       # version of self.__artifact's dependency record
        st.ghost['LOADED'] = mk_bool(False); st.ghost['LOADED_ART'] = V(ARTV, fresh_z(ARTV, 'noart'))
    def closed(s, aud, ver):
        """closure invariant of an Audit object `aud` whose own artifact is at dependency-version `ver`"""
        refs = aud.f('__references'); art = aud.f('__artifact').z
        x = z3.Const('cx', B); k = z3.Const('ck', B); ot = opt(ARTV)
        has = lambda key: z3.Not(opt_is_none(ot, z3.Select(refs.z, key)))
        member = lambda key: opt_val(ot, z3.Select(refs.z, key))
        return z3.And(z3.ForAll([x], z3.Implies(z3.Select(REFS(art, ver), x), has(x))),
                      z3.ForAll([k, x], z3.Implies(z3.And(has(k), z3.Select(REFS(member(k), 0), x)), has(x))))
    # models: an Artifact object inside an Audit
    @reg.model('ArtifactObj.getReferences')
    def a_getrefs(eng, st, args, kw, node):
        ver = st.ghost['aver'].z if z3.eq(args[0].z, st.ghost.get('self_art', V(ARTV, None)).z) else z3.IntVal(0)
        return [(st, eng.alloc(st, SetT(BYTES), REFS(args[0].z, ver)))]
    def add_ref_model(name):
        @reg.model('ArtifactObj.' + name)
        def m(eng, st, args, kw, node):
            # artifact.addArg/addTool/setSandbox(id): the artifact's references grow by exactly that id
            ver = st.ghost['aver'].z; idz = args[-1].z; a = args[0].z
            st.assume(REFS(a, ver + 1) == z3.Store(REFS(a, ver), idz, True))
            st.ghost['aver'] = V(INT, ver + 1)
            return [(st, mk_none())]
    for n_ in ('addArg', 'addTool', 'setSandbox'): add_ref_model(n_)
    @reg.model('bob.audit.Audit.fromFile')
    def fromfile(eng, st, args, kw, node):
        o = eng.fresh(st, ObjT(AUD), 'loaded')
        sv = SV(eng, st)
        st.assume(closed(sv, W(eng, st, o), z3.IntVal(0)))
        st.ghost['loaded_ids'] = st.ghost.get('loaded_ids', [])
        st.ghost['LOADED_ART'] = V(ARTV, eng.getfield(st, o, '_Audit__artifact').z); st.ghost['LOADED'] = mk_bool(True)
        return [(st, o)]
    @reg.model('bob.audit.Audit.getId')
    def getid(eng, st, args, kw, node):
        a = eng.getfield(st, args[0], '_Audit__artifact').z
        return [(st, V(BYTES, IDOF(a, 0)))]
    reg.pure_names |= {'ArtifactObj.getReferences', 'bob.audit.Audit.fromFile', 'bob.audit.Audit.getId'}

    def aud_req(s):
        return [('closed', closed(s, s.self, s.ghost.aver.z))]
    def aud_post(o, n, r): return closed(n, n.self, n.ghost.aver.z)
    def recorded(o, n, r):
        # the record of THIS step lists the dependency (dependencies.args / tools / sandbox), whether or not its trail was already known
        a = n.st.ghost['self_art'].z
        return z3.And(n.st.ghost['LOADED'].z, n.ghost.aver.z == o.ghost.aver.z + 1, z3.Select(REFS(a, n.ghost.aver.z), IDOF(n.st.ghost['LOADED_ART'].z, 0)))
    def self_factory(eng, st):
        o = eng.fresh(st, ObjT(AUD), 'self'); st.ghost['self_art'] = eng.getfield(st, o, '_Audit__artifact'); return o
    for q, p in (('addArg', 'arg'), ('addTool', 'tool'), ('setSandbox', 'sandbox')):
        params = {'self': self_factory}
        if q == 'addTool': params['name'] = STR
        params[p] = STR
        units.append(Unit(F, 'Audit.' + q, params, 'C14', requires=aud_req, ghost_init=aud_ghost,
            ensures=[('references-stay-transitively-complete', aud_post), ('the-dependency-itself-is-recorded-in-the-artifact-exactly-once', recorded)], modifies=['self.__references'],
            note='merge the dependency trail, then reference it'))
    # __merge: verified on its own, used as contract above
    def merge_req(s): return [('closed', closed(s, s.self, s.ghost.aver.z)), ('operand-closed', closed(s, s.other, z3.IntVal(0)))]
    def merge_post(o, n, r):
        refs = n.self.f('__references'); ot = opt(ARTV)
        oid = IDOF(o.other.f('__artifact').z, 0)
        return z3.And(closed(n, n.self, n.ghost.aver.z),
                      z3.Not(opt_is_none(ot, z3.Select(refs.z, oid))), opt_val(ot, z3.Select(refs.z, oid)) == o.other.f('__artifact').z,
                      n.ghost.aver.z == o.ghost.aver.z)
    def other_factory(eng, st): return eng.fresh(st, ObjT(AUD), 'other')
    units.append(Unit(F, 'Audit.__merge', {'self': self_factory, 'other': other_factory}, 'C14', requires=merge_req, ghost_init=aud_ghost,
        ensures=[('merged-and-still-closed', merge_post)], modifies=['self.__references'], modifies_ghost=False))
    reg.add(units[-1])

    units += [Watch(F, 'digestData', 'record digest (dynamic dispatch over JSON types)'), Watch(F, 'digestMap', 'sorted map digest'), Watch(F, 'digestString', 'string digest'),
              Watch(F, 'Audit.__validate', 'closure validation (debug switch)'), Watch(F, 'Audit.getReferencedBuildIds', 'build-ids of referenced dist artifacts'),
              Watch(F, 'Audit.save', 'serialisation'), Watch(F, 'Audit.load', 'deserialisation'), Watch(F, 'Artifact.addScm', 'SCM audit records (async)'),
              Watch(F, 'Artifact.setLayers', 'layer audits'), Watch(F, 'Artifact.reset', 'fresh record'),
              Watch('pym/bob/builder.py', 'LocalBuilder._generateAudit', 'writes the trail of a step: ids, meta, args/tools/sandbox, SCMs'),
              Watch('pym/bob/builder.py', 'LocalBuilder._cookCheckoutStep', 'regenerates the checkout audit when the step ran')]
    return units
