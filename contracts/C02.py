# C02 - Variant-Id separates exactly what a step executes and consumes   (pym/bob/input.py)
# C03 - ids are pure functions of the declared inputs (shares these units: contracts/C03.py imports build())
#
# Function against a spec function:
#  * DigestHasher.update/fingerprint/digest/sliceRecipes/sliceHost: two byte streams R (recipe part) and H (host part);
#    digest() == SHA1(R) ++ (SHA1(H) if H else b''); the slices give the two parts back (|SHA1(x)| == 20).
#  * CoreStep.getDigest(calculate): the streams it feeds are EXACTLY the spec serialisation
#       R == 0^20 ++ SCRIPT(script) ++ <I(#tools) ++ TOOLS(sorted items) ++ <I(#env) ++ ENV(sorted items) ++ <I(#valid args) ++ ARGS_R(valid args)
#       H == (calculate(sandbox step) if fingerprinted and sandboxed) ++ ARGS_H(valid args)
#    where TOOLS/ENV/ARGS are defined by unfolding axioms over the canonical sorted sequences.  sorted(d.items()) is
#    modelled as an uninterpreted function of the dictionary CONTENT (Array), so the proof shows the id depends on no
#    iteration order, no path, no other attribute of the step: same (script, tools by name order: variant/path/libs,
#    strong env, valid argument ids) => same id.  The converse (injectivity of the serialisation + SHA-1) is NOT proved;
#    the host stream is in fact not uniquely decodable (known finding F-C02).
import ast, z3
from pyvc.api import *
from pyvc.ty import *
from pyvc.core import Raise, Exc, Unsupported
from pyvc.view import SV, W

F = 'pym/bob/input.py'
DH = 'bob.input.DigestHasher'
B = sort_of(BYTES); S = z3.StringSort(); I = z3.IntSort()
SHA1 = z3.Function('SHA1', B, B); PACK_I = z3.Function('PACK_lt_I', I, B); UTF8 = z3.Function('utf8_encode', S, B)
CS = OpaqueT('CoreStep'); CSZ = sort_of(CS); TOOL = OpaqueT('CoreTool'); TZ = sort_of(TOOL); SBX = OpaqueT('CoreSandbox'); SBZ = sort_of(SBX); AREF = OpaqueT('ArgRef'); ARZ = sort_of(AREF)
CALC = z3.Function('calculate', CSZ, B)

def build(reg, prop='C02'):
    reg.trusted += ['hashlib.sha1(x).digest(): uninterpreted function with 20 byte results; struct.pack("<I", n): uninterpreted, 4 bytes; "<II" = two of them; str.encode("utf8") uninterpreted',
                    'sorted(d.items()) is a function of the dictionary content only (Python sorts the items; keys are unique strings)',
                    'calculate(step): the memoised variant-id callback is a function of the step; its results are at least 20 bytes long']
    units = []
    def m(name, fn): reg.models[name] = fn
    SHAOBJ = OpaqueT('Sha1'); SHA_OBJ = z3.Function('SHA1_OBJ', B, sort_of(SHAOBJ))
    m('hashlib.sha1', lambda e, st, a, kw, n: [(st, V(SHAOBJ, SHA_OBJ(e.deref(st, a[0]))))])
    def sha_digest(e, st, a, kw, n):
        z = a[0].z
        if z3.is_app(z) and z.decl().name() == 'SHA1_OBJ': return [(st, V(BYTES, SHA1(z.arg(0))))]
        return None
    m('Sha1.digest', sha_digest)
    def ax():
        x = z3.Const('shx', B); n = z3.Int('pkn')
        return [z3.ForAll([x], z3.Length(SHA1(x)) == 20, patterns=[SHA1(x)]), z3.ForAll([n], z3.Length(PACK_I(n)) == 4, patterns=[PACK_I(n)])]
    reg.axioms['always:sha1-pack-width'] = ax
    def struct_pack(e, st, a, kw, n):
        fmt = a[0].z
        if not z3.is_string_value(fmt): return None
        f = fmt.as_string()
        if f == '<I' and len(a) == 2: return [(st, V(BYTES, PACK_I(a[1].z)))]
        if f == '<II' and len(a) == 3: return [(st, V(BYTES, z3.Concat(PACK_I(a[1].z), PACK_I(a[2].z))))]
        return None
    m('struct.pack', struct_pack)
    reg.pure_names |= {'hashlib.sha1', 'Sha1.digest', 'struct.pack'}

    # ------------------------------------------------------------------ DigestHasher
    reg.classes[DH] = ClassSpec(DH, {'_DigestHasher__recipes': BYTES, '_DigestHasher__host': BYTES})
    def dh_self(eng, st):
        o = eng.fresh(st, ObjT(DH), 'self')
        for f in ('_DigestHasher__recipes', '_DigestHasher__host'):
            eng.setfield(st, o, f, eng.alloc(st, BYTES, fresh_z(BYTES, f)))        # bytearrays: mutable cells
        return o
    R_ = lambda v: v.self.f('__recipes').z
    H_ = lambda v: v.self.f('__host').z
    units.append(Unit(F, 'DigestHasher.update', {'self': dh_self, 'real': BYTES}, prop,
        ensures=[('appends-to-the-recipe-stream-only', lambda o, n, r: z3.And(R_(n) == z3.Concat(R_(o), o.real.z), H_(n) == H_(o)))]))
    units.append(Unit(F, 'DigestHasher.fingerprint', {'self': dh_self, 'imag': BYTES}, prop,
        ensures=[('appends-to-the-host-stream-only', lambda o, n, r: z3.And(H_(n) == z3.Concat(H_(o), o.imag.z), R_(n) == R_(o)))]))
    def dig(R, H): return z3.If(z3.Length(H) > 0, z3.Concat(SHA1(R), SHA1(H)), SHA1(R))
    units.append(Unit(F, 'DigestHasher.digest', {'self': dh_self}, prop, result=BYTES,
        ensures=[('sha1-of-recipe-stream-plus-sha1-of-nonempty-host-stream', lambda o, n, r: z3.And(r.z == dig(R_(o), H_(o)), R_(n) == R_(o), H_(n) == H_(o)))]))
    units.append(Unit(F, 'DigestHasher.sliceRecipes', {'digest': BYTES}, prop, result=BYTES,
        ensures=[('first-20-bytes', lambda o, n, r: r.z == z3.SubSeq(o.digest.z, 0, z3.If(z3.Length(o.digest.z) < 20, z3.Length(o.digest.z), 20)))]))
    units.append(Unit(F, 'DigestHasher.sliceHost', {'digest': BYTES}, prop, result=BYTES,
        ensures=[('rest-after-20-bytes', lambda o, n, r: r.z == z3.SubSeq(o.digest.z, 20, z3.If(z3.Length(o.digest.z) > 20, z3.Length(o.digest.z) - 20, 0)))]))
    def slice_lemma(reg, eng):
        R = z3.Const('lemR', B); H = z3.Const('lemH', B); d = dig(R, H)
        hy = ax()
        return [('slices-invert-digest:recipe-part', hy, z3.SubSeq(d, 0, 20) == SHA1(R)),
                ('slices-invert-digest:host-part', hy, z3.SubSeq(d, 20, z3.Length(d) - 20) == z3.If(z3.Length(H) > 0, SHA1(H), z3.Empty(B)))]
    class Lemma:
        kind = 'lemma'; verify = True; file = F; qual = '-'; note = 'sliceRecipes(digest()) == SHA1(R); sliceHost(digest()) == SHA1(H) or empty'
        def __init__(self, name, fn): self.name = name; self.lemma = fn
    units.append(Lemma('lemma:slices-invert-digest', slice_lemma))

    # ------------------------------------------------------------------ CoreStep.getDigest
    SMAP = DictT(STR, STR); TMAP = DictT(STR, TOOL); LS = ListT(STR)
    T_ENV = TupleT(STR, STR); T_TOOL = TupleT(STR, TOOL); L_ENV = ListT(T_ENV); L_TOOL = ListT(T_TOOL); L_CS = ListT(CS); L_AR = ListT(AREF)
    DENV = z3.Function('CS_digestEnv', CSZ, sort_of(SMAP)); TOOLS = z3.Function('CS_tools', CSZ, sort_of(TMAP)); ARGS = z3.Function('CS_args', CSZ, sort_of(L_AR))
    ISFP = z3.Function('CS_isFingerprinted', CSZ, z3.BoolSort()); HASSB = z3.Function('CS_hasSandbox', CSZ, z3.BoolSort()); SBOF = z3.Function('CS_sandbox', CSZ, SBZ)
    SB_STEP = z3.Function('SB_coreStep', SBZ, CSZ); DSCRIPT = z3.Function('CS_digestScript', CSZ, sort_of(OptT(STR)))
    T_STEP = z3.Function('TOOL_coreStep', TZ, CSZ); T_PATH = z3.Function('TOOL_path', TZ, S); T_LIBS = z3.Function('TOOL_libs', TZ, sort_of(LS))
    SORTED_ENV = z3.Function('SORTED_ITEMS_env', sort_of(SMAP), sort_of(L_ENV)); SORTED_TOOLS = z3.Function('SORTED_ITEMS_tools', sort_of(TMAP), sort_of(L_TOOL))
    VALID_ARGS = z3.Function('VALID_ARG_STEPS', CSZ, sort_of(L_CS))
    DLEN_E = z3.Function('card_' + SMAP.name(), sort_of(SMAP), I); DLEN_T = z3.Function('card_' + TMAP.name(), sort_of(TMAP), I)      # the engine's len(dict)
    OS = OptT(STR); OSB = OptT(SBX)
    reg.attr_models['CoreStep.digestEnv'] = lambda e, st, b, n: [(st, V(SMAP, DENV(b.z)))]
    reg.attr_models['CoreStep.args'] = lambda e, st, b, n: [(st, V(L_AR, ARGS(b.z)))]
    reg.attr_models['CoreSandbox.coreStep'] = lambda e, st, b, n: [(st, V(CS, SB_STEP(b.z)))]
    reg.attr_models['CoreTool.coreStep'] = lambda e, st, b, n: [(st, V(CS, T_STEP(b.z)))]
    reg.attr_models['CoreTool.path'] = lambda e, st, b, n: [(st, V(STR, T_PATH(b.z)))]
    reg.attr_models['CoreTool.libs'] = lambda e, st, b, n: [(st, V(LS, T_LIBS(b.z)))]
    m('CoreStep.isFingerprinted', lambda e, st, a, kw, n: [(st, mk_bool(ISFP(a[0].z)))])
    m('CoreStep.getSandbox', lambda e, st, a, kw, n: [(st, V(OSB, z3.If(HASSB(a[0].z), opt_some(OSB, SBOF(a[0].z)), opt_none(OSB))))])
    m('CoreStep.getDigestScript', lambda e, st, a, kw, n: [(st, V(OS, DSCRIPT(a[0].z)))])
    m('CoreStep.getTools', lambda e, st, a, kw, n: [(st, V(TMAP, TOOLS(a[0].z)))])
    m('Calculate.__call__', lambda e, st, a, kw, n: [(st, V(BYTES, CALC(a[1].z)))])
    reg.pure_names |= {'Calculate.__call__', 'CoreStep.isFingerprinted', 'CoreStep.getSandbox', 'CoreStep.getDigestScript', 'CoreStep.getTools'}
    reg.always_truthy = set(getattr(reg, 'always_truthy', ())) | {'CoreSandbox', 'CoreStep', 'CoreTool'}
    def sorted_hook(e, st, a, kw, n):
        src = getattr(a[0], 'src', None)
        if src is None or src[0] != 'dict-items': return None
        t, d = src[1], src[2]
        if t == SMAP:
            L = SORTED_ENV(d); st.assume(list_len(L_ENV, L) == DLEN_E(d)); st.assume(DLEN_E(d) >= 0); return [(st, V(L_ENV, L))]
        if t == TMAP:
            L = SORTED_TOOLS(d); st.assume(list_len(L_TOOL, L) == DLEN_T(d)); st.assume(DLEN_T(d) >= 0); return [(st, V(L_TOOL, L))]
        return None
    m('sorted:hook', sorted_hook)
    def len_hook(e, st, a, kw, n):
        v = a[0]
        if v.t == SMAP: return [(st, mk_int(DLEN_E(e.deref(st, v))))]
        if v.t == TMAP: return [(st, mk_int(DLEN_T(e.deref(st, v))))]
        return None
    reg.models['len:dict'] = len_hook
    def comp_hook(e, st, node, kind):
        # [ arg for arg in (a.refGetDestination() for a in self.args) if arg.isValid ]  -- the valid argument steps, in order
        src = ast.unparse(node)
        if 'refGetDestination' in src and 'isValid' in src and kind == 'list':
            me = st.frames[-1]['self']
            L = VALID_ARGS(me.z); st.assume(list_len(L_CS, L) >= 0)
            e.assume_note('comprehension of the valid argument steps is VALID_ARG_STEPS(self): an order preserving filter of self.args (not proved)')
            return [(st, V(L_CS, L))]
        return None
    reg.comp_hook = comp_hook

    # spec functions (unfolding axioms, instantiated by the loop invariants)
    TOOLS_ENC = z3.Function('ENC_tools', sort_of(L_TOOL), I, B); ENV_ENC = z3.Function('ENC_env', sort_of(L_ENV), I, B)
    LIBS_ENC = z3.Function('ENC_libs', sort_of(LS), I, B); ARGS_R = z3.Function('ENC_args_recipe', sort_of(L_CS), I, B); ARGS_H = z3.Function('ENC_args_host', sort_of(L_CS), I, B)
    def tool_item(L, k):
        t = tup_get(T_TOOL, list_get(L_TOOL, L, k), 1)
        c = CALC(T_STEP(t)); libs = T_LIBS(t)
        return z3.Concat(z3.SubSeq(c, 0, z3.If(z3.Length(c) < 20, z3.Length(c), 20)), PACK_I(z3.Length(T_PATH(t))), PACK_I(list_len(LS, libs)), UTF8(T_PATH(t)), LIBS_ENC(libs, list_len(LS, libs)))
    def env_item(L, k):
        it = list_get(L_ENV, L, k); key = tup_get(T_ENV, it, 0); val = tup_get(T_ENV, it, 1)
        return z3.Concat(PACK_I(z3.Length(key)), PACK_I(z3.Length(val)), UTF8(z3.Concat(key, val)))
    def lib_item(L, k):
        l = list_get(LS, L, k); return z3.Concat(PACK_I(z3.Length(l)), UTF8(l))
    def argr_item(L, k):
        c = CALC(list_get(L_CS, L, k)); return z3.SubSeq(c, 0, z3.If(z3.Length(c) < 20, z3.Length(c), 20))
    def argh_item(L, k):
        c = CALC(list_get(L_CS, L, k)); return z3.SubSeq(c, 20, z3.If(z3.Length(c) > 20, z3.Length(c) - 20, 0))
    def unfold():
        out = []
        for fn, item, srt in ((TOOLS_ENC, tool_item, sort_of(L_TOOL)), (ENV_ENC, env_item, sort_of(L_ENV)), (LIBS_ENC, lib_item, sort_of(LS)), (ARGS_R, argr_item, sort_of(L_CS)), (ARGS_H, argh_item, sort_of(L_CS))):
            L = z3.Const('uL_' + fn.name(), srt); k = z3.Int('uk_' + fn.name())
            out.append(z3.ForAll([L], fn(L, 0) == z3.Empty(B), patterns=[fn(L, 0)]))
            out.append(z3.ForAll([L, k], z3.Implies(k >= 0, fn(L, k + 1) == z3.Concat(fn(L, k), item(L, k))), patterns=[fn(L, k + 1)]))
        return out + ax()
    reg.axioms['always:digest-spec-unfolding'] = unfold

    ZERO20 = z3.Function('py_bytes_repeat', B, I, B)(z3.Unit(z3.BitVecVal(0, 8)), z3.IntVal(20))
    def script_part(me):
        sc = DSCRIPT(me); s_ = opt_val(OS, sc)
        has = z3.And(z3.Not(opt_is_none(OS, sc)), z3.Length(s_) > 0)
        zero4 = z3.Concat(*[z3.Unit(z3.BitVecVal(0, 8)) for _ in range(4)])
        return z3.If(has, z3.Concat(PACK_I(z3.Length(s_)), UTF8(s_)), zero4)
    def head(me): return z3.Concat(ZERO20, script_part(me))
    def TL(me): return SORTED_TOOLS(TOOLS(me))
    def EL(me): return SORTED_ENV(DENV(me))
    def nT(me): return list_len(L_TOOL, TL(me))
    def nE(me): return list_len(L_ENV, EL(me))
    def AV(me): return VALID_ARGS(me)
    def nA(me): return list_len(L_CS, AV(me))
    def H0(me): return z3.If(z3.And(ISFP(me), HASSB(me)), CALC(SB_STEP(SBOF(me))), z3.Empty(B))
    def hR(v): return v.h.f('__recipes').z
    def hH(v): return v.h.f('__host').z
    reg.inline_patterns += ['bob.input.DigestHasher.*']
    def after_tools(me, k): return z3.Concat(head(me), PACK_I(nT(me)), TOOLS_ENC(TL(me), k))
    def after_env(me, k): return z3.Concat(after_tools(me, nT(me)), PACK_I(nE(me)), ENV_ENC(EL(me), k))
    def loop_tools(cur, old, k, L):
        me = old.self.z
        return [('iterates-the-sorted-tools', L == TL(me)), ('recipe-stream', hR(cur) == after_tools(me, k)), ('host-stream', hH(cur) == H0(me))]
    def loop_libs(cur, old, k, L):
        me = old.self.z; t = cur.tool.z; c = CALC(T_STEP(t)); j = cur.var('__k1').z       # j: index of the enclosing tools loop
        toolhead = z3.Concat(z3.SubSeq(c, 0, z3.If(z3.Length(c) < 20, z3.Length(c), 20)), PACK_I(z3.Length(T_PATH(t))), PACK_I(list_len(LS, T_LIBS(t))), UTF8(T_PATH(t)))
        return [('iterates-the-libs-of-this-tool', z3.And(L == T_LIBS(t), t == tup_get(T_TOOL, list_get(L_TOOL, TL(me), j), 1), 0 <= j, j < nT(me))), ('host-stream', hH(cur) == H0(me)),
                ('recipe-stream', hR(cur) == z3.Concat(after_tools(me, j), toolhead, LIBS_ENC(T_LIBS(t), k)))]
    def loop_env(cur, old, k, L):
        me = old.self.z
        return [('iterates-the-sorted-env', L == EL(me)), ('recipe-stream', hR(cur) == after_env(me, k)), ('host-stream', hH(cur) == H0(me))]
    def loop_args(cur, old, k, L):
        me = old.self.z
        return [('iterates-the-valid-arguments', L == AV(me)),
                ('recipe-stream', hR(cur) == z3.Concat(after_env(me, nE(me)), PACK_I(nA(me)), ARGS_R(AV(me), k))),
                ('host-stream', hH(cur) == z3.Concat(H0(me), ARGS_H(AV(me), k)))]
    def gd_post(o, n, r):
        me = o.self.z
        R = z3.Concat(after_env(me, nE(me)), PACK_I(nA(me)), ARGS_R(AV(me), nA(me)))
        H = z3.Concat(H0(me), ARGS_H(AV(me), nA(me)))
        return r.z == dig(R, H)
    units.append(Unit(F, 'CoreStep.getDigest', {'self': CS, 'calculate': OpaqueT('Calculate')}, prop, result=BYTES,
        ensures=[('digest-of-exactly-the-spec-serialisation-of-script-tools-env-arguments', gd_post)],
        loops={1: LoopSpec(inv=loop_tools), 2: LoopSpec(inv=loop_libs), 3: LoopSpec(inv=loop_env), 4: LoopSpec(inv=loop_args)},
        locals_types={'tool': TOOL}, note='streams fed to the hasher == spec serialisation over canonical sorted sequences'))
    return units
