# C19 - Archive retention keeps exactly what is selected or referenced.
# Sidecar contracts for pym/bob/cmds/archive.py.  Nothing in /repo is edited.
import ast, z3
from pyvc.api import *
from pyvc.ty import *
from pyvc.core import Closure, Raise, Exc
from pyvc import extract

F = 'pym/bob/cmds/archive.py'
EXPR = OpaqueT('RetExpr'); DATA = OpaqueT('AuditData')
# sort keys are Python str in the real code; only their total order matters, so they are
# abstracted to an arbitrary totally ordered domain (sound: str comparison is a total order)
SK = OpaqueT('SortKey'); OSK = OptT(SK)
QE = TupleT(BYTES, OSK); QT = ListT(QE)
LE = z3.Function('SK_le', sort_of(SK), sort_of(SK), z3.BoolSort())
def order_axioms():
    a, b, c = [z3.Const(n, sort_of(SK)) for n in 'abc']
    return [z3.ForAll([a, b], z3.Or(LE(a, b), LE(b, a))),
            z3.ForAll([a, b, c], z3.Implies(z3.And(LE(a, b), LE(b, c)), LE(a, c))),
            z3.ForAll([a, b], z3.Implies(z3.And(LE(a, b), LE(b, a)), a == b))]

# spec functions (uninterpreted): the predicate of the expression and the sort key
SEL = z3.Function('SEL', sort_of(EXPR), sort_of(DATA), z3.BoolSort())
KEY = z3.Function('KEY', sort_of(EXPR), sort_of(DATA), sort_of(OSK))

def may_precede(asc, a, b):
    """Documented order (bob-archive manpage): sorted by the field, descending by default, ASC on request;
    an artifact whose field is not populated is always put at the end.  True iff an element with key `a`
    may stand in front of an element with key `b` (non-strict: the order among equal keys is not specified)."""
    ot = OSK
    an, bn = opt_is_none(ot, a), opt_is_none(ot, b)
    av, bv = opt_val(ot, a), opt_val(ot, b)
    return z3.Or(bn, z3.And(z3.Not(an), LE(av, bv) if asc else LE(bv, av)))

def cmpitem_closure(asc):
    """The real nested function cmpItem from RetainExpression.__init__ (ASC or DESC variant)."""
    def make(eng, st):
        mi = extract.load(F)
        init, ci = mi.find_func('RetainExpression.__init__')
        if init is None: raise Exception('anchor lost: RetainExpression.__init__')
        found = None
        for n in ast.walk(init):
            if isinstance(n, ast.If) and any(isinstance(c, ast.Constant) and c.value == 'ASC' for c in ast.walk(n.test)):
                branch = n.body if asc else n.orelse
                for s in branch:
                    if isinstance(s, ast.FunctionDef) and s.name == 'cmpItem': found = s
        if found is None:
            from pyvc.verifier import AnchorLost
            raise AnchorLost('RetainExpression.__init__: nested cmpItem (%s) not found' % ('ASC' if asc else 'DESC'))
        clo = Closure(found, {}, None, mi, name='bob.cmds.archive.RetainExpression.__init__.<locals>.cmpItem')
        clo.nested = True; clo.fid = -1
        return V(FUNC, clo)
    return make

def build(reg):
    reg.classes['bob.cmds.archive.RetainExpression'] = ClassSpec('bob.cmds.archive.RetainExpression', {
        'expr': EXPR, 'sortBy': EXPR, 'limit': OptT(INT), 'retained': SetT(BYTES), 'queue': QT})
    reg.trusted.append('predicate classes evalBool/evalString: abstracted as uninterpreted total functions SEL/KEY of (expression, audit data); barf() paths (BobError on type misuse) are not part of evaluate\'s contract')

    @reg.model('RetExpr.evalBool')
    def evalBool(e, st, args, kw, node): return [(st, mk_bool(SEL(args[0].z, args[1].z)))]
    @reg.model('RetExpr.evalString')
    def evalString(e, st, args, kw, node): return [(st, V(OSK, KEY(args[0].z, args[1].z)))]
    reg.axioms['always:sortkey-total-order'] = order_axioms
    reg.trusted.append('sort keys (str) abstracted to an arbitrary totally ordered domain SortKey; <=,>= on str are the total order SK_le')
    def cmp_hook(e, st, op, a, b, node):
        if a.t == SK and b.t == SK:
            return [(st, {ast.LtE: LE(a.z, b.z), ast.GtE: LE(b.z, a.z), ast.Lt: z3.Not(LE(b.z, a.z)), ast.Gt: z3.Not(LE(a.z, b.z))}[type(op)])]
        return None
    reg.compare_hook = cmp_hook
    reg.pure_names |= {'RetExpr.evalBool', 'RetExpr.evalString'}

    def make_unit(asc):
        def self_factory(eng, st, asc=asc):
            o = eng.fresh(st, ObjT('bob.cmds.archive.RetainExpression'), 'self')
            eng.setfield(st, o, 'cmpItem', cmpitem_closure(asc)(eng, st))
            return o

        IDX0 = z3.Function('IDX0', sort_of(BYTES), z3.IntSort())      # ghost witness: where a retained id sits in the queue
        WF_CLAUSES = ['len-nonneg', 'limit-positive', 'queue-bounded', 'queue-empty-if-unlimited', 'retained-in-queue', 'queue-in-retained', 'queue-distinct']
        def wf(s, idx=IDX0):
            """class invariant of RetainExpression; retained == ids of the queue is stated with a ghost index witness"""
            q = s.self.queue; lim = s.self.limit
            i, j = z3.Ints('wi wj'); b = z3.Const('wb', sort_of(BYTES))
            limited = z3.Not(lim.is_none())
            return [
                ('len-nonneg', q.len() >= 0),
                ('limit-positive', z3.Implies(limited, lim.some().z >= 1)),
                ('queue-bounded', z3.Implies(limited, q.len() <= lim.some().z)),
                ('queue-empty-if-unlimited', z3.Implies(z3.Not(limited), q.len() == 0)),
                ('retained-in-queue', z3.Implies(limited, z3.ForAll([b], z3.Implies(s.self.retained[b],
                    z3.And(0 <= idx(b), idx(b) < q.len(), q[idx(b)][0].z == b)), patterns=[s.self.retained[b]]))),
                ('queue-in-retained', z3.Implies(limited, z3.ForAll([i], z3.Implies(z3.And(0 <= i, i < q.len()), s.self.retained[q[i][0].z]),
                    patterns=[q[i].z]))),
                ('queue-distinct', z3.ForAll([i, j], z3.Implies(z3.And(0 <= i, i < j, j < q.len()), q[i][0].z != q[j][0].z))),
            ]
        def sorted_q(s, asc=asc):
            q = s.self.queue; i, j = z3.Ints('si sj')
            return z3.ForAll([i, j], z3.Implies(z3.And(0 <= i, i < j, j < q.len()), may_precede(asc, q[i][1].z, q[j][1].z)))

        def requires(s):
            return wf(s) + [('sorted', sorted_q(s))]

        def new_key(o): return KEY(o.self.sortBy.z, o.data.z)
        def selected(o): return z3.And(z3.Not(o.self.retained[o.bid.z]), SEL(o.self.expr.z, o.data.z))
        def limited(o): return z3.Not(o.self.limit.is_none())
        def pos_ok(o, p, asc=asc):
            """p is an admissible insertion point of the new element in the old (sorted) queue"""
            q = o.self.queue; j = z3.Int('pj'); nk = new_key(o)
            return z3.And(0 <= p, p <= q.len(),
                          z3.ForAll([j], z3.Implies(z3.And(0 <= j, j < p), may_precede(asc, q[j][1].z, nk))),
                          z3.Or(p == q.len(), may_precede(asc, nk, q[p][1].z)))
        def full_at(o, p, j):
            q0 = o.self.queue; e = tup_mk(QE, [o.bid.z, new_key(o)])
            return z3.If(j < p, q0[j].z, z3.If(j == p, e, q0[j - 1].z))
        def post(asc=asc):
            def inserted_then_cut(o, n, r):
                q0 = o.self.queue; q1 = n.self.queue; lim = o.self.limit.some().z
                j = z3.Int('qj'); b = z3.Const('rb', sort_of(BYTES))
                # proof hint: the witness for the insertion point is the local `i` at exit (falls back to a plain exists)
                hint = n.i.z if n.has('i') and n.i.t == INT else None
                p = hint if hint is not None else z3.Int('pos')
                ex = (lambda body: body) if hint is not None else (lambda body: z3.Exists([p], body))
                newlen = z3.If(q0.len() + 1 <= lim, q0.len() + 1, lim)
                victim = tup_get(QE, full_at(o, p, q0.len()), 0)
                return z3.Implies(z3.And(selected(o), limited(o)),
                    ex(z3.And(pos_ok(o, p), q1.len() == newlen,
                        z3.ForAll([j], z3.Implies(z3.And(0 <= j, j < newlen), q1[j].z == full_at(o, p, j))),
                        # retained: the new id is added and, if the queue overflowed, exactly the last id is dropped
                        z3.ForAll([b], n.self.retained[b] == z3.If(z3.And(q0.len() + 1 > lim, b == victim), z3.BoolVal(False),
                                                                  z3.Or(o.self.retained[b], b == o.bid.z))))))
            def unchanged_if_not_selected(o, n, r):
                b = z3.Const('ub', sort_of(BYTES))
                return z3.Implies(z3.Not(selected(o)), z3.And(list_eq(QT, o.self.queue.z, n.self.queue.z),
                                  z3.ForAll([b], o.self.retained[b] == n.self.retained[b])))
            def unlimited_adds(o, n, r):
                b = z3.Const('ab', sort_of(BYTES))
                return z3.Implies(z3.And(selected(o), z3.Not(limited(o))),
                    z3.And(n.self.queue.len() == 0,
                           z3.ForAll([b], n.self.retained[b] == z3.Or(o.self.retained[b], b == o.bid.z))))
            def sorted_kept(o, n, r): return sorted_q(n)
            def frame(o, n, r):
                return z3.And(n.self.limit.z == o.self.limit.z, n.self.expr.z == o.self.expr.z, n.self.sortBy.z == o.self.sortBy.z)
            return [('queue-is-insert-then-truncate', inserted_then_cut), ('not-selected-unchanged', unchanged_if_not_selected),
                    ('unlimited-retains-all-selected', unlimited_adds),
                    ('queue-sorted', sorted_kept), ('frame', frame)] + \
                   [('class-invariant:' + nm, (lambda o, n, r, nm=nm: inv_kept(o, n, r, nm))) for nm in WF_CLAUSES]      # one small query per clause

        def loop1(cur, old, asc=asc):
            # while i < len(queue): find insertion point
            q = cur.self.queue; i = cur.i; j = z3.Int('l1j'); b = z3.Const('l1b', sort_of(BYTES))
            nk = new_key(old)
            return [
                ('i-range', z3.And(0 <= i.z, i.z <= q.len())),
                ('prefix-may-precede', z3.ForAll([j], z3.Implies(z3.And(0 <= j, j < i.z), may_precede(asc, q[j][1].z, nk)))),
                ('queue-unchanged', list_eq(QT, q.z, old.self.queue.z)),
                ('new-is-key', cur.new.z == nk),
            ]
        def loop2(cur, old, asc=asc):
            # while len(queue) > limit: drop last
            q = cur.self.queue; q0 = old.self.queue; lim = old.self.limit.some().z
            p = cur.i.z; j = z3.Int('l2j'); b = z3.Const('l2b', sort_of(BYTES))
            dropped = q.len() < q0.len() + 1
            victim = tup_get(QE, full_at(old, p, q0.len()), 0)
            return [
                ('len', z3.And(z3.Or(q.len() >= lim, q.len() == q0.len() + 1), q.len() <= q0.len() + 1, q.len() >= q0.len(), q.len() >= 1)),
                ('pos', pos_ok(old, p)),
                ('content', z3.ForAll([j], z3.Implies(z3.And(0 <= j, j < q.len()), q[j].z == full_at(old, p, j)))),
                ('retained', z3.ForAll([b], cur.self.retained[b] == z3.If(z3.And(dropped, b == victim), z3.BoolVal(False),
                                                                       z3.Or(old.self.retained[b], b == old.bid.z)))),
            ]
        # class invariant re-established, with the explicit new ghost witness:
        # the new id sits at the insertion point p, ids at/after p moved one slot to the right
        def inv_kept(o, n, r, only):
            p = n.i.z if n.has('i') else None
            sel_lim = z3.And(selected(o), limited(o))
            pick = lambda cl: z3.And(*[c for nm, c in cl if nm == only])
            if p is None:       # paths that return before the queue is touched
                return z3.And(z3.Not(sel_lim), pick(wf(n, IDX0))) if only == WF_CLAUSES[0] else pick(wf(n, IDX0))
            def idx1(b): return z3.If(b == o.bid.z, p, z3.If(IDX0(b) >= p, IDX0(b) + 1, IDX0(b)))
            return z3.And(z3.Implies(sel_lim, pick(wf(n, idx1))),
                          z3.Implies(z3.Not(sel_lim), pick(wf(n, IDX0))))
        u = Unit(F, 'RetainExpression.evaluate', {'self': self_factory, 'bid': BYTES, 'data': DATA}, 'C19',
                 name='RetainExpression.evaluate[%s]' % ('ASC' if asc else 'DESC'),
                 requires=requires, ensures=post(),
                 loops={1: LoopSpec(inv=loop1, decreases=lambda c: c.self.queue.len() - c.i.z),
                        2: LoopSpec(inv=loop2, decreases=lambda c: c.self.queue.len())},
                 modifies=['self.queue', 'self.retained'], locals_types={'new': OSK},
                 note='LIMIT/ORDER BY queue: one call = sorted insert at the documented position + truncation to LIMIT')
        return u
    watch = [Watch(F, 'query', 'builds a pyparsing grammar; loops every artifact over every expression and unions the retained sets'),
             Watch(F, 'RetainExpression.__init__', 'LIMIT/ORDER parsing; the nested cmpItem functions are verified through evaluate'),
             Watch(F, 'doArchiveClean', 'three passes: select, transitive closure over references, delete'),
             Watch(F, 'ArchiveScanner.scan', 'sqlite index of the archive (SQL semantics not modelled)'),
             Watch(F, 'ArchiveScanner.__exit__', 'index pruning (SQL)'),
             Watch('pym/bob/audit.py', 'Audit.getReferencedBuildIds', 'references of an audit trail')]
    return [make_unit(False), make_unit(True)] + watch
