# Ghost file system theory (trusted base, DESIGN.md 3.3).
#
# FS state lives in st.ghost:  fs_exists : Array(String,Bool), fs_content : Array(String,Bytes),
# fs_synced : Array(String,Bool) (content durable), fs_ino : Array(String,Int) (identity of the object under a name).
# Every operation is one atomic action; every mutating action is followed by a *crash point*
# (reg.crash_hook(eng, st, what, node) is called; it emits the crash-invariant obligations).
# Unless reg.fs_infallible is set, every operation may also raise OSError without any effect.
import z3
from pyvc.ty import *
from pyvc.core import Raise, Exc
from pyvc.api import ClassSpec

S = z3.StringSort(); B = sort_of(BYTES)
FD_PATH = z3.Function('FD_PATH', z3.IntSort(), S)

def init_ghost(eng, st):
    st.ghost['fs_exists'] = V(SetT(STR), fresh_z(SetT(STR), 'fs_exists'))
    st.ghost['fs_content'] = V(OpaqueArr, z3.Const(fresh_name('fs_content'), z3.ArraySort(S, B)))
    st.ghost['fs_synced'] = V(SetT(STR), fresh_z(SetT(STR), 'fs_synced'))
    st.ghost['fs_ioerrors'] = V(INT, fresh_z(INT, 'fs_ioerrors'))      # number of injected I/O failures so far

class _OA(T):
    def key(self): return 'oa'
    def name(self): return 'FsContent'
OpaqueArr = _OA()
from pyvc import ty as _ty
_ty._sorts[OpaqueArr] = z3.ArraySort(S, B)

def ex(st): return st.ghost['fs_exists'].z
def co(st): return st.ghost['fs_content'].z
def sy(st): return st.ghost['fs_synced'].z
def set_ex(st, z): st.ghost['fs_exists'] = V(SetT(STR), z)
def set_co(st, z): st.ghost['fs_content'] = V(OpaqueArr, z)
def set_sy(st, z): st.ghost['fs_synced'] = V(SetT(STR), z)

PYFILE = 'pyfile'

def install(reg):
    reg.classes[PYFILE] = ClassSpec(PYFILE, {'path': STR, 'pos': INT, 'writable': BOOL, 'fd': INT},
                                    methods=['write', 'read', 'close', 'fileno', '__enter__', '__exit__', 'seek', 'tell', 'flush'])
    reg.trusted.append('ghost file system (theories/fs.py): open/write/close/fsync/replace/unlink/exists are atomic actions with POSIX effects; any of them may fail with OSError without effect; a crash may happen after any action')
    fail = lambda: not getattr(getattr(reg, 'current_unit', None), 'fs_infallible', getattr(reg, 'fs_infallible', False))

    def crash(eng, st, what, node):
        h = getattr(reg, 'crash_hook', None)
        if h is not None: h(eng, st, what, node)

    def oserr(eng, st, what, node, cls='OSError'):
        if not fail(): return []
        x = st.fork()
        x.ghost['fs_ioerrors'] = V(INT, x.ghost['fs_ioerrors'].z + 1)
        return [eng.raise_(x, cls, '%s fails at %s' % (what, eng.loc(node)))]

    @reg.model('open')
    def _open(eng, st, args, kw, node):
        path = args[0]; mode = args[1] if len(args) > 1 else kw.get('mode', mk_str('r'))
        if path.t != STR or not z3.is_string_value(mode.z): return None
        m = mode.z.as_string()
        out = oserr(eng, st, 'open(%s)' % m, node)
        if 'w' in m:
            set_ex(st, z3.Store(ex(st), path.z, True)); set_co(st, z3.Store(co(st), path.z, z3.Empty(B)))
            set_sy(st, z3.Store(sy(st), path.z, False))
            crash(eng, st, 'open-w', node)
        else:
            # reading a missing file fails
            x = st.fork(); x.assume(z3.Not(z3.Select(ex(x), path.z)))
            if eng.feasible(x): out.append(eng.raise_(x, 'FileNotFoundError', 'open of missing file at %s' % eng.loc(node)))
            st.assume(z3.Select(ex(st), path.z))
        fd = fresh_z(INT, 'fd'); st.assume(FD_PATH(fd) == path.z)
        f = eng.new_obj(st, PYFILE, {'path': path, 'pos': mk_int(0), 'writable': mk_bool('w' in m or '+' in m or 'a' in m), 'fd': V(INT, fd)})
        out.append((st, f))
        return out

    @reg.model('pyfile.__enter__')
    def _enter(eng, st, args, kw, node): return [(st, args[0])]
    @reg.model('pyfile.__exit__', 'pyfile.close')
    def _exit(eng, st, args, kw, node):
        out = []
        if getattr(reg, 'fs_close_may_fail', False) and fail():
            # flushing the buffered tail fails (ENOSPC, EIO): the file keeps some unknown part of what was written
            x = st.fork(); p = eng.getfield(x, args[0], 'path').z
            set_co(x, z3.Store(co(x), p, fresh_z(BYTES, 'torn')))
            crash(eng, x, 'failed-close', node)
            out.append(eng.raise_(x, 'OSError', 'close fails at %s' % eng.loc(node)))
        out.append((st, mk_bool(False)))
        return out
    @reg.model('pyfile.flush')
    def _flush(eng, st, args, kw, node): return [(st, mk_none())]
    @reg.model('pyfile.fileno')
    def _fileno(eng, st, args, kw, node): return [(st, eng.getfield(st, args[0], 'fd'))]
    @reg.model('pyfile.write')
    def _write(eng, st, args, kw, node):
        f, data = args
        p = eng.getfield(st, f, 'path').z
        out = oserr(eng, st, 'write', node)
        # a crash (or a failing write) in the middle of the write leaves a prefix
        y = st.fork(); part = fresh_z(BYTES, 'partial'); y.assume(z3.PrefixOf(part, data.z))
        set_co(y, z3.Store(co(y), p, z3.Concat(z3.Select(co(y), p), part))); set_sy(y, z3.Store(sy(y), p, False))
        crash(eng, y, 'partial-write', node)
        if fail():
            y.ghost['fs_ioerrors'] = V(INT, y.ghost['fs_ioerrors'].z + 1)
            out.append(eng.raise_(y, 'OSError', 'write fails after a partial write at %s' % eng.loc(node)))
        set_co(st, z3.Store(co(st), p, z3.Concat(z3.Select(co(st), p), data.z))); set_sy(st, z3.Store(sy(st), p, False))
        crash(eng, st, 'write', node)
        out.append((st, mk_int(z3.Length(data.z))))
        return out
    @reg.model('pyfile.read')
    def _read(eng, st, args, kw, node):
        f = args[0]
        p = eng.getfield(st, f, 'path').z
        out = oserr(eng, st, 'read', node)
        if len(args) > 1: return None
        out.append((st, V(BYTES, z3.Select(co(st), p))))
        return out

    @reg.model('os.fsync')
    def _fsync(eng, st, args, kw, node):
        out = oserr(eng, st, 'fsync', node)
        set_sy(st, z3.Store(sy(st), FD_PATH(args[0].z), True))
        crash(eng, st, 'fsync', node)
        out.append((st, mk_none()))
        return out
    @reg.model('os.path.exists')
    def _exists(eng, st, args, kw, node): return [(st, mk_bool(z3.Select(ex(st), args[0].z)))]
    @reg.model('os.replace', 'bob.utils.replacePath', 'os.rename')
    def _replace(eng, st, args, kw, node):
        src, dst = args[0].z, args[1].z
        out = oserr(eng, st, 'replace', node)
        x = st.fork(); x.assume(z3.Not(z3.Select(ex(x), src)))
        if eng.feasible(x): out.append(eng.raise_(x, 'FileNotFoundError', 'replace of missing source at %s' % eng.loc(node)))
        st.assume(z3.Select(ex(st), src))
        c = z3.Select(co(st), src); s_ = z3.Select(sy(st), src)
        set_co(st, z3.Store(co(st), dst, c)); set_sy(st, z3.Store(sy(st), dst, s_))
        set_ex(st, z3.Store(z3.Store(ex(st), dst, True), src, z3.If(src == dst, z3.BoolVal(True), z3.BoolVal(False))))
        crash(eng, st, 'replace', node)
        out.append((st, mk_none()))
        return out
    @reg.model('os.unlink', 'os.remove')
    def _unlink(eng, st, args, kw, node):
        p = args[0].z
        out = oserr(eng, st, 'unlink', node)
        x = st.fork(); x.assume(z3.Not(z3.Select(ex(x), p)))
        if eng.feasible(x): out.append(eng.raise_(x, 'FileNotFoundError', 'unlink of missing file at %s' % eng.loc(node)))
        st.assume(z3.Select(ex(st), p))
        set_ex(st, z3.Store(ex(st), p, False))
        crash(eng, st, 'unlink', node)
        out.append((st, mk_none()))
        return out
