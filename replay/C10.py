# Native replay for C10: runs real _BobState mutator sequences in a scratch directory, records a crash image
# after every file-system action (with torn variants of content that was never fsync'ed), starts a fresh
# _BobState on every image and checks that it loads, without error, one of the saved snapshots that is not
# older than the last completed invocation.  Also checks the single-writer lock.
import os, sys, shutil, tempfile, builtins, random, pickle, traceback

STATE_FILES = ('.bob-state.pickle', '.bob-state.pickle.new', '.bob-state.pickle.new.dirty')

def observe(st):
    return (sorted((k, v) for k, v in ((k, st.getResultHash(k)) for k in (b'a', b'b', b'c')) if v is not None),
            sorted((k, st.getInputHashes(k)) for k in ('p', 'q') if st.getInputHashes(k) is not None),
            sorted((k, st.getVariantId(k)) for k in ('p', 'q') if st.getVariantId(k) is not None),
            sorted(st.getLayers()))

class Recorder:
    """monkeypatches os.replace/os.fsync/os.unlink/open to take crash images"""
    def __init__(self): self.images = []; self.synced = set(); self.snapshot_index = lambda: 0
    def image(self, what):
        files = {}
        for f in STATE_FILES:
            if os.path.exists(f): files[f] = (open.__wrapped__(f, 'rb').read() if hasattr(open, '__wrapped__') else self._open(f, 'rb').read(), f in self.synced)
        self.images.append((what, files, self.snapshot_index()))
    def install(self):
        self._open = builtins.open; self._replace = os.replace; self._fsync = os.fsync; self._unlink = os.unlink
        rec = self
        class FileProxy:
            def __init__(s, f, path): s._f = f; s._p = path
            def write(s, data):
                r = s._f.write(data); s._f.flush(); rec.synced.discard(s._p); rec.image('write ' + s._p); return r
            def __enter__(s): return s
            def __exit__(s, *a): s._f.close(); return False
            def __getattr__(s, n): return getattr(s._f, n)
        def my_open(path, mode='r', *a, **k):
            f = rec._open(path, mode, *a, **k)
            if isinstance(path, str) and os.path.basename(path) in STATE_FILES and 'w' in mode:
                rec.synced.discard(os.path.basename(path)); rec.image('open-w ' + path)
                return FileProxy(f, os.path.basename(path))
            return f
        def my_replace(src, dst):
            rec._replace(src, dst)
            s, d = os.path.basename(src), os.path.basename(dst)
            if s in rec.synced: rec.synced.add(d)
            else: rec.synced.discard(d)
            rec.synced.discard(s); rec.image('replace %s %s' % (s, d))
        def my_fsync(fd):
            rec._fsync(fd)
            try: rec.synced.add(os.path.basename(os.readlink('/proc/self/fd/%d' % fd)))
            except OSError: pass
            rec.image('fsync')
        def my_unlink(p):
            rec._unlink(p); rec.synced.discard(os.path.basename(p)); rec.image('unlink ' + p)
        builtins.open = my_open; os.replace = my_replace; os.fsync = my_fsync; os.unlink = my_unlink
        import bob.state, bob.utils
        self._rp = bob.state.replacePath; bob.state.replacePath = my_replace
    def uninstall(self):
        builtins.open = self._open; os.replace = self._replace; os.fsync = self._fsync; os.unlink = self._unlink
        import bob.state; bob.state.replacePath = self._rp

def torn_variants(content):
    yield content
    yield b''
    yield content[:len(content) // 2]
    yield b'\0' * len(content)
    yield content[:-1] if content else b''

def scenario(ops, rnd):
    import bob.state
    from bob.errors import ParseError
    work = tempfile.mkdtemp(prefix='c10-'); old = os.getcwd(); os.chdir(work)
    rec = Recorder()
    try:
        snaps = []            # observations after every mutator call (index = snapshot number)
        last_final = [0]
        rec.snapshot_index = lambda: last_final[0]
        st = bob.state._BobState()
        snaps.append(observe(st))
        rec.install()
        try:
            for op in ops:
                if op == 'final':
                    st.finalize(); last_final[0] = len(snaps) - 1
                    rec.image('after-finalize')
                    st = bob.state._BobState()
                elif op == 'async': st.setAsynchronous()
                elif op == 'sync': st.setSynchronous()
                else:
                    kind, k, v = op
                    if kind == 'res': st.setResultHash(k, v)
                    elif kind == 'inp': st.setInputHashes(k, v)
                    elif kind == 'delinp': st.delInputHashes(k)
                    elif kind == 'vid': st.setVariantId(k, v)
                    elif kind == 'layer': st.setLayerState(k, v)
                snaps.append(observe(st))
        finally:
            rec.uninstall()
        # replay every crash image
        for n, (what, files, lastfin) in enumerate(rec.images):
            unsynced = [f for f, (c, s) in files.items() if not s]
            variants = [dict()]
            for f in unsynced:
                variants = [dict(v, **{f: t}) for v in variants for t in torn_variants(files[f][0])]
            for var in variants[:40]:
                d = tempfile.mkdtemp(prefix='c10img-'); os.chdir(d)
                try:
                    for f, (c, s) in files.items():
                        with open(f, 'wb') as fh: fh.write(var.get(f, c))
                    try:
                        st2 = bob.state._BobState()
                    except ParseError as ex:
                        return {'what': 'start after crash refused with ParseError: %s' % ex, 'crash_after': what, 'torn': {k: v.hex()[:40] for k, v in var.items()}, 'ops': ops}
                    except Exception as ex:
                        try: os.unlink('.bob-state.lock')
                        except OSError: pass
                        return {'what': 'start after crash raised %r' % (ex,), 'crash_after': what, 'torn': {k: len(v) for k, v in var.items()}, 'ops': ops}
                    got = observe(st2); st2.finalize()
                    if got not in snaps:
                        return {'what': 'recovered state is not one of the saved snapshots (mixture or garbage)', 'crash_after': what, 'got': got, 'ops': ops}
                    newest = max(i for i, s in enumerate(snaps) if s == got)
                    if newest < lastfin:
                        return {'what': 'recovered snapshot #%d is older than the last completed invocation (#%d)' % (newest, lastfin), 'crash_after': what, 'ops': ops}
                finally:
                    os.chdir(work); shutil.rmtree(d, ignore_errors=True)
        return None
    finally:
        os.chdir(old); shutil.rmtree(work, ignore_errors=True)

def lock_scenario():
    import bob.state
    from bob.errors import ParseError
    work = tempfile.mkdtemp(prefix='c10lock-'); old = os.getcwd(); os.chdir(work)
    try:
        a = bob.state._BobState()
        a.setResultHash(b'a', b'1')
        for attempt in (2, 3):
            try:
                b = bob.state._BobState()
                return {'what': 'instance #%d was admitted while the first instance still holds the workspace' % attempt}
            except ParseError:
                pass
            if not os.path.exists('.bob-state.lock'):
                return {'what': 'a refused instance removed the lock of the running instance'}
        a.finalize()
        return None
    finally:
        os.chdir(old); shutil.rmtree(work, ignore_errors=True)

def gen_ops(rnd):
    keys = {'res': [b'a', b'b', b'c'], 'inp': ['p', 'q'], 'delinp': ['p', 'q'], 'vid': ['p', 'q'], 'layer': ['l1', 'l2']}
    n = rnd.randint(2, 6); ops = []; depth = 0
    for _ in range(n):
        r = rnd.random()
        if r < .15 and depth == 0: ops.append('final')
        elif r < .25: ops.append('async'); depth += 1
        elif r < .35 and depth > 0: ops.append('sync'); depth -= 1
        else:
            kind = rnd.choice(list(keys))
            ops.append((kind, rnd.choice(keys[kind]), bytes([rnd.randint(1, 255)]) * rnd.randint(1, 3)))
    ops += ['sync'] * depth
    return ops

TABLES = ('byNameDirs', 'results', 'inputs', 'jenkins', 'dirStates', 'layerStates', 'buildState', 'variantIds', 'atticDirs', 'storagePath')

def tables(st):
    import copy
    return {t: copy.deepcopy(getattr(st, '_BobState__' + t)) for t in TABLES}

def mutator_calls(rnd):
    """one random call of a state-changing API function (all of them): (description, callable(state))"""
    p = rnd.choice(['dev/src/a/1/workspace', 'dev/build/b/1/workspace', 'dev/dist/c/1/workspace']); d = bytes([rnd.randint(1, 3)]) * 20; b = rnd.choice(['work/a/dist', 'work/b/src'])
    C = [('setResultHash', lambda s: s.setResultHash(p, d)), ('setInputHashes', lambda s: s.setInputHashes(p, [d, d])), ('delInputHashes', lambda s: s.delInputHashes(p)),
         ('setLayerState', lambda s: s.setLayerState('layers/' + p[:9], d)), ('delLayerState', lambda s: s.delLayerState('layers/' + p[:9])),
         ('setDirectoryState', lambda s: s.setDirectoryState(p, {None: d})), ('delDirectoryState', lambda s: s.delDirectoryState(p)),
         ('setVariantId', lambda s: s.setVariantId(p, d)), ('setStoragePath', lambda s: s.setStoragePath(p, '/elsewhere/' + p)),
         ('resetWorkspaceState(None)', lambda s: s.resetWorkspaceState(p, None)), ('resetWorkspaceState(state)', lambda s: s.resetWorkspaceState(p, {None: d})),
         ('setAtticDirectoryState', lambda s: s.setAtticDirectoryState('attic/' + p[:9], {'scm': 'git'})), ('delAtticDirectoryState', lambda s: s.delAtticDirectoryState('attic/' + p[:9])),
         ('getByNameDirectory', lambda s: s.getByNameDirectory(b, d, 'src' in b)), ('setBuildState', lambda s: s.setBuildState({d: p})),
         ('setJenkinsConfig', lambda s: s.setJenkinsConfig('j', {'url': 'x'})), ('delJenkins', lambda s: s.delJenkins('j'))]
    return rnd.choice(C)

def persistence_scenario(rnd, asynchronous):
    """completed invocations only (no crash): whatever the in-memory tables hold when an invocation has finalized is what
    the next invocation starts from -- every state-changing API call must reach the disk"""
    import bob.state
    base = tempfile.mkdtemp(prefix='c10p-'); old = os.getcwd(); os.chdir(base); log = []
    try:
        for inv in range(rnd.randint(2, 4)):
            st = bob.state._BobState()
            if inv > 0 and tables(st) != expect:
                diff = [t for t in TABLES if tables(st)[t] != expect[t]]
                return {'kind': 'completed-invocation-lost-an-update', 'tables': diff, 'history': log, 'asynchronous_section': asynchronous,
                        'what': 'the state loaded by the next invocation is older than the state at the end of the last completed invocation'}
            if asynchronous: st.setAsynchronous()
            for _ in range(rnd.randint(1, 3) if inv else rnd.randint(3, 8)):
                what, fn = mutator_calls(rnd)
                try: fn(st); log.append(what)
                except (KeyError, TypeError): log.append(what + ' (rejected)')
            if asynchronous: st.setSynchronous()
            expect = tables(st)
            st.finalize(); log.append('finalize')
        return None
    finally:
        os.chdir(old); shutil.rmtree(base, ignore_errors=True)

def replay(rep):
    seed = int(os.environ.get('VERIF_SEED', '0') or 0)
    rnd = random.Random(seed)
    v = lock_scenario()
    if v is not None: return {'reproduced': True, 'witness': v}
    fixed = [[('res', b'a', b'1')], [('res', b'a', b'1'), 'final', ('res', b'a', b'2')],
             [('res', b'a', b'1'), 'final', ('inp', 'p', b'x'), ('vid', 'p', b'v'), 'final', ('delinp', 'p', b'')],
             ['async', ('res', b'a', b'1'), ('res', b'b', b'2'), 'sync', 'final', ('res', b'c', b'3')]]
    tried = 0
    for ops in fixed + [gen_ops(rnd) for _ in range(int(os.environ.get('C10_REPLAY_N', '25')))]:
        tried += 1
        v = scenario(ops, rnd)
        if v is not None: return {'reproduced': True, 'tried': tried, 'witness': v}
    for i in range(int(os.environ.get('C10_PERSIST_N', '150'))):
        tried += 1
        try: v = persistence_scenario(rnd, asynchronous=(i % 3 == 0))
        except Exception as ex: v = None; harness_problem = repr(ex)
        if v is not None: return {'reproduced': True, 'tried': tried, 'witness': v}
    return {'reproduced': False, 'tried': tried, 'detail': 'every crash image of every tried update sequence recovered a saved snapshot; lock held'}
