# Native replay / bounded search for C17: the real Env.substitute / StringParser / IfExpression against an
# independent reference evaluator written from the documented language (doc/manual/configuration.rst,
# "String substitution"): expression trees are generated together with their expected value, rendered to text
# with randomly chosen (equivalent) quoting/escaping, and evaluated by the real code.  Also: raw character soup
# must yield a value or ParseError, never an internal exception; infix conditions == function-call form.
import os, random, time, itertools

META = '\\"\'$'

# ---- expression trees: ('lit', text) | ('var', name, op, sub)  op in None,'-',':-','+',':+' | ('fun', name, [args]) | ('cat', [parts])
def gen(rnd, depth):
    k = rnd.random()
    if depth <= 0 or k < .35:
        return ('lit', ''.join(rnd.choice('ab ,)}{$"\'\\:-+x') for _ in range(rnd.randint(0, 4))))
    if k < .6:
        op = rnd.choice([None, '-', ':-', '+', ':+'])
        return ('var', rnd.choice(['set', 'null', 'unset', 'A_1', 'V', 'V2', 'X86_64']), op, gen(rnd, depth - 1) if op else None)
    if k < .8:
        f = rnd.choice(['eq', 'ne', 'not', 'or', 'and', 'if-then-else', 'strip', 'subst'])
        n = {'eq': 2, 'ne': 2, 'not': 1, 'if-then-else': 3, 'strip': 1, 'subst': 3}.get(f) or rnd.randint(1, 3)
        return ('fun', f, [gen(rnd, depth - 1) for _ in range(n)])
    return ('cat', [gen(rnd, depth - 1) for _ in range(rnd.randint(2, 3))])

ENV = {'set': 'val', 'null': '', 'A_1': 'x y', 'V': 'a', 'V2': 'b', 'X86_64': '1'}

class Fail(Exception): pass      # documented error (unset variable with nounset)

def is_false(v): return v.strip().lower() in ('', '0', 'false')

def value(t, lazy=False):
    """expected value by the documented rules"""
    k = t[0]
    if k == 'lit': return t[1]
    if k == 'cat': return ''.join(value(x) for x in t[1])
    if k == 'var':
        _, name, op, sub = t
        unset = name not in ENV
        if op in (':-', ':+'): unset = unset or ENV[name] == ''
        if op is None:
            if name not in ENV: raise Fail('unset')
            return ENV[name]
        if op in ('-', ':-'): return value(sub) if unset else ENV[name]
        return '' if unset else value(sub)          # untaken branches are not evaluated (lazy)
    if k == 'fun':
        _, f, args = t
        a = [value(x) for x in args]
        if f == 'eq': return 'true' if a[0] == a[1] else 'false'
        if f == 'ne': return 'true' if a[0] != a[1] else 'false'
        if f == 'not': return 'true' if is_false(a[0]) else 'false'
        if f == 'or': return 'true' if any(not is_false(x) for x in a) else 'false'
        if f == 'and': return 'true' if all(not is_false(x) for x in a) else 'false'
        if f == 'if-then-else': return a[2] if is_false(a[0]) else a[1]
        if f == 'strip': return a[0].strip()
        if f == 'subst': return a[2].replace(a[0], a[1])
    raise AssertionError(t)

def render_lit(rnd, s, stop):
    """render literal text so that it is protected: every char is emitted plainly if harmless, else escaped/quoted"""
    out = []
    i = 0
    while i < len(s):
        c = s[i]
        special = c in META or c in stop
        mode = rnd.random()
        if rnd.random() < .08: out.append(rnd.choice(["''", '""']))      # an empty quoted string is the empty string
        if c == "'": out.append("\\'"); i += 1; continue      # quotes nest: inside "..." a ' still opens a quote
        if mode < .25 and "'" not in s[i:i + 2]:
            n = rnd.randint(1, 2); out.append("'" + s[i:i + n] + "'"); i += n; continue
        if mode < .4 and special and c not in '"\\$':
            out.append('"' + c + '"'); i += 1; continue
        out.append('\\' + c if (special or rnd.random() < .1) else c); i += 1
    if rnd.random() < .08: out.append(rnd.choice(["''", '""']))
    return ''.join(out)

def render(rnd, t, stop=''):
    k = t[0]
    if k == 'lit': return render_lit(rnd, t[1], stop)
    if k == 'cat':
        parts = [render(rnd, x, stop) for x in t[1]]
        # braces may be omitted if the name consists of letters, numbers and '_': use the bare form where the following
        # text cannot be taken for a part of the name
        for i, x in enumerate(t[1]):
            if x[0] == 'var' and x[2] is None and rnd.random() < .5:
                nxt = ''.join(parts[i + 1:])[:1]
                if nxt == '' or not (nxt.isalnum() or nxt == '_'): parts[i] = '$' + x[1]
        return ''.join(parts)
    if k == 'var':
        _, name, op, sub = t
        if op is None: return ('"${' + name + '}"') if rnd.random() < .3 else ('${' + name + '}')      # substitution also happens inside double quotes
        return '${' + name + op + render(rnd, sub, '}') + '}'
    if k == 'fun':
        _, f, args = t
        return '$(' + ','.join([f] + [render(rnd, a, ',)') for a in args]) + ')'

def mk_env():
    from bob.stringparser import Env, DEFAULT_STRING_FUNS
    e = Env(dict(ENV)); e.setFuns(dict(DEFAULT_STRING_FUNS)); e.setFunArgs({'sandbox': None, '__tools': {}})
    return e
def real_subst(text):
    return mk_env().substitute(text, 'replay')

def check_tree(rnd, t):
    from bob.errors import ParseError
    text = render(rnd, t)
    if t[0] == 'var' and t[2] is None and rnd.random() < .5: text = '$' + t[1]      # a lone variable: bare form
    try: exp = ('val', value(t))
    except Fail: exp = ('err',)
    try: got = ('val', real_subst(text))
    except ParseError: got = ('err',)
    except Exception as ex:
        return {'kind': 'internal-exception', 'text': text, 'observed': repr(ex)}
    if got != exp:
        return {'kind': 'wrong-value', 'text': text, 'env': ENV, 'expected': exp, 'observed': got}
    return None

def check_soup(rnd):
    from bob.errors import ParseError
    text = ''.join(rnd.choice('a$"\'\\{}(),:-+ x') for _ in range(rnd.randint(0, 9)))
    try: real_subst(text)
    except ParseError: return None
    except Exception as ex: return {'kind': 'internal-exception', 'text': text, 'observed': repr(ex)}
    return None

def check_infix(rnd):
    """an infix condition has the same truth value as the equivalent function-call form"""
    from bob.stringparser import Env
    from bob.errors import ParseError
    def lit():
        s = ''.join(rnd.choice("ab ,'") for _ in range(rnd.randint(0, 3)))
        q = rnd.choice(['"', "'"])
        if q == "'" and "'" in s: q = '"'
        return (q + s + q, s if q == "'" else s.replace("'", ''), s)
    def gen_c(d):
        if d <= 0 or rnd.random() < .4:
            a, b = lit(), lit(); op = rnd.choice(['==', '!='])
            # value of a double quoted literal: nested single quotes protect text and vanish
            return ('%s %s %s' % (a[0], op, b[0]), '$(%s,%s,%s)' % ('eq' if op == '==' else 'ne', a[0], b[0]))
        if rnd.random() < .3:
            x = gen_c(d - 1); return ('!(%s)' % x[0], '$(not,%s)' % x[1])
        x, y = gen_c(d - 1), gen_c(d - 1); op = rnd.choice(['&&', '||'])
        return ('(%s) %s (%s)' % (x[0], op, y[0]), '$(%s,%s,%s)' % ('and' if op == '&&' else 'or', x[1], y[1]))
    infix, fun = gen_c(2)
    env = mk_env()
    try:
        from bob.stringparser import IfExpression
        a = env.evaluate(IfExpression(infix), 'replay')
        b = not is_false(env.substitute(fun, 'replay'))
    except ParseError as ex:
        return None
    except Exception as ex:
        return {'kind': 'internal-exception', 'condition': infix, 'observed': repr(ex)}
    if a != b: return {'kind': 'infix-differs-from-function-form', 'infix': infix, 'function_form': fun, 'infix_value': a, 'function_value': b}
    return None

def replay(rep):
    seed = int(os.environ.get('VERIF_SEED', '0') or 0); rnd = random.Random(seed)
    thorough = os.environ.get('VERIF_TIER') == 'thorough'
    n_trees = 6000 if thorough else 1500
    distinct = set(); samples = []; tried = 0
    fixed = [('var', 'set', '-', ('lit', '}')), ('lit', '"'), ('lit', '$x'), ('var', 'null', ':-', ('fun', 'subst', [('lit', 'q'), ('lit', 'Q'), ('lit', 'qwer')])),
             ('var', 'null', ':+', ('var', 'unset', None, None)), ('var', 'unset', '+', ('fun', 'eq', [('var', 'unset', None, None), ('lit', 'a')]))]
    for t in fixed + [gen(rnd, rnd.randint(1, 3)) for _ in range(n_trees)]:
        for _ in range(2):
            tried += 1
            w = check_tree(rnd, t)
            if w is not None: return {'reproduced': True, 'tried': tried, 'witness': w}
        distinct.add(repr(t))
        if len(samples) < 3 and t[0] != 'lit': samples.append({'tree': repr(t), 'rendered': render(rnd, t)})
    for j in range(1500 if thorough else 600):
        tried += 1
        w = check_soup(rnd) or (check_infix(rnd) if (thorough or j % 10 == 0) else None)
        if w is not None: return {'reproduced': True, 'tried': tried, 'witness': w}
    return {'reproduced': False, 'tried': tried, 'distinct': len(distinct), 'samples': samples,
            'bound': 'expression trees of depth <= 3 over 4 variables (set/null/unset) and 8 functions, two random renderings each; 1500 raw strings <= 9 chars; 1500 infix conditions',
            'detail': 'real substitution agrees with the reference evaluator of the documented language'}
