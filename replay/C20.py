# Native bounded search for C20 (bounded; the Jenkins job graph of generated recipe graphs, real JobNameCalculator /
# _genJenkinsJobs / genJenkinsBuildOrder / PartialIR in-process):
#  (1) every package reachable from the roots is built by exactly one job; packages that the name calculator keeps in
#      different jobs never end up under one job name (display names AND sanitised internal names are unique per job)
#  (2) the job graph is acyclic (genJenkinsBuildOrder succeeds: recipe graphs are DAGs) and the order is topological
#  (3) a job depends on the jobs of all dependencies (arguments, tools, sandbox) of the steps it builds
#  (4) the embedded job specification (PartialIR -> JSON -> PartialIR) reproduces variant-ids, scripts, environments,
#      workspace paths, argument order, tools and sandbox of the live steps
import os, sys, json, random, shutil, tempfile, copy, itertools, traceback

def write_project(d, recipes, classes=None):
    import yaml
    os.makedirs(os.path.join(d, 'recipes'))
    with open(os.path.join(d, 'config.yaml'), 'w') as f: f.write('bobMinimumVersion: "0.25"\n')
    for n, r in recipes.items():
        with open(os.path.join(d, 'recipes', n + '.yaml'), 'w') as f: yaml.safe_dump(r, f, default_flow_style=False)

def gen_recipes(rnd):
    """cycle-prone shapes: recipes in several variants, tools/sandboxes whose providers depend on sibling variants,
    recipe names that look like numbered job names (x-1), names differing only in case / special characters, multiPackage"""
    base = rnd.choice(['lib', 'Lib', 'l.b', 'core'])
    names = [base, base + '-1']
    if rnd.random() < .5: names.append(base.lower() if base.lower() != base else base.upper())
    if rnd.random() < .5: names.append(base.replace('.', '_') if '.' in base else base + '.x')
    names = list(dict.fromkeys(names))
    R = {}
    for n in names:
        R[n] = {'buildVars': ['FLAVOR'], 'buildScript': 'echo %s ${FLAVOR:-}\n' % n, 'packageScript': 'true\n'}
        if rnd.random() < .6: R[n]['buildTools'] = [{'name': 'cc', 'if': '$(is-tool-defined,cc)'}]
    # a tool provider that itself depends on (variants of) the libraries
    R['compiler'] = {'depends': [{'name': n} for n in rnd.sample(names, rnd.randint(1, len(names)))], 'buildScript': 'true\n', 'packageScript': 'true\n', 'provideTools': {'cc': '.'}}
    if rnd.random() < .5:
        R['sbx'] = {'depends': [rnd.choice(names)], 'buildScript': 'true\n', 'packageScript': 'true\n', 'provideSandbox': {'paths': ['/bin']}}
    if rnd.random() < .6:
        R['multi'] = {'buildScript': 'true\n', 'multiPackage': {'a': {'packageScript': 'echo a\n'}, 'a-b': {'packageScript': 'echo ab\n'}, 'c': {'depends': [names[0]], 'packageScript': 'echo c\n'}}}
    if 'multi' in R and rnd.random() < .7:
        # a provider in the middle of sibling variants: multi-c -> x -> multi-a|multi-a-b
        R['x'] = {'depends': [rnd.choice(['multi-a', 'multi-a-b'])], 'buildScript': 'echo x\n', 'packageScript': 'echo x\n'}
        R['multi']['multiPackage']['c']['depends'] = R['multi']['multiPackage']['c']['depends'] + ['x']
    root_deps = [{'name': 'compiler', 'use': ['tools'], 'forward': True}]
    if 'sbx' in R and rnd.random() < .7: root_deps.append({'name': 'sbx', 'use': ['sandbox'], 'forward': True})
    for n in names:
        if rnd.random() < .8: root_deps.append({'name': n, 'environment': {'FLAVOR': rnd.choice(['x', 'y'])}} if rnd.random() < .4 else n)
    if 'multi' in R:
        ms = ['multi-a', 'multi-a-b', 'multi-c']; rnd.shuffle(ms); root_deps += ms[:rnd.randint(1, 3)]
    R['root'] = {'root': True, 'depends': root_deps, 'buildScript': 'true\n', 'packageScript': 'true\n'}
    if rnd.random() < .4:
        R['root2'] = {'root': True, 'depends': [{'name': rnd.choice(names), 'environment': {'FLAVOR': 'z'}}], 'buildScript': 'true\n', 'packageScript': 'true\n'}
    return R

DIRECTED = [
    # r-a and r-b may share a job, r-c must not join it: r-c -> x -> r-b
    {'root': {'root': True, 'depends': ['r-a', 'r-b', 'r-c'], 'buildScript': 'true\n', 'packageScript': 'true\n'},
     'r': {'multiPackage': {'a': {'packageScript': 'echo a\n'}, 'b': {'packageScript': 'echo b\n'}, 'c': {'depends': ['x'], 'buildScript': 'true\n', 'packageScript': 'echo c\n'}}},
     'x': {'depends': ['r-b'], 'buildScript': 'true\n', 'packageScript': 'echo x\n'}},
    # numbered names of a split group collide with a recipe that is really called lib-1
    {'root': {'root': True, 'depends': [{'name': 'compiler', 'use': ['tools'], 'forward': True}, 'lib'], 'buildScript': 'true\n', 'packageScript': 'true\n'},
     'compiler': {'depends': ['lib', 'lib-1'], 'buildScript': 'true\n', 'packageScript': 'true\n', 'provideTools': {'cc': '.'}},
     'lib': {'buildTools': [{'name': 'cc', 'if': '$(is-tool-defined,cc)'}], 'buildScript': 'true\n', 'packageScript': 'true\n'},
     'lib-1': {'buildScript': 'echo other\n', 'packageScript': 'true\n'}},
    # names that differ only in what the internal name sanitising removes, with a dependency between them
    {'root': {'root': True, 'depends': ['Lib'], 'buildScript': 'true\n', 'packageScript': 'true\n'},
     'Lib': {'depends': ['lib'], 'buildScript': 'true\n', 'packageScript': 'true\n'},
     'lib': {'buildScript': 'echo lower\n', 'packageScript': 'true\n'}},
    {'root': {'root': True, 'depends': ['Lib'], 'buildScript': 'true\n', 'packageScript': 'true\n'},
     'Lib': {'depends': ['mid'], 'buildScript': 'echo upper\n', 'packageScript': 'true\n'},
     'mid': {'depends': ['lib'], 'buildScript': 'echo mid\n', 'packageScript': 'true\n'},
     'lib': {'buildScript': 'echo lower\n', 'packageScript': 'true\n'}},
    # variants of one recipe that live in one job but differ in what is recorded per recipe (script language)
    {'root': {'root': True, 'depends': ['lib-a', 'lib-b'], 'buildScript': 'true\n', 'packageScript': 'true\n'},
     'lib': {'multiPackage': {'a': {'scriptLanguage': 'bash', 'checkoutDeterministic': True, 'checkoutScript': 'echo a-src\n', 'buildScript': 'echo a-build\n', 'packageScript': 'echo a-pkg\n'},
                              'b': {'scriptLanguage': 'PowerShell', 'checkoutDeterministic': True, 'checkoutScript': 'Write-Output b-src\n', 'buildScript': 'Write-Output b-build\n', 'packageScript': 'Write-Output b-pkg\n'}}}},
    # a shared variant (lib-x, used by a and by zb-1) whose SECOND user must learn what the merged job reaches: lib-x/lib-y share the
    # job 'lib', lib-y -> zb-2, zb-1 -> lib-x: zb-1 and zb-2 must not be merged (lib -> zb -> lib)
    {'root': {'root': True, 'depends': ['a', 'zb-1', 'lib-y'], 'buildScript': 'echo root\n', 'packageScript': 'echo root\n'},
     'a': {'depends': ['lib-x'], 'buildScript': 'echo a\n', 'packageScript': 'echo a\n'},
     'lib': {'buildScript': 'echo lib\n', 'multiPackage': {'x': {'packageScript': 'echo lib-x\n'}, 'y': {'depends': ['zb-2'], 'packageScript': 'echo lib-y\n'}}},
     'zb': {'buildScript': 'echo zb\n', 'multiPackage': {'1': {'depends': ['lib-x'], 'packageScript': 'echo zb-1\n'}, '2': {'packageScript': 'echo zb-2\n'}}}},
    # the same with a third user and the shared variant reached last
    {'root': {'root': True, 'depends': ['zb-1', 'lib-y', 'a', 'b'], 'buildScript': 'echo root\n', 'packageScript': 'echo root\n'},
     'a': {'depends': ['lib-x'], 'buildScript': 'echo a\n', 'packageScript': 'echo a\n'}, 'b': {'depends': ['lib-x', 'zb-2'], 'buildScript': 'echo b\n', 'packageScript': 'echo b\n'},
     'lib': {'buildScript': 'echo lib\n', 'multiPackage': {'x': {'packageScript': 'echo lib-x\n'}, 'y': {'depends': ['zb-2'], 'packageScript': 'echo lib-y\n'}}},
     'zb': {'buildScript': 'echo zb\n', 'multiPackage': {'1': {'depends': ['lib-x'], 'packageScript': 'echo zb-1\n'}, '2': {'packageScript': 'echo zb-2\n'}}}},
    {'root': {'root': True, 'depends': ['a.b'], 'buildScript': 'true\n', 'packageScript': 'true\n'},
     'a.b': {'depends': ['a_b'], 'buildScript': 'true\n', 'packageScript': 'true\n'},
     'a_b': {'buildScript': 'echo underscore\n', 'packageScript': 'true\n'}},
]

def analyse(recipes, roots, isolate, sandbox, label, shortdesc=False):
    """returns witness or None; runs in a scratch project directory (chdir)"""
    from bob.input import RecipeSet
    from bob.errors import ParseError, BobError
    from bob.cmds.jenkins.jenkins import JobNameCalculator, _genJenkinsJobs, genJenkinsBuildOrder
    from bob.cmds.jenkins.intermediate import getJenkinsVariantId, PartialIR
    d = tempfile.mkdtemp(prefix='c20-'); old = os.getcwd()
    try:
        write_project(d, recipes); os.chdir(d)
        rs = RecipeSet()
        try:
            rs.parse({})
            packages = rs.generatePackages(lambda step, props: step.getPackage().getRecipe().getPackageName().replace('::', '/') + '/' + step.getLabel(), sandbox)
            rootPackages = []
            for r in roots: rootPackages.extend(packages.queryPackagePath(r))
        except BobError as e:
            return 'skip', 'project invalid: %s' % str(e)[:100]
        if not rootPackages: return 'skip', 'no roots'
        calc = JobNameCalculator('pfx-')
        for rp in rootPackages: calc.addPackage(rp)
        calc.isolate(isolate)
        desc = {'case': label, 'recipes': {k: v.get('depends') for k, v in recipes.items()}, 'roots': roots, 'isolate': isolate, 'sandbox': sandbox, 'shortdescription': shortdesc}
        try: calc.sanitize()
        except Exception as e: return dict(desc, kind='name-calculation-crashed', error=repr(e)[:200]), None
        jobs = {}
        try:
            for rp in sorted(rootPackages, key=lambda r: r.getName()):
                _genJenkinsJobs(rp.getPackageStep(), jobs, calc, False, False, set(), set(), shortdesc).makeRoot()
        except Exception as e: return dict(desc, kind='job-generation-crashed', error=repr(e)[:200]), None
        # (1) one job per package, unique names
        seen = {}
        def walk(step):
            vid = getJenkinsVariantId(step)
            if vid in seen: return
            seen[vid] = step
            for dd in step.getAllDepSteps():
                if dd.isValid(): walk(dd.getPackage().getPackageStep() if not dd.isPackageStep() else dd);
            pkg = step.getPackage()
            for s in (pkg.getCheckoutStep(), pkg.getBuildStep()):
                if s.isValid():
                    for dd in s.getAllDepSteps():
                        if dd.isValid() and dd.isPackageStep(): walk(dd)
        for rp in rootPackages: walk(rp.getPackageStep())
        disp_of_internal = {}
        for vid, step in seen.items():
            dn, iname = calc.getJobDisplayName(step), calc.getJobInternalName(step)
            if iname not in jobs: return dict(desc, kind='package-without-job', package=step.getPackage().getName(), job=iname), None
            built = [getJenkinsVariantId(s) for s in jobs[iname].getPackageSteps()]
            if vid not in built: return dict(desc, kind='package-not-built-by-its-job', package=step.getPackage().getName(), job=iname), None
            for other, oj in jobs.items():
                if other != iname and vid in [getJenkinsVariantId(s) for s in oj.getPackageSteps()]:
                    return dict(desc, kind='package-built-by-two-jobs', package=step.getPackage().getName(), jobs=[iname, other]), None
            prev = disp_of_internal.setdefault(iname, dn)
            if prev != dn: return dict(desc, kind='distinct-job-names-collapse-into-one-internal-name', internal=iname, display=[prev, dn]), None
        # (2) acyclic + topological
        try: order = genJenkinsBuildOrder(jobs)
        except ParseError as e:
            return dict(desc, kind='job-graph-cyclic-for-an-acyclic-recipe-graph', error=str(e)[:200]), None
        pos = {n: i for i, n in enumerate(order)}
        if sorted(order) != sorted(jobs): return dict(desc, kind='build-order-incomplete', order=order, jobs=sorted(jobs)), None
        for n, j in jobs.items():
            for u in j.getUpstreamJobs():
                if u not in jobs: return dict(desc, kind='upstream-job-missing', job=n, upstream=u), None
                if pos[u] >= pos[n]: return dict(desc, kind='build-order-not-topological', job=n, upstream=u), None
        # (3) dependencies of every built step are upstream jobs (or the same job)
        for n, j in jobs.items():
            ups = j.getUpstreamJobs()
            for s in itertools.chain(j.getCheckoutSteps(), j.getBuildSteps(), j.getPackageSteps()):
                for dd in s.getAllDepSteps():
                    if not dd.isValid(): continue
                    dj = calc.getJobInternalName(dd)
                    if dj != n and dj not in ups:
                        return dict(desc, kind='dependency-job-not-upstream', job=n, step=s.getPackage().getName() + '/' + s.getLabel(), dependency=dd.getPackage().getName(), dependency_job=dj), None
        # (4) job specification round trip
        for n, j in jobs.items():
            ir = PartialIR()
            for s in j.getPackageSteps(): ir.add(s)
            ir2 = PartialIR.fromData(json.loads(json.dumps(ir.toData(), sort_keys=True)))
            live = {getJenkinsVariantId(s).hex(): s for s in j.getPackageSteps()}
            for rootvid, ps in zip(ir2.roots, ir2.getRoots()):
                def cmp_step(a, b, depth=0, ws=True):
                    if a.isValid() != b.isValid(): return 'isValid'
                    if not a.isValid(): return None
                    for attr in (('getVariantId', 'getWorkspacePath') if depth == 0 and ws else ('getVariantId',)) + (('getLabel', 'isDeterministic', 'isRelocatable', 'getMainScript', 'getSetupScript', 'getEnv', 'getDigestScript', 'getPaths', 'getLibraryPaths', 'getExecPath') if depth == 0 else ()):
                        if not hasattr(b, attr): continue          # not part of the live step API
                        try: va, vb = getattr(a, attr)(), getattr(b, attr)()
                        except Exception as e: return '%s raised %r' % (attr, e)
                        if (dict(va) if attr == 'getEnv' else va) != (dict(vb) if attr == 'getEnv' else vb): return '%s: spec %r live %r' % (attr, va, vb)
                    if depth == 0:
                        # what is recorded per recipe (the build node picks the interpreter from it)
                        ra, rb = a.getPackage().getRecipe(), b.getPackage().getRecipe()
                        for attr in ('getName', 'getPackageName'):
                            if hasattr(ra, attr) and hasattr(rb, attr) and getattr(ra, attr)() != getattr(rb, attr)(): return 'recipe %s: spec %r live %r' % (attr, getattr(ra, attr)(), getattr(rb, attr)())
                        la_, lb_ = getattr(ra, 'scriptLanguage', None), getattr(rb, 'scriptLanguage', None)
                        if la_ is not None and lb_ is not None and getattr(la_, 'index', la_) != getattr(lb_, 'index', lb_): return 'scriptLanguage: spec %r live %r' % (la_, lb_)
                        aa, bb = list(a.getArguments()), list(b.getArguments())
                        if len(aa) != len(bb): return 'argument count'
                        for x, y in zip(aa, bb):
                            r = cmp_step(x, y, 1)
                            if r: return 'argument ' + r
                        ta, tb = a.getTools(), b.getTools()
                        if sorted(ta) != sorted(tb): return 'tool names'
                        for k in ta:
                            if ta[k].getPath() != tb[k].getPath() or ta[k].getLibs() != tb[k].getLibs(): return 'tool ' + k
                            r = cmp_step(ta[k].getStep(), tb[k].getStep(), 1)
                            if r: return 'tool %s %s' % (k, r)
                        sa, sb = a.getSandbox(), b.getSandbox()
                        if (sa is None) != (sb is None): return 'sandbox presence'
                        if sa is not None:
                            r = cmp_step(sa.getStep(), sb.getStep(), 1)
                            if r: return 'sandbox ' + r
                    return None
                vid = rootvid if rootvid in live else None
                if vid is None: return dict(desc, kind='job-spec-root-not-a-step-of-the-job', job=n), None
                lp = live[vid]
                for la, pa in ((lp, ps), (lp.getPackage().getBuildStep(), ps.getPackage().getBuildStep()), (lp.getPackage().getCheckoutStep(), ps.getPackage().getCheckoutStep())):
                    # steps are identified by variant-id: equal build/checkout steps of sibling packages share one workspace in the spec
                    r = cmp_step(pa, la, 0, la is lp)
                    if r: return dict(desc, kind='job-spec-does-not-reproduce-the-step', job=n, package=lp.getPackage().getName(), differs=r), None
        return None, {'jobs': len(jobs), 'packages': len(seen)}
    finally:
        os.chdir(old); shutil.rmtree(d, ignore_errors=True)

def replay(rep):
    seed = int(os.environ.get('VERIF_SEED', '0') or 0); rnd = random.Random(seed)
    thorough = os.environ.get('VERIF_TIER') == 'thorough'
    n = 150 if thorough else 30
    tried = 0; skipped = 0; distinct = set(); samples = []
    cases = [('directed-%d' % i, r, ['root'], None, False, sd) for i, r in enumerate(DIRECTED) for sd in (False, True)]
    for i in range(n):
        R = gen_recipes(rnd)
        roots = ['root'] + (['root2'] if 'root2' in R and rnd.random() < .7 else [])
        iso = rnd.choice([None, None, '^multi', '.*-1$', 'lib'])
        cases.append(('gen-%d' % i, R, roots, iso, 'sbx' in R and rnd.random() < .7, rnd.random() < .5))
    for label, R, roots, iso, sbx, sd in cases:
        try: w, info = analyse(R, roots, iso, sbx, label, sd)
        except Exception:
            return {'reproduced': None, 'detail': 'harness crashed on %s: %s' % (label, traceback.format_exc()[-600:])}
        if w == 'skip': skipped += 1; continue
        tried += 1; distinct.add(json.dumps(R, sort_keys=True))
        if w is not None: return {'reproduced': True, 'tried': tried, 'witness': w}
        if len(samples) < 3: samples.append({'case': label, 'recipes': sorted(R), 'info': info})
    if tried < len(cases) // 2: return {'reproduced': None, 'detail': 'only %d of %d generated projects were valid' % (tried, len(cases))}
    return {'reproduced': False, 'tried': tried, 'distinct': len(distinct), 'samples': samples,
            'bound': '%d directed (x2 description modes) + %d generated recipe graphs (<= 9 recipes: multi-variant libraries, tool/sandbox providers depending on sibling variants, look-alike names, multiPackage, isolate patterns, 1-2 roots)' % (len(DIRECTED), n),
            'detail': 'unique job names, acyclic job graphs in topological order, complete upstream sets, job specifications reproduce the live steps (%d invalid projects skipped)' % skipped}
