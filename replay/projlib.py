# Shared helper for the bounded native searches that need whole projects: generates small recipe DAGs, applies edit
# histories, runs the real `bob` (subprocess, sources taken from VERIF_REPO) and reads back what was built.
import os, sys, json, subprocess, tempfile, shutil, random, gzip, hashlib, copy

REPO = os.environ.get('VERIF_REPO', '/repo')
PY = '/venv/bin/python'
BOB = "import sys; from bob.scripts import bob; sys.exit(bob())"

QUERY = r"""
import json, sys, os
from bob.input import RecipeSet
if os.environ.get('VERIF_NOMEMO') == '1':
    # oracle: the same calculation with the in-memory package memoisation switched off (every lookup misses)
    import bob.input
    bob.input.PackageMatcher.matches = lambda self, *a, **k: False
rs = RecipeSet()
defines = dict(a.split('=', 1) for a in sys.argv[2:])
rs.defineHook = None
rs.parse(defines)
pkgs = rs.generatePackages(lambda s,p: "unused", sys.argv[1] == '1')
out = {}
def visit(p, path):
    key = "/".join(path)
    if key in out: return
    rec = {'recipe': p.getRecipe().getName(), 'package': p.getName(), 'steps': {}}
    for s in (p.getCheckoutStep(), p.getBuildStep(), p.getPackageStep()):
        if not s.isValid(): continue
        rec['steps'][s.getLabel()] = {'vid': s.getVariantId().hex(), 'env': dict(s.getEnv()), 'script': s.getScript(),
            'args': [a.getVariantId().hex() for a in s.getArguments() if a.isValid()],
            'tools': {n: t.getStep().getVariantId().hex() for n, t in s.getTools().items()},
            'deterministic': s.isDeterministic() if s.isCheckoutStep() else True}
    rec['deps'] = []
    for d in p.getDirectDepSteps():
        dp = d.getPackage(); rec['deps'].append(dp.getName()); visit(dp, path + [dp.getName().split('::')[-1] if False else dp.getName()])
    out[key] = rec
for r in pkgs.getRootPackage().getDirectDepSteps():
    visit(r.getPackage(), [r.getPackage().getName()])
json.dump(out, sys.stdout)
"""

class HarnessTimeout(RuntimeError): pass

class Project:
    def __init__(self, root=None, prefix='proj-'):
        self.dir = root or tempfile.mkdtemp(prefix=prefix)
        os.makedirs(os.path.join(self.dir, 'recipes'), exist_ok=True)
        self.env = dict(os.environ); self.env['PYTHONPATH'] = os.path.join(REPO, 'pym')
        self.env.pop('BOB_VERIF', None)
    def cleanup(self): shutil.rmtree(self.dir, ignore_errors=True)
    def write(self, model):
        """model: {'recipes': {name: dict}, 'config': dict}; rewrites recipes/ and config.yaml"""
        import yaml
        rd = os.path.join(self.dir, 'recipes')
        for f in os.listdir(rd): os.unlink(os.path.join(rd, f))
        for name, r in model['recipes'].items():
            with open(os.path.join(rd, name + '.yaml'), 'w') as f: yaml.safe_dump({k: v for k, v in r.items() if not k.startswith('__')}, f, default_flow_style=False)
        cfg = dict(model.get('config') or {}); cfg.setdefault('bobMinimumVersion', '0.25')
        with open(os.path.join(self.dir, 'config.yaml'), 'w') as f: yaml.safe_dump(cfg, f)
        for rel, content in (model.get('files') or {}).items():
            p = os.path.join(self.dir, rel); os.makedirs(os.path.dirname(p), exist_ok=True)
            with open(p, 'w') as f: f.write(content)
    def bob(self, *args, env=None, timeout=300, cwd=None):
        e = dict(self.env)
        if env: e.update(env)
        # output goes to a file and the child gets its own process group: a hard-killed bob orphans helper
        # processes (multiprocessing fork server) that would otherwise keep a pipe open
        import signal
        with tempfile.TemporaryFile(mode='w+') as log:
            p = subprocess.Popen([PY, '-c', BOB] + list(args), cwd=cwd or self.dir, env=e, stdin=subprocess.DEVNULL, stdout=log,
                                 stderr=subprocess.STDOUT, start_new_session=True)
            timed_out = False
            try: rc = p.wait(timeout=timeout)
            except subprocess.TimeoutExpired: rc = -9; timed_out = True
            try: os.killpg(p.pid, signal.SIGKILL)
            except OSError: pass
            log.seek(0)
            # a run cut off by the harness is no observation of bob: never a witness, the case (or the search) is undecided
            if timed_out: raise HarnessTimeout('bob %s did not finish within %d s (machine overloaded?): %s' % (' '.join(args[:3]), timeout, log.read()[-200:]))
            return rc, log.read()
    def query(self, sandbox=False, defines=(), env=None):
        e = dict(self.env)
        if env: e.update(env)
        p = subprocess.run([PY, '-c', QUERY, '1' if sandbox else '0'] + list(defines), cwd=self.dir, capture_output=True, text=True, env=e, timeout=120)
        if p.returncode != 0: raise RuntimeError('query failed: ' + p.stderr[-800:])
        return json.loads(p.stdout)
    def workspace(self, package, label, release=False):
        """workspace path as reported by bob itself"""
        rc, out = self.bob('query-path', '-f', '{%s}' % label, *(['--release'] if release else ['--develop']), package)
        lines = [l for l in out.strip().split('\n') if l and not l.startswith('WARNING') and 'conda' not in l]
        return lines[-1] if lines else None
    def paths(self):
        """package path -> {label: workspace} as bob's own query-path reports them (one query per label: a line is
        omitted when any placeholder of the format has no directory)"""
        import concurrent.futures as cf
        res = {}
        def one(label):
            rc, out = self.bob('query-path', '-f', '{name}|{%s}' % label, '//*')
            return label, out
        with cf.ThreadPoolExecutor(max_workers=3) as ex:
            for label, out in ex.map(one, ('src', 'build', 'dist')):
                for l in out.split('\n'):
                    parts = l.strip().split('|')
                    if len(parts) == 2 and parts[1] and ' ' not in parts[0]: res.setdefault(parts[0], {})[label] = parts[1]
        return res
    def audit(self, ws):
        f = os.path.join(self.dir, os.path.dirname(ws), 'audit.json.gz')
        if not os.path.exists(f): return None
        with gzip.open(f, 'rb') as g: return json.load(g)

def tree_digest(path):
    """independent content digest of a workspace (names, modes, contents, link targets)"""
    h = hashlib.sha1()
    if not os.path.isdir(path): return None
    for dp, ds, fs_ in sorted(os.walk(path)):
        ds.sort()
        for n in sorted(ds + fs_):
            p = os.path.join(dp, n); st = os.lstat(p); rel = os.path.relpath(p, path)
            h.update(rel.encode() + b'\0' + oct(st.st_mode & 0o170777).encode() + b'\0')
            if os.path.islink(p): h.update(os.readlink(p).encode())
            elif os.path.isfile(p): h.update(open(p, 'rb').read())
    return h.hexdigest()

# ---------------------------------------------------------------------------------------------- generator
def gen_model(rnd, n=None):
    """small recipe DAG: r0 is the root; recipe i may depend on recipes with a larger index"""
    n = n or rnd.randint(2, 4)
    recipes = {}
    for i in range(n):
        name = 'r%d' % i
        r = {}
        if i == 0: r['root'] = True
        deps = [j for j in range(i + 1, n) if rnd.random() < .6]
        if i == 0 and not deps and n > 1: deps = [1]
        if deps: r['depends'] = ['r%d' % j for j in deps]
        v = 'V%d' % i
        r['environment'] = {v: 'val%d' % rnd.randint(0, 2)}
        if rnd.random() < .8:
            r['checkoutDeterministic'] = True
            r['checkoutScript'] = 'echo src-%s > s%d.txt\n' % (name, i)
        r['buildVars'] = [v]
        r['buildScript'] = ('echo "%s ${%s}" > out.txt\n' % (name, v)) + ('[ -d "$1" ] && cp -r "$1"/* . || true\n' if 'checkoutScript' in r else '') + \
                           'rm -f deps.txt\nfor i in "${@:2}" ; do cat "$i"/result.txt >> deps.txt ; done\n'
        r['packageScript'] = 'cat "$1"/out.txt > result.txt\n[ -e "$1"/deps.txt ] && cat "$1"/deps.txt >> result.txt || true\n'
        if rnd.random() < .3:
            r['provideVars'] = {'P%d' % i: 'provided-${%s}' % v}
        recipes[name] = r
    # a tool whose *content* (not its recipe) can change, used only by package scripts of some recipes
    if rnd.random() < .6:
        recipes['tool'] = {'environment': {'TV': 'tv0'}, 'buildVars': ['TV'],
                           'buildScript': 'echo "#!/bin/sh" > gen.sh\necho "echo generated-by-tool-$(cat %s)" >> gen.sh\nchmod +x gen.sh\n' % 'TOOLSRC',
                           'packageScript': 'cp "$1"/gen.sh .\n', 'provideTools': {'gen': '.'}}
        # the tool reads a source file that lives in the project (import SCM): editing it changes only the tool's content
        recipes['tool']['checkoutSCM'] = {'scm': 'import', 'url': 'toolsrc', 'prune': True}
        recipes['tool']['buildScript'] = recipes['tool']['buildScript'].replace('TOOLSRC', '"$1"/version.txt')
        users = [n_ for n_ in recipes if n_ != 'tool' and rnd.random() < .5] or ['r0']
        for u in users:
            r = recipes[u]
            r.setdefault('depends', []).append({'name': 'tool', 'use': ['tools']})
            r['packageTools'] = ['gen']
            r['packageScript'] = r['packageScript'] + 'gen.sh >> result.txt\n'
    files = {'toolsrc/version.txt': 'v1\n'} if 'tool' in recipes else {}
    # a library that is reached in several variants (different FLAVOR per dependency edge)
    if rnd.random() < .6:
        recipes['lib'] = {'packageVars': ['FLAVOR'], 'buildVars': ['FLAVOR'], 'buildScript': 'echo "lib flavor ${FLAVOR}" > out.txt\n',
                          'packageScript': 'cp "$1"/out.txt result.txt\n'}
        parents = [n_ for n_ in sorted(recipes) if n_.startswith('r')]
        for i_, pn in enumerate(rnd.sample(parents, min(len(parents), rnd.randint(2, 3)))):
            recipes[pn].setdefault('depends', []).append({'name': 'lib', 'environment': {'FLAVOR': 'f%d' % i_}})
    return {'recipes': recipes, 'config': {}, 'files': files}

EDITS = ['script-comment', 'script-semantic', 'var-value', 'checkout-comment', 'add-dep', 'remove-dep', 'pkg-script', 'revert', 'tool-source', 'lib-flavor', 'lib-flavor', 'build-finalize', 'package-finalize', 'build-setup']

def apply_edit(rnd, model, history):
    """returns (new model, description); never mutates the input"""
    m = copy.deepcopy(model)
    names = sorted(m['recipes'])
    kind = rnd.choice(EDITS)
    name = rnd.choice([n for n in names if n.startswith('r')]); r = m['recipes'][name]
    if kind == 'script-comment': r['buildScript'] = '# note %d\n' % rnd.randint(0, 99) + r['buildScript']
    elif kind == 'script-semantic': r['buildScript'] += 'echo extra%d >> out.txt\n' % rnd.randint(0, 9)
    elif kind == 'var-value':
        k = sorted(r['environment'])[0]; r['environment'][k] = 'val%d' % rnd.randint(3, 9)
    elif kind == 'checkout-comment' and 'checkoutScript' in r: r['checkoutScript'] = '# reviewed %d\n' % rnd.randint(0, 99) + r['checkoutScript']
    elif kind == 'build-finalize': r['buildFinalize'] = r.get('buildFinalize', '') + 'echo fin%d >> out.txt\n' % rnd.randint(0, 9)       # Setup/Finalize fragments run as well
    elif kind == 'package-finalize': r['packageFinalize'] = r.get('packageFinalize', '') + 'echo pfin%d >> result.txt\n' % rnd.randint(0, 9)
    elif kind == 'build-setup': r['buildSetup'] = 'EXTRA_%d=1\n' % rnd.randint(0, 9)
    elif kind == 'pkg-script': r['packageScript'] += 'echo pkg%d >> result.txt\n' % rnd.randint(0, 9)
    elif kind == 'add-dep':
        i = int(name[1:]); cands = [n for n in names if n.startswith('r') and int(n[1:]) > i and n not in r.get('depends', [])]
        if cands: r.setdefault('depends', []).append(rnd.choice(cands))
    elif kind == 'remove-dep' and [d for d in r.get('depends', []) if isinstance(d, str)] and not (name == 'r0' and len(r['depends']) == 1):
        r['depends'].remove(rnd.choice([d for d in r['depends'] if isinstance(d, str)]))
        if not r['depends']: del r['depends']
    elif kind == 'tool-source' and m.get('files'):
        m['files']['toolsrc/version.txt'] = 'v%d\n' % rnd.randint(2, 99); name = 'tool'
    elif kind == 'lib-flavor' and 'lib' in m['recipes']:
        edges = [(pn, d) for pn, pr in sorted(m['recipes'].items()) for d in pr.get('depends', []) if isinstance(d, dict) and d.get('name') == 'lib']
        if edges:
            pn, d = rnd.choice(edges); d['environment']['FLAVOR'] = 'g%d' % rnd.randint(0, 9); name = pn
    elif kind == 'revert' and history: return copy.deepcopy(rnd.choice(history)), 'revert'
    return m, '%s %s' % (kind, name)
