# Native bounded search for C09 (bounded stand-in for what the contracts leave to the OS and to tarfile/gzip):
#  * races: K uploader processes publish different payloads under one Build-Id while readers poll the artifact name;
#    every observation is "absent" or a complete valid artifact, and once present neither inode nor bytes change
#  * crashes / I/O errors: the upload runs in a child with a shim that kills the process (or raises OSError) at the
#    n-th file-system operation of the upload path, for every n; afterwards the artifact name holds nothing or a
#    complete artifact, an artifact that was there before is untouched, and a failed pack leaves nothing
#  * cache mirroring: downloads through Tee/MirrorLeecher into a cache archive for a sweep of artifact sizes (covering
#    every residue class of the tarfile stream block size); the mirrored file is absent or a complete artifact
import os, sys, io, gzip, tarfile, hashlib, random, shutil, tempfile, time, json, signal, multiprocessing as mp

BID = bytes(range(20))

def mk_archive(path, flags=None):
    from bob.archive import LocalArchive
    spec = {'backend': 'file', 'path': path}
    if flags is not None: spec['flags'] = flags
    return LocalArchive(spec)

def art_path(arch, bid=BID):
    from bob.archive import ARTIFACT_SUFFIX
    return arch._remoteName(bid, ARTIFACT_SUFFIX)

def mk_payload(base, tag, size, rnd=None):
    d = os.path.join(base, 'pl-%s' % tag); c = os.path.join(d, 'content'); os.makedirs(c)
    data = (rnd.randbytes(size) if rnd is not None else (tag.encode() * (size // max(1, len(tag)) + 1))[:size])
    with open(os.path.join(c, 'payload.bin'), 'wb') as f: f.write(data)
    with open(os.path.join(c, 'tag.txt'), 'w') as f: f.write(tag)
    audit = os.path.join(d, 'audit.json.gz')
    with gzip.open(audit, 'wb') as f: f.write(b'{"tag": "%s"}' % tag.encode())
    return audit, c

def validate(data):
    """complete valid artifact? returns tag or raises"""
    raw = gzip.decompress(data)                       # fails on a truncated stream / missing trailer / bad CRC
    with tarfile.open(fileobj=io.BytesIO(raw), mode='r:') as tar:
        names = tar.getnames()
        if 'meta/audit.json.gz' not in names or 'content/tag.txt' not in names: raise ValueError('members missing: %r' % names)
        tag = tar.extractfile('content/tag.txt').read().decode()
        pl = tar.extractfile('content/payload.bin').read()
    return tag, hashlib.sha1(pl).hexdigest()

def upload(arch, audit, content, bid=BID):
    from bob.archive import BaseArchive, ARTIFACT_SUFFIX
    from bob.errors import BuildError
    try: return BaseArchive._uploadPackage(arch, bid, ARTIFACT_SUFFIX, audit, content)
    except BuildError as e: return (str(e), 'BuildError')

# ------------------------------------------------------------------ races
def _uploader(archdir, audit, content, barrier, bids):
    arch = mk_archive(archdir)
    for b in bids:
        barrier.wait()
        try: upload(arch, audit, content, b)
        except Exception as e: pass

def _reader(archdir, bids, stop, q):
    arch = mk_archive(archdir)
    seen = {}
    bad = None
    while not stop.is_set() and bad is None:
        for b in bids:
            p = art_path(arch, b)
            try:
                with open(p, 'rb') as f:
                    ino = os.fstat(f.fileno()).st_ino; data = f.read()
            except FileNotFoundError:
                if b in seen: bad = {'kind': 'artifact-disappeared', 'path': p}
                continue
            try: tag = validate(data)
            except Exception as e:
                bad = {'kind': 'reader-saw-incomplete-artifact', 'path': p, 'size': len(data), 'error': repr(e)[:200]}; break
            cur = (ino, hashlib.sha1(data).hexdigest(), tag)
            if b in seen and seen[b] != cur:
                bad = {'kind': 'present-artifact-was-replaced', 'path': p, 'first': list(seen[b]), 'later': list(cur)}; break
            seen[b] = cur
    q.put(bad)

def race_case(base, k, nbids, size):
    archdir = os.path.join(base, 'arch')
    bids = [bytes([i]) * 20 for i in range(nbids)]
    pls = [mk_payload(base, 'u%d' % i, size + 1000 * i) for i in range(k)]
    ctx = mp.get_context('fork')
    barrier = ctx.Barrier(k); stop = ctx.Event(); q = ctx.Queue()
    readers = [ctx.Process(target=_reader, args=(archdir, bids, stop, q)) for _ in range(2)]
    ups = [ctx.Process(target=_uploader, args=(archdir, a, c, barrier, bids)) for a, c in pls]
    for p in readers + ups: p.start()
    for p in ups: p.join(300)
    if any(p.is_alive() for p in ups):
        for p in ups + readers: p.kill()
        raise RuntimeError('uploaders did not finish within 300 s (machine overloaded?)')
    time.sleep(0.05); stop.set()
    res = [q.get(timeout=60) for _ in readers]
    for p in readers: p.join(30)
    for r in res:
        if r: return r
    arch = mk_archive(archdir)
    for b in bids:
        p = art_path(arch, b)
        if not os.path.exists(p): return {'kind': 'all-uploads-lost', 'path': p}
        try: validate(open(p, 'rb').read())
        except Exception as e: return {'kind': 'final-artifact-invalid', 'path': p, 'error': repr(e)[:200]}
        left = [n for n in os.listdir(os.path.dirname(p)) if not n.endswith('.tgz')]
        if left: return {'kind': 'temporary-file-left-after-successful-uploads', 'files': left[:3]}
    return None


# ------------------------------------------------------------------ deterministic interleavings at API level
def schedules(k):
    """all interleavings of k uploaders with 3 stages each (open, pack, exit)"""
    import itertools
    def rec(left):
        if not any(left): yield []; return
        for i, n in enumerate(left):
            if n:
                l2 = list(left); l2[i] -= 1
                for r in rec(l2): yield [i] + r
    return rec([3] * k)

def schedule_case(base, sched, k, failing=()):
    from bob.archive import ARTIFACT_SUFFIX, ArtifactExistsError
    archdir = os.path.join(base, 'arch'); archs = [mk_archive(archdir) for _ in range(k)]
    pls = [mk_payload(base, 's%d' % i, 3000 + 500 * i) for i in range(k)]
    stage = [0] * k; up = [None] * k; io_ = [None] * k; dead = [False] * k
    p = art_path(archs[0]); seen = None
    for step, i in enumerate(sched):
        if dead[i]: continue
        try:
            if stage[i] == 0:
                up[i] = archs[i]._openUploadFile(BID, ARTIFACT_SUFFIX, False); io_[i] = up[i].__enter__()
            elif stage[i] == 1:
                if i in failing:
                    io_[i][1].write(b'partial garbage'); io_[i][1].flush()
                else: archs[i]._pack(io_[i][0], io_[i][1], pls[i][0], pls[i][1])
            else:
                if i in failing: up[i].__exit__(OSError, OSError('pack failed'), None)
                else: up[i].__exit__(None, None, None)
        except ArtifactExistsError: dead[i] = True
        except OSError: dead[i] = True
        stage[i] += 1
        if os.path.exists(p):
            data = open(p, 'rb').read(); cur = (os.stat(p).st_ino, hashlib.sha1(data).hexdigest())
            try: validate(data)
            except Exception as e: return {'kind': 'incomplete-artifact-under-the-artifact-name', 'schedule': sched, 'after_step': step, 'failing': list(failing), 'error': repr(e)[:160]}
            if seen is not None and cur != seen: return {'kind': 'present-artifact-was-replaced', 'schedule': sched, 'after_step': step, 'failing': list(failing)}
            seen = cur
        elif seen is not None: return {'kind': 'artifact-disappeared', 'schedule': sched, 'after_step': step}
    if seen is None and len(failing) < k and not all(dead): return {'kind': 'all-uploads-lost', 'schedule': sched, 'failing': list(failing)}
    if seen is not None and len(failing) == k: return {'kind': 'failed-upload-left-an-artifact', 'schedule': sched}
    left = [n for n in os.listdir(os.path.dirname(p)) if not n.endswith('.tgz')] if os.path.isdir(os.path.dirname(p)) else []
    if left: return {'kind': 'temporary-file-left-behind', 'files': left[:3], 'schedule': sched}
    return None

def all_schedules(base0, thorough):
    n = 0
    for k, fails in ((2, [(), (0,), (1,), (0, 1)]), (3, [(), (1,)] if thorough else [()])):
        for si, sched in enumerate(schedules(k)):
            if k == 3 and not thorough and si % 12: continue
            for failing in fails:
                b = os.path.join(base0, 'sc-%d-%d-%s' % (k, si, ''.join(map(str, failing)))); os.makedirs(b)
                w = schedule_case(b, sched, k, failing); n += 1
                shutil.rmtree(b, ignore_errors=True)
                if w: return w, n
    return None, n

# ------------------------------------------------------------------ a competitor at every file-system call of __exit__
def exit_interleave(base0):
    """uploader A has packed its artifact; at the k-th file-system call inside A's LocalArchiveUploader.__exit__ a competing
    uploader B publishes the same Build-Id completely (check-then-act windows).  What is present must never be replaced."""
    from bob.archive import ARTIFACT_SUFFIX, ArtifactExistsError
    import os as _os
    names = ['link', 'rename', 'replace', 'unlink', 'chmod']; pnames = ['exists', 'isfile', 'lexists']
    n = 0; k = 1
    while k <= 12:
        base = os.path.join(base0, 'x%d' % k); os.makedirs(base)
        archdir = os.path.join(base, 'arch'); A = mk_archive(archdir); B = mk_archive(archdir)
        pa = mk_payload(base, 'A', 3000); pb = mk_payload(base, 'B', 4100)
        p = art_path(A); count = [0]; seen = [None]; inside = [False]
        saved = {nm: getattr(_os, nm) for nm in names}; savedp = {nm: getattr(_os.path, nm) for nm in pnames}
        def step():
            if not inside[0]: return
            count[0] += 1
            if count[0] != k: return
            inside[0] = False
            try: upload(B, pb[0], pb[1])
            finally: inside[0] = True
            if os.path.exists(p): seen[0] = (os.stat(p).st_ino, hashlib.sha1(open(p, 'rb').read()).hexdigest())
        def wrap(f):
            def g(*a, **kw): step(); return f(*a, **kw)
            return g
        try:
            up = A._openUploadFile(BID, ARTIFACT_SUFFIX, False); io_ = up.__enter__()
            A._pack(io_[0], io_[1], pa[0], pa[1])
            for nm in names: setattr(_os, nm, wrap(saved[nm]))
            for nm in pnames: setattr(_os.path, nm, wrap(savedp[nm]))
            inside[0] = True
            try: up.__exit__(None, None, None)
            except (ArtifactExistsError, OSError): pass
        finally:
            inside[0] = False
            for nm in names: setattr(_os, nm, saved[nm])
            for nm in pnames: setattr(_os.path, nm, savedp[nm])
        n += 1
        if not os.path.exists(p): return {'kind': 'all-uploads-lost', 'competitor_at_call': k}, n
        data = open(p, 'rb').read()
        try: validate(data)
        except Exception as e: return {'kind': 'incomplete-artifact-under-the-artifact-name', 'competitor_at_call': k, 'error': repr(e)[:160]}, n
        cur = (os.stat(p).st_ino, hashlib.sha1(data).hexdigest())
        if seen[0] is not None and cur != seen[0]:
            return {'kind': 'present-artifact-was-replaced', 'detail': 'competitor published at file-system call %d of __exit__; the uploader then replaced its artifact' % k, 'competitor_at_call': k}, n
        left = [x for x in os.listdir(os.path.dirname(p)) if not x.endswith('.tgz')]
        if left: return {'kind': 'temporary-file-left-behind', 'files': left[:3], 'competitor_at_call': k}, n
        shutil.rmtree(base, ignore_errors=True)
        if count[0] < k: break
        k += 1
    return None, n

# ------------------------------------------------------------------ crash / error injection
class Inject(Exception): pass

def _child_upload(archdir, audit, content, n, mode, failpack, flags, w):
    """runs in a forked child; counts file-system operations of the upload path and kills/raises at the n-th"""
    import bob.archive as A, errno
    cnt = [0]
    def tick(what):
        cnt[0] += 1
        if cnt[0] == n:
            if mode == 'kill': os.write(w, ('%d %s\n' % (cnt[0], what)).encode()); os._exit(9)
            raise OSError(errno.EIO, 'injected at %s' % what)
    def wrap(mod, name):
        real = getattr(mod, name)
        def f(*a, **k):
            tick(name + '-before'); r = real(*a, **k)
            if mode == 'kill': tick(name + '-after')
            return r
        setattr(mod, name, f)
    for nm in ('link', 'unlink', 'replace', 'rename', 'chmod', 'remove'): wrap(os, nm)
    realNTF = A.NamedTemporaryFile
    class Proxy:
        def __init__(s, f): s._f = f; s.name = f.name; s._w = 0
        def write(s, data):
            s._w += 1
            if s._w in (1, 2, 5, 20): tick('write')
            if mode == 'kill' and s._w in (3, 10):
                h = len(data) // 2; s._f.write(data[:h]); s._f.flush(); tick('partial-write'); s._f.write(data[h:]); return len(data)
            return s._f.write(data)
        def close(s):
            try: tick('close')
            except OSError:
                # the buffered tail cannot be flushed (ENOSPC): the file keeps only a part of what was written
                s._f.flush(); os.ftruncate(s._f.fileno(), os.fstat(s._f.fileno()).st_size // 2); s._f.close(); raise
            return s._f.close()
        def __getattr__(s, k): return getattr(s._f, k)
    def ntf(*a, **k):
        tick('tmpfile'); return Proxy(realNTF(*a, **k))
    A.NamedTemporaryFile = ntf
    if failpack:
        realadd = tarfile.TarFile.add
        def add(self, name, arcname=None, **k):
            if arcname == 'content': raise OSError(errno.EIO, 'content unreadable')
            return realadd(self, name, arcname, **k)
        tarfile.TarFile.add = add
    arch = mk_archive(archdir, flags)
    try:
        r = upload(arch, audit, content)
        res = 'returned %r' % (r[1],)
    except BaseException as e:
        res = 'raised %s' % type(e).__name__
    os.write(w, ('%d done %s\n' % (cnt[0], res)).encode()); os._exit(0)

def inject_case(base, mode, failpack, preexisting, flags):
    """all n for one configuration; returns witness or None, and number of injection points"""
    audit, content = mk_payload(base, 'new', 30000)
    oaudit, ocontent = mk_payload(base, 'old', 2000)
    n = 1; points = 0
    while True:
        archdir = os.path.join(base, 'arch-%s-%d' % (mode, n))
        arch = mk_archive(archdir); p = art_path(arch)
        before = None
        if preexisting:
            upload(arch, oaudit, ocontent); before = (os.stat(p).st_ino, open(p, 'rb').read())
        r, w = os.pipe()
        pid = os.fork()
        if pid == 0:
            os.close(r)
            try: _child_upload(archdir, audit, content, n, mode, failpack, flags, w)
            finally: os._exit(3)
        os.close(w); os.waitpid(pid, 0)
        out = os.read(r, 4096).decode(); os.close(r)
        finished = ' done ' in out
        desc = {'mode': mode, 'n': n, 'pack_fails': failpack, 'artifact_existed': preexisting, 'flags': flags, 'child': out.strip()}
        if os.path.exists(p):
            data = open(p, 'rb').read()
            if before is not None:
                if (os.stat(p).st_ino, data) != before: return dict(desc, kind='existing-artifact-modified-by-later-upload'), points
            else:
                try: tag = validate(data)
                except Exception as e: return dict(desc, kind='incomplete-artifact-under-the-artifact-name', size=len(data), error=repr(e)[:200]), points
                if failpack: return dict(desc, kind='failed-upload-left-an-artifact'), points
                # an upload that failed before publishing must not leave an artifact
                if finished and mode == 'error' and not any(s in out for s in ("returned 'ok'", 'returned (')) and 'EXECUTED' not in out:
                    pass
        elif before is not None:
            return dict(desc, kind='existing-artifact-removed'), points
        shutil.rmtree(archdir, ignore_errors=True)
        if finished and int(out.split()[0]) < n: break       # n beyond the last operation: the run completed undisturbed
        points += 1; n += 1
        if n > 200: break
    return None, points

# ------------------------------------------------------------------ cache mirroring
def mirror_sweep(base, rnd, sizes, witness_only=True):
    from bob.archive import ARTIFACT_SUFFIX
    from bob.errors import BuildError
    src = mk_archive(os.path.join(base, 'src')); tried = 0
    for i, size in enumerate(sizes):
        bid = hashlib.sha1(b'%d' % size).digest()
        audit, content = mk_payload(base, 'm%d' % i, size, rnd)
        upload(src, audit, content, bid)
        sp = art_path(src, bid); sdata = open(sp, 'rb').read()
        cache = mk_archive(os.path.join(base, 'cache'), ['download', 'upload', 'cache'])
        ws = os.path.join(base, 'ws%d' % i); os.makedirs(ws)
        try: ok = src._downloadPackage(bid, ARTIFACT_SUFFIX, os.path.join(ws, 'audit.json.gz'), os.path.join(ws, 'content'), [cache], ws)
        except BuildError: pass
        tried += 1
        cp = art_path(cache, bid)
        if os.path.exists(cp):
            cdata = open(cp, 'rb').read()
            try: validate(cdata)
            except Exception as e:
                return {'kind': 'cache-mirror-published-incomplete-artifact', 'source_size': len(sdata), 'mirror_size': len(cdata), 'error': repr(e)[:160]}, tried
            if cdata != sdata: return {'kind': 'cache-mirror-differs-from-source', 'source_size': len(sdata), 'mirror_size': len(cdata)}, tried
        shutil.rmtree(ws, ignore_errors=True); shutil.rmtree(os.path.dirname(content), ignore_errors=True)
    return None, tried


def mirror_multi(base, rnd):
    """two cache mirrors; the first one ('nofail') gets a write error in the middle: the healthy one must still be complete"""
    import bob.archive as A, errno
    from bob.errors import BuildError
    src = mk_archive(os.path.join(base, 'src3'))
    audit, content = mk_payload(base, 'mm', 120000, rnd)
    upload(src, audit, content); sdata = open(art_path(src), 'rb').read()
    realNTF = A.NamedTemporaryFile
    for order in ((0, 1), (1, 0)):
        for failat in (1, 2, 3):
            dirs = [os.path.join(base, 'c%d-%d-%d' % (order[0], failat, i)) for i in range(2)]
            caches = [mk_archive(dirs[0], ['download', 'upload', 'cache', 'nofail']), mk_archive(dirs[1], ['download', 'upload', 'cache'])]
            class Proxy:
                def __init__(s, f): s._f = f; s.name = f.name; s._w = 0
                def write(s, data):
                    s._w += 1
                    if s._w == failat: raise OSError(errno.ENOSPC, 'No space left on device')
                    return s._f.write(data)
                def __getattr__(s, k): return getattr(s._f, k)
            def ntf(*a, **k):
                f = realNTF(*a, **k)
                return Proxy(f) if f.name.startswith(dirs[0]) else f
            A.NamedTemporaryFile = ntf
            ws = os.path.join(base, 'wsmm'); shutil.rmtree(ws, ignore_errors=True); os.makedirs(ws)
            try:
                try: src._downloadPackage(BID, A.ARTIFACT_SUFFIX, os.path.join(ws, 'audit.json.gz'), os.path.join(ws, 'content'), [caches[i] for i in order], ws)
                except BuildError: pass
            finally: A.NamedTemporaryFile = realNTF
            for i, c in enumerate(caches):
                cp = art_path(c)
                if os.path.exists(cp):
                    cdata = open(cp, 'rb').read()
                    if cdata != sdata:
                        return {'kind': 'cache-mirror-published-incomplete-artifact', 'cache': ['failing', 'healthy'][i], 'order': list(order), 'write_error_at': failat, 'source_size': len(sdata), 'mirror_size': len(cdata)}
    return None

def mirror_abort(base):
    """a download whose extraction fails must not publish anything in the cache"""
    from bob.archive import ARTIFACT_SUFFIX
    from bob.errors import BuildError
    src = mk_archive(os.path.join(base, 'src2')); cache = mk_archive(os.path.join(base, 'cache2'), ['download', 'upload', 'cache'])
    audit, content = mk_payload(base, 'tr', 50000, random.Random(5))
    upload(src, audit, content); sp = art_path(src); data = open(sp, 'rb').read()
    for cut in (len(data) // 2, len(data) - 4, len(data) - 1):
        with open(sp, 'wb') as f: f.write(data[:cut])
        ws = os.path.join(base, 'wst'); shutil.rmtree(ws, ignore_errors=True); os.makedirs(ws)
        failed = False
        try: src._downloadPackage(BID, ARTIFACT_SUFFIX, os.path.join(ws, 'audit.json.gz'), os.path.join(ws, 'content'), [cache], ws)
        except (BuildError, EOFError, OSError, tarfile.TarError): failed = True
        cp = art_path(cache)
        if os.path.exists(cp):
            # tarfile never reads the gzip trailer, so a source cut inside the trailer extracts fine; the mirror then has to
            # be the source as it is (a faithful copy) -- but a download that failed must not publish anything
            if failed: return {'kind': 'cache-mirror-published-after-failed-download', 'cut': cut, 'of': len(data)}
            if open(cp, 'rb').read() != data[:cut]: return {'kind': 'cache-mirror-differs-from-source', 'cut': cut, 'of': len(data)}
            os.unlink(cp)
    return None

def replay(rep):
    seed = int(os.environ.get('VERIF_SEED', '0') or 0); rnd = random.Random(seed)
    thorough = os.environ.get('VERIF_TIER') == 'thorough'
    base0 = tempfile.mkdtemp(prefix='c09-'); tried = 0; distinct = set()
    try:
        w, nsched = all_schedules(os.path.join(base0, 'sched'), thorough); tried += nsched; distinct.add('schedules')
        if w: return {'reproduced': True, 'tried': tried, 'witness': w}
        w, n = exit_interleave(os.path.join(base0, 'xi')); tried += n; distinct.add('exit-interleave')
        if w: return {'reproduced': True, 'tried': tried, 'witness': w}
        # mirroring: block size of tarfile's stream reader is 10240; cover one full period in steps, plus the edges
        # (a coarse sweep plus every 4th size around the block boundaries, located with a probe upload)
        step = 16 if thorough else 160
        pb = os.path.join(base0, 'probe'); a_, c_ = mk_payload(pb, 'p', 9000, rnd); pa = mk_archive(os.path.join(pb, 'a')); upload(pa, a_, c_)
        overhead = os.path.getsize(art_path(pa)) - 9000
        sizes = sorted(set(list(range(9000, 9000 + 10240 + 64, step)) + [512 + 10240 * k + d - overhead for k in (1, 2) for d in range(-24, 96, 4)]))
        w, n = mirror_sweep(os.path.join(base0, 'm'), rnd, sizes); tried += n; distinct.add('mirror')
        if w: return {'reproduced': True, 'tried': tried, 'witness': w}
        w = mirror_abort(os.path.join(base0, 'ma')); tried += 3
        if w: return {'reproduced': True, 'tried': tried, 'witness': w}
        w = mirror_multi(os.path.join(base0, 'mm'), rnd); tried += 6; distinct.add('multi-mirror')
        if w: return {'reproduced': True, 'tried': tried, 'witness': w}
        points = 0
        for mode in ('kill', 'error'):
            for failpack in (False, True):
                for pre in (False, True):
                    for flags in ((None, ['upload', 'download', 'nofail']) if mode == 'error' else (None,)):
                        b = os.path.join(base0, 'i-%s-%d-%d-%d' % (mode, failpack, pre, flags is not None)); os.makedirs(b)
                        w, n = inject_case(b, mode, failpack, pre, flags); tried += n; points += n
                        distinct.add((mode, failpack, pre, flags is not None))
                        if w: return {'reproduced': True, 'tried': tried, 'witness': w}
                        shutil.rmtree(b, ignore_errors=True)
        rounds = 6 if thorough else 2
        for i in range(rounds):
            b = os.path.join(base0, 'r%d' % i); os.makedirs(b)
            w = race_case(b, k=4 + 2 * (i % 2), nbids=6, size=150000); tried += 1; distinct.add(('race', i))
            if w: return {'reproduced': True, 'tried': tried, 'witness': w}
            shutil.rmtree(b, ignore_errors=True)
    finally:
        shutil.rmtree(base0, ignore_errors=True)
    return {'reproduced': False, 'tried': tried, 'distinct': len(distinct),
            'samples': [{'mirror_sizes': [sizes[0], sizes[-1], step]}, {'injection_points': points}, {'api_level_schedules': nsched}, {'race_rounds': rounds}],
            'bound': '%d mirrored artifact sizes (one tar block period, step %d); %d API-level interleavings of 2-3 uploaders (open/pack/exit, with failing packs); a competing upload at every file-system call of __exit__; kill/OSError at each of %d upload operations over 12 configurations; %d race rounds with 4-6 uploaders x 6 build-ids x 2 readers' % (len(sizes), step, nsched, points, rounds),
            'detail': 'readers saw nothing or complete artifacts; present artifacts were never replaced; mirrors were byte-identical to their source'}
