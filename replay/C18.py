# Native bounded search for C18: real PackageSet.queryPackagePath/queryTreePath on generated recipe DAGs against an
# independent step-by-step evaluation of the query over all paths from the root (declarative meaning).
import os, sys, json, random, subprocess, tempfile, shutil, fnmatch
from replay import projlib as P

WORKER = r'''
import sys, json, fnmatch
from bob.input import RecipeSet
from bob.errors import BobError
rs = RecipeSet(); rs.parse()
pkgs = rs.generatePackages(lambda s,p: "unused")
queries = json.load(open(sys.argv[1]))
# the package graph as plain data: node = package object identity (id), children by name, direct flag
root = pkgs.getRootPackage()
graph = {}
def walk(p):
    k = p._getId()
    if k in graph: return k
    ch = {}
    graph[k] = {'name': p.getName(), 'children': ch, 'env': dict(p.getPackageStep().getEnv()) if p.getName() else {}}
    direct = [s.getPackage() for s in p.getDirectDepSteps()]
    for d in direct: ch[d.getName()] = [walk(d), True]
    for s in p.getIndirectDepSteps():
        d = s.getPackage()
        if d.getName() not in ch: ch[d.getName()] = [walk(d), False]
    return k
rk = walk(root)
out = {'graph': {str(k): v for k, v in graph.items()}, 'root': str(rk), 'results': {}}
for q in queries:
    try:
        res = [[str(p._getId()), "/".join(p.getStack())] for p in pkgs.queryPackagePath(q)]
        allres = [[str(p._getId()), "/".join(p.getStack())] for p in pkgs.queryPackagePath(q, True)]
        tree = [["/".join(stack), n.getName()] for (stack, n) in pkgs.queryTreePath(q)]
        treeall = [["/".join(stack), n.getName()] for (stack, n) in pkgs.queryTreePath(q, True)]
        out['results'][q] = {'ok': True, 'packages': res, 'all': allres, 'tree': tree, 'treeall': treeall}
    except BobError as e:
        out['results'][q] = {'ok': False, 'error': str(e)}
json.dump(out, sys.stdout)
'''

def gen_graph(rnd):
    names = ['a1', 'a2', 'ab', 'b1', 'p', 'q', 'lib']
    n = rnd.randint(3, 6); used = rnd.sample(names, n)
    recipes = {'root': {'root': True, 'buildScript': 'true', 'packageScript': 'true'}}
    order = ['root'] + used
    for i, nm in enumerate(order):
        r = recipes.setdefault(nm, {'buildScript': 'true', 'packageScript': 'true'})
        cands = order[i + 1:]
        deps = [c for c in cands if rnd.random() < .5]
        if nm == 'root' and not deps: deps = [cands[0]]
        if deps: r['depends'] = [({'name': d, 'use': ['result', 'deps']} if rnd.random() < .25 else ({'name': d, 'environment': {'FLAVOR': rnd.choice('xy')}} if rnd.random() < .35 else d)) for d in deps]
        r['packageVars'] = ['LEVEL', 'FLAVOR']; r['environment'] = {'LEVEL': str(i)}      # FLAVOR comes from the depending package: one name, several variants
        # provided dependencies: whoever names this recipe with `use: [deps]` gets them as INDIRECT dependencies
        plain = [d if isinstance(d, str) else d['name'] for d in r.get('depends', [])]
        if nm != 'root' and plain and rnd.random() < .5: r['provideDeps'] = rnd.sample(plain, rnd.randint(1, len(plain)))
    return {'recipes': recipes, 'config': {}}

def gen_pred(rnd, names, depth=0):
    k = rnd.random()
    if k < .12: return ('cmpf', rnd.choice(['==', '!=']), rnd.choice('xyn'))
    if k < .35: return ('cmp', rnd.choice(['==', '!=']), str(rnd.randint(0, 4)))
    if k < .5: return ('rel', rnd.choice(names + ['*', 'a*']))
    if k < .6: return ('reldesc', rnd.choice(names + ['a*', 'l*']))
    if k < .8 or depth > 0: return ('abs', [rnd.choice(names + ['*']) for _ in range(rnd.randint(1, 2))], gen_pred(rnd, names, 1) if rnd.random() < .5 and depth == 0 else None)
    if k < .9: return ('not', gen_pred(rnd, names, 1))
    return ('and' if rnd.random() < .5 else 'or', gen_pred(rnd, names, 1), gen_pred(rnd, names, 1))

def render_pred(p):
    if p[0] == 'cmp': return '"${LEVEL}" %s "%s"' % (p[1], p[2])
    if p[0] == 'cmpf': return '"${FLAVOR:-n}" %s "%s"' % (p[1], p[2])
    if p[0] == 'rel': return p[1]
    if p[0] == 'reldesc': return './/' + p[1]
    if p[0] == 'abs': return '/root/' + '/'.join(p[1]) + ('[%s]' % render_pred(p[2]) if p[2] else '')
    if p[0] == 'not': return '!(%s)' % render_pred(p[1])
    return '(%s) %s (%s)' % (render_pred(p[1]), '&&' if p[0] == 'and' else '||', render_pred(p[2]))

def gen_query(rnd, names):
    steps = []
    for i in range(rnd.randint(1, 4)):
        axis = rnd.choice(['/', '/', '//'])
        test = rnd.choice(names + ['*', 'a*', '*1', 'l*'])
        pred = gen_pred(rnd, names) if rnd.random() < .3 else None
        steps.append((axis == '//', test, pred))
    return steps

def render_query(steps, rnd):
    q = ''.join(('//' if d else '/') + t + ('[%s]' % render_pred(p) if p else '') for d, t, p in steps)
    return q[1:] if q.startswith('/') and not q.startswith('//') and rnd.random() < .5 else q

def pred_holds(graph, root, n, p):
    if p[0] == 'cmp':
        v = graph[n].get('env', {}).get('LEVEL', '')
        return (v == p[2]) == (p[1] == '==')
    if p[0] == 'cmpf':
        v = graph[n].get('env', {}).get('FLAVOR', 'n')
        return (v == p[2]) == (p[1] == '==')
    if p[0] == 'rel': return any(fnmatch.fnmatchcase(name, p[1]) for name in graph[n]['children'])
    if p[0] == 'reldesc':
        # some package below n (any depth) is called like the pattern
        todo = [n]; seen = {n}
        while todo:
            x = todo.pop()
            for name, (c, direct) in graph[x]['children'].items():
                if fnmatch.fnmatchcase(name, p[1]): return True
                if c not in seen: seen.add(c); todo.append(c)
        return False
    if p[0] == 'abs':
        steps = [(False, 'root', None)] + [(False, t, None) for t in p[1][:-1]] + [(False, p[1][-1], p[2])]
        return bool(expected(graph, root, steps))
    if p[0] == 'not': return not pred_holds(graph, root, n, p[1])
    a, b = pred_holds(graph, root, n, p[1]), pred_holds(graph, root, n, p[2])
    return (a and b) if p[0] == 'and' else (a or b)

def expected(graph, root, toks):
    """declarative meaning: evaluate the steps over all paths from the root; returns the set of (node, path of names)"""
    cur = {(root, ())}           # (node, path of names)
    for desc, pat, pred in toks:
        nxt = set()
        starts = set(cur)
        if desc:
            todo = list(cur); seen = set(cur)
            while todo:
                n, path = todo.pop()
                for name, (c, direct) in graph[n]['children'].items():
                    e = (c, path + (name,))
                    if e not in seen: seen.add(e); todo.append(e)
            starts = seen
        for n, path in starts:
            for name, (c, direct) in graph[n]['children'].items():
                if fnmatch.fnmatchcase(name, pat) and (pred is None or pred_holds(graph, root, c, pred)): nxt.add((c, path + (name,)))
        cur = nxt
    return cur

known = []

def reference_trail(graph, root, toks):
    """the documented trail: nodes visited while evaluating the steps, trimmed after every step to the nodes from which
    the current context nodes are reachable (independent re-computation, used only to tell the known weakness F-C18b
    - a reported path that stays inside the trail - from a path that leaves the trail)"""
    parents = {}
    for n, v in graph.items():
        for name, (c, d) in v['children'].items(): parents.setdefault(c, set()).add(n)
    nodes = {root}; valid = {root}
    for desc, pat, pred in toks:
        old = nodes
        if desc:
            reach = set(); todo = list(old)
            while todo:
                n = todo.pop()
                for name, (c, d) in graph[n]['children'].items():
                    if c not in reach: reach.add(c); todo.append(c)
            starts = old | reach
        else: starts = old
        new = set()
        for n in starts:
            for name, (c, d) in graph[n]['children'].items():
                if fnmatch.fnmatchcase(name, pat) and (pred is None or pred_holds(graph, root, c, pred)): new.add(c)
        if desc:
            # nodes between old and new: descendants-or-self of old that are ancestors of new
            anc = set(); todo = list(new)
            while todo:
                n = todo.pop()
                for p_ in parents.get(n, ()):
                    if p_ not in anc: anc.add(p_); todo.append(p_)
            valid |= (starts & anc)
        valid |= new
        keep = set(); todo = list(new)
        while todo:
            n = todo.pop()
            if n not in valid or n in keep: continue
            keep.add(n); todo.extend(parents.get(n, ()))
        valid &= keep; nodes = new
    return valid

def one_case(seed):
    rnd = random.Random(seed)
    p = P.Project(prefix='c18-')
    try:
        model = gen_graph(rnd); p.write(model)
        names = [n for n in model['recipes'] if n != 'root']
        parsed = {}
        for _ in range(24):
            st_ = gen_query(rnd, names); parsed[render_query(st_, rnd)] = st_
        parsed['//a*'] = [(True, 'a*', None)]; parsed['//*'] = [(True, '*', None)]
        # grammar-coverage templates: absolute path inside a predicate that ends in wildcard+predicate (and its negation);
        # a descendant step followed by two child steps along real chains of the graph
        for lv in ('1', '2'):
            pr = ('abs', ['*'], ('cmp', '==', lv))
            for st_ in ([(True, '*', pr)], [(True, '*', ('not', pr))]): parsed[render_query(st_, rnd)] = st_
        deps = {k: [d if isinstance(d, str) else d['name'] for d in v.get('depends', [])] for k, v in model['recipes'].items()}
        chains = [(x, y, z) for x in deps for y in deps[x] for z in deps.get(y, [])]
        for x, y, z in rnd.sample(chains, min(4, len(chains))):
            st_ = [(True, x[0] + '*', None), (False, y, None), (False, z, None)]; parsed[render_query(st_, rnd)] = st_
        # the direct-* axes: only direct dependencies count, at any depth (direct-descendant) or one level (direct-child)
        tops = [d if isinstance(d, str) else d['name'] for d in model['recipes']['root'].get('depends', [])]
        for _ in range(4):
            x = rnd.choice(tops); axis = rnd.choice(['direct-descendant', 'direct-child', 'direct-descendant-or-self']); pat = rnd.choice(['*', 'l*', 'a*', 'q', 'p', 'lib'])
            parsed['root/%s/%s@%s' % (x, axis, pat)] = ('direct', x, axis, pat)
        queries = sorted(parsed)
        qf = os.path.join(p.dir, 'queries.json'); json.dump(queries, open(qf, 'w'))
        r = subprocess.run([P.PY, '-c', WORKER, qf], cwd=p.dir, capture_output=True, text=True, env=p.env, timeout=120)
        if r.returncode != 0: return None, ['harness problem: ' + r.stderr[-300:]]
        out = json.loads(r.stdout)
        graph = {k: {'name': v['name'], 'env': v.get('env', {}), 'children': {n: (str(c[0]), c[1]) for n, c in v['children'].items()}} for k, v in out['graph'].items()}
        for q in queries:
            res = out['results'][q]
            if isinstance(parsed[q], tuple) and parsed[q][0] == 'direct':
                _, x, axis, pat = parsed[q]
                rootpkg = graph[out['root']]['children'].get('root')
                start = graph[rootpkg[0]]['children'].get(x) if rootpkg else None
                want = set()
                if start is not None:
                    s0 = start[0]; todo = [s0]; seen = {s0}
                    if axis == 'direct-descendant-or-self' and fnmatch.fnmatchcase(x, pat): want.add(s0)
                    while todo:
                        n_ = todo.pop()
                        for name, (c, direct) in graph[n_]['children'].items():
                            if not direct: continue
                            if fnmatch.fnmatchcase(name, pat): want.add(c)
                            if axis != 'direct-child' and c not in seen: seen.add(c); todo.append(c)
                got = {n_ for n_, _ in res['packages']} if res['ok'] else set()
                if got != want:
                    return {'kind': 'result-set-differs-from-declarative-meaning', 'query': q, 'returned': sorted(pth for _, pth in res['packages']) if res['ok'] else res.get('error'),
                            'expected_count': len(want), 'deps': {k: v.get('depends') for k, v in model['recipes'].items()}}, [q]
                continue
            exp = expected(graph, out['root'], parsed[q])
            exp_nodes = {n for n, _ in exp}; exp_paths = {'/'.join(path) for _, path in exp}
            if not res['ok']:
                if exp_nodes: return {'kind': 'query-fails-although-packages-match', 'query': q, 'error': res['error'], 'expected': sorted(exp_paths)[:6], 'recipes': model['recipes']}, [q]
                continue
            got_nodes = {n for n, _ in res['packages']}
            if got_nodes != exp_nodes:
                return {'kind': 'result-set-differs-from-declarative-meaning', 'query': q, 'returned': sorted(pth for _, pth in res['packages']),
                        'expected_any_path_of': sorted(exp_paths)[:10], 'deps': {k: v.get('depends') for k, v in model['recipes'].items()}}, [q]
            trail = reference_trail(graph, out['root'], parsed[q])
            def inside_trail(pth):
                n = out['root']
                for name in pth.split('/'):
                    ch = graph[n]['children'].get(name)
                    if ch is None or ch[0] not in trail: return False
                    n = ch[0]
                return True
            for pth, nm in res['tree']:
                if pth not in exp_paths:
                    # known weakness (F-C18b): the trail is a set of NODES; a result that is also reachable over an edge between two
                    # trail nodes that is not part of any matching route is reported over that shortcut
                    kind = 'reported-path-uses-shortcut-edge-between-trail-nodes' if inside_trail(pth) else 'reported-path-does-not-pass-through-the-query-steps'
                    w = {'kind': kind, 'query': q, 'reported': pth, 'admissible': sorted(exp_paths)[:10], 'deps': {k: v.get('depends') for k, v in model['recipes'].items()}}
                    if kind.startswith('reported-path-uses-shortcut'): known.append(w); continue
                    return w, [q]
            # alternate paths (queryAll): every one must be a real path of the graph that ends in a result
            for pth, nm in res['treeall']:
                n = out['root']; ok = True
                for name in pth.split('/') if pth else []:
                    ch = graph[n]['children'].get(name)
                    if ch is None: ok = False; break
                    n = ch[0]
                if not ok or n not in exp_nodes:
                    return {'kind': 'alternate-path-is-not-a-real-path-to-a-result', 'query': q, 'reported': pth}, [q]
        return None, queries
    except Exception as ex:
        return None, ['harness problem: %r' % (ex,)]
    finally:
        p.cleanup()

def replay(rep):
    import concurrent.futures as cf
    seed = int(os.environ.get('VERIF_SEED', '0') or 0)
    n = 300 if os.environ.get('VERIF_TIER') == 'thorough' else 100
    tried = 0; distinct = set(); samples = []; problems = 0
    with cf.ThreadPoolExecutor(max_workers=16) as ex:
        for w, log in ex.map(one_case, [seed * 1000 + i for i in range(n)]):
            tried += 1
            if log and str(log[-1]).startswith('harness problem'): problems += 1; continue
            for q in log: distinct.add((tried, q))
            if len(samples) < 3: samples.append({'queries': log[:5]})
            if w is not None: return {'reproduced': True, 'tried': tried, 'witness': w}
    if problems > tried // 2: return {'reproduced': None, 'detail': 'harness problems in %d of %d cases' % (problems, tried)}
    if known: return {'reproduced': True, 'tried': tried, 'distinct': len(distinct), 'samples': samples, 'witness': known[0]}
    return {'reproduced': False, 'tried': tried, 'distinct': len(distinct), 'samples': samples,
            'bound': '%d generated DAGs (3-6 recipes, shared nodes, indirect deps) x ~25 queries of <= 4 steps (child/descendant axes, wildcards, predicates: string comparison, relative/absolute paths, !, &&, ||)' % n,
            'detail': 'returned package sets equal the step-by-step meaning; every reported path passes through the query steps'}
