# Native bounded search for C14: generated projects and edit histories are built with the real `bob dev`; after every
# invocation the audit trail of every workspace of the current package graph must (a) exist, (b) carry the variant-id
# of the step that lives there now, the real recipe/package/step names and the user's -M variables, (c) record the
# actual content hash of the workspace, (d) reference, transitively and completely, the trails of the arguments.
import os, sys, json, random, time, concurrent.futures as cf
from replay import projlib as P

HASHDIR = [None]

def check_audits(p, q, metas, when):
    paths = p.paths()
    hashDirectory = HASHDIR[0]
    vid_of = {}
    for key, rec in q.items():
        for label, s in rec['steps'].items(): vid_of.setdefault((rec['package'], label), set()).add(s['vid'])
    for key, rec in q.items():
        name = rec['package']
        for label, s in rec['steps'].items():
            ws = paths.get(key, {}).get(label)
            if not ws: continue
            a = p.audit(ws)
            if a is None: return {'kind': 'audit-missing', 'when': when, 'workspace': ws}
            art = a['artifact']
            if art['variant-id'] != s['vid']:
                return {'kind': 'audit-variant-id', 'when': when, 'workspace': ws, 'audit': art['variant-id'], 'step': s['vid']}
            m = art['meta']
            # the recorded package is the full path of one of the packages that live in this workspace
            # (a step that was not re-executed keeps the package path under which it was built; only the package's
            #  own name is compared, the path above it may have changed through recipe edits)
            same_ws = {k2 for k2 in q if paths.get(k2, {}).get(label) == ws}
            if (m.get('recipe'), m.get('step')) != (rec['recipe'], label) or (m.get('package') or '').split('/')[-1] != rec['package'].split('/')[-1]:
                return {'kind': 'audit-names', 'when': when, 'workspace': ws, 'audit_meta': m, 'expected': [rec['recipe'], sorted(same_ws), label]}
            for k, v in metas.items():
                if k not in ('recipe', 'package', 'step', 'bob', 'language') and m.get(k) != v:
                    return {'kind': 'audit-meta-var', 'when': when, 'workspace': ws, 'key': k, 'audit': m.get(k), 'expected': v}
            full = os.path.join(p.dir, ws)
            if os.path.isdir(full) and art['result-hash'] != hashDirectory(full).hex():
                return {'kind': 'audit-result-hash', 'when': when, 'workspace': ws}
            # transitive completeness + truthfulness of the referenced argument records
            refs = {r['artifact-id']: r for r in a['references']}
            todo = list(art['dependencies'].get('args', [])); seen = set()
            while todo:
                i = todo.pop()
                if i in seen: continue
                seen.add(i)
                if i not in refs: return {'kind': 'audit-incomplete', 'when': when, 'workspace': ws, 'missing': i}
                r = refs[i]; key = (r['meta'].get('package', '').split('/')[-1], r['meta'].get('step'))
                if key in vid_of and r['variant-id'] not in vid_of[key]:
                    return {'kind': 'audit-stale-reference', 'when': when, 'workspace': ws, 'referenced': list(key), 'record': r['variant-id'], 'step': sorted(vid_of[key])}
                todo.extend(r['dependencies'].get('args', []))
            if len(art['dependencies'].get('args', [])) != len(s['args']):
                return {'kind': 'audit-args', 'when': when, 'workspace': ws, 'audit_args': len(art['dependencies'].get('args', [])), 'step_args': len(s['args'])}
    return None

def one_history(seed, steps):
    rnd = random.Random(seed)
    p = P.Project(prefix='c14-')
    try:
        model = P.gen_model(rnd); hist = [model]; log = []
        metas = {}
        if rnd.random() < .7:
            for k in rnd.sample(['origin', 'step', 'package', 'recipe', 'ticket', 'language'], rnd.randint(1, 3)): metas[k] = 'user-%s' % k
        margs = []
        for k, v in metas.items(): margs += ['-M', '%s=%s' % (k, v)]
        for i in range(steps + 1):
            p.write(model)
            rc, out = p.bob('dev', 'r0', *margs)
            if rc != 0: return None, log          # generated project does not build: not a case
            w = check_audits(p, p.query(), metas, 'build #%d' % i)
            if w is not None:
                w['history'] = log; w['meta_args'] = margs; return w, log
            model, d = P.apply_edit(rnd, model, hist); hist.append(model); log.append(d)
        return None, log
    except Exception as ex:
        return None, ['harness problem: %r' % (ex,)]
    finally:
        p.cleanup()

def replay(rep):
    seed = int(os.environ.get('VERIF_SEED', '0') or 0)
    thorough = os.environ.get('VERIF_TIER') == 'thorough'
    n = 48 if thorough else 16
    from bob.utils import hashDirectory      # imported in the main thread (installs signal handlers)
    HASHDIR[0] = hashDirectory
    tried = 0; distinct = set(); samples = []; problems = 0
    with cf.ThreadPoolExecutor(max_workers=8) as ex:
        futs = [ex.submit(one_history, seed * 1000 + i, 3 if not thorough else 5) for i in range(n)]
        for f in cf.as_completed(futs):
            w, log = f.result(); tried += 1
            if log and str(log[-1]).startswith('harness problem'): problems += 1; continue
            distinct.add(tuple(log))
            if len(samples) < 3: samples.append({'edit_history': log})
            if w is not None:
                for g in futs: g.cancel()
                return {'reproduced': True, 'tried': tried, 'witness': w}
    if problems > tried // 2: return {'reproduced': None, 'detail': 'replay harness problems in %d of %d cases' % (problems, tried)}
    return {'reproduced': False, 'tried': tried, 'distinct': len(distinct), 'samples': samples,
            'bound': '%d generated projects (2-4 recipes) x edit histories of %d steps, optional -M variables incl. reserved names' % (n, 3 if not thorough else 5),
            'detail': 'every audit trail matched the steps, names, -M variables, workspace hashes and argument closure'}
