# Native bounded search for C14: generated projects and edit histories are built with the real `bob dev`; after every
# invocation the audit trail of every workspace of the current package graph must (a) exist, (b) carry the variant-id
# of the step that lives there now, the real recipe/package/step names and the user's -M variables, (c) record the
# actual content hash of the workspace, (d) reference, transitively and completely, the trails of the arguments.
import gzip, json, os, sys, json, random, time, concurrent.futures as cf
from replay import projlib as P

HASHDIR = [None]

def check_audits(p, q, metas, when):
    paths = p.paths()
    hashDirectory = HASHDIR[0]
    vid_of = {}
    for key, rec in q.items():
        for label, s in rec['steps'].items(): vid_of.setdefault((rec['package'], label), set()).add(s['vid'])
    for key, rec in q.items():
        name = rec['package']
        for label, s in rec['steps'].items():
            ws = paths.get(key, {}).get(label)
            if not ws: continue
            a = p.audit(ws)
            if a is None: return {'kind': 'audit-missing', 'when': when, 'workspace': ws}
            art = a['artifact']
            if art['variant-id'] != s['vid']:
                return {'kind': 'audit-variant-id', 'when': when, 'workspace': ws, 'audit': art['variant-id'], 'step': s['vid']}
            m = art['meta']
            # the recorded package is the full path of one of the packages that live in this workspace
            # (a step that was not re-executed keeps the package path under which it was built; only the package's
            #  own name is compared, the path above it may have changed through recipe edits)
            same_ws = {k2 for k2 in q if paths.get(k2, {}).get(label) == ws}
            if (m.get('recipe'), m.get('step')) != (rec['recipe'], label) or (m.get('package') or '').split('/')[-1] != rec['package'].split('/')[-1]:
                return {'kind': 'audit-names', 'when': when, 'workspace': ws, 'audit_meta': m, 'expected': [rec['recipe'], sorted(same_ws), label]}
            for k, v in metas.items():
                if k not in ('recipe', 'package', 'step', 'bob', 'language') and m.get(k) != v:
                    return {'kind': 'audit-meta-var', 'when': when, 'workspace': ws, 'key': k, 'audit': m.get(k), 'expected': v}
            full = os.path.join(p.dir, ws)
            if os.path.isdir(full) and art['result-hash'] != hashDirectory(full).hex():
                return {'kind': 'audit-result-hash', 'when': when, 'workspace': ws}
            # transitive completeness + truthfulness of the referenced argument records
            refs = {r['artifact-id']: r for r in a['references']}
            todo = list(art['dependencies'].get('args', [])); seen = set()
            while todo:
                i = todo.pop()
                if i in seen: continue
                seen.add(i)
                if i not in refs: return {'kind': 'audit-incomplete', 'when': when, 'workspace': ws, 'missing': i}
                r = refs[i]; key = (r['meta'].get('package', '').split('/')[-1], r['meta'].get('step'))
                if key in vid_of and r['variant-id'] not in vid_of[key]:
                    return {'kind': 'audit-stale-reference', 'when': when, 'workspace': ws, 'referenced': list(key), 'record': r['variant-id'], 'step': sorted(vid_of[key])}
                todo.extend(r['dependencies'].get('args', []))
            if len(art['dependencies'].get('args', [])) != len(s['args']):
                return {'kind': 'audit-args', 'when': when, 'workspace': ws, 'audit_args': len(art['dependencies'].get('args', [])), 'step_args': len(s['args'])}
    return None

def record_digest(rec):
    """independent re-implementation of the documented artifact id: SHA-1 over the record without its id (maps sorted by key)"""
    import hashlib, struct
    h = hashlib.sha1()
    def dig(d):
        if isinstance(d, str): h.update(struct.pack('<BI', 2, len(d))); h.update(d.encode('utf8'))
        elif isinstance(d, dict):
            h.update(struct.pack('<BI', 1, len(d)))
            for k in sorted(d): dig(k); dig(d[k])
        elif isinstance(d, list):
            h.update(struct.pack('<BI', 3, len(d)))
            for i in d: dig(i)
        elif isinstance(d, int): h.update(struct.pack('<Bq', 4, d))       # (bool is an int for the real implementation too)
        elif d is None: h.update(struct.pack('<B', 7))
        else: raise ValueError(type(d))
    dig({k: v for k, v in rec.items() if k != 'artifact-id'})
    return h.hexdigest()

def check_ids(p, when):
    """artifact ids are a function of the record content only: every record of every trail (own and referenced) carries the
    digest of its content, and a referenced record is the record of the dependency itself"""
    by_id = {}
    for dp, ds, fs in os.walk(p.dir):
        if 'audit.json.gz' not in fs: continue
        f = os.path.join(dp, 'audit.json.gz')
        with gzip.open(f, 'rb') as g: a = json.load(g)
        for r in [a['artifact']] + list(a.get('references', [])):
            if record_digest(r) != r['artifact-id']:
                return {'kind': 'artifact-id-is-not-the-digest-of-the-record', 'when': when, 'trail': os.path.relpath(f, p.dir), 'record_of': r.get('meta', {}).get('package'), 'keys': sorted(r)}
            prev = by_id.setdefault(r['artifact-id'], r)
            if prev != r: return {'kind': 'same-artifact-id-different-records', 'when': when, 'trail': os.path.relpath(f, p.dir)}
    return None

def check_closure(p, when):
    """every trail contains the records of all transitively used arguments, tools and sandbox"""
    for dp, ds, fs in os.walk(p.dir):
        if 'audit.json.gz' not in fs: continue
        f = os.path.join(dp, 'audit.json.gz')
        with gzip.open(f, 'rb') as g: a = json.load(g)
        refs = {r['artifact-id']: r for r in a.get('references', [])}
        def deps(r):
            d = r.get('dependencies', {}); out = list(d.get('args', [])) + list(d.get('tools', {}).values())
            if d.get('sandbox'): out.append(d['sandbox'])
            return out
        todo = deps(a['artifact']); seen = set()
        while todo:
            i = todo.pop()
            if i in seen: continue
            seen.add(i)
            if i not in refs: return {'kind': 'audit-incomplete', 'when': when, 'trail': os.path.relpath(f, p.dir), 'missing': i}
            todo.extend(deps(refs[i]))
    return None

def identical_checkouts():
    """two packages whose checkouts are byte-identical (equal Build-Ids of their checkout steps): both records belong into the trail"""
    import shutil, tempfile
    base = tempfile.mkdtemp(prefix='c14i-')
    try:
        lib = lambda: {'checkoutDeterministic': True, 'checkoutScript': 'echo same > f.txt\n', 'buildScript': 'cp "$1"/f.txt out.txt\n', 'packageScript': 'cp "$1"/out.txt result.txt\n'}
        R = {'r0': {'root': True, 'depends': ['liba', 'libb'], 'buildScript': 'cat "$2"/result.txt "$3"/result.txt > out.txt\n', 'packageScript': 'cp "$1"/out.txt result.txt\n'}, 'liba': lib(), 'libb': lib()}
        p = P.Project(root=os.path.join(base, 'proj')); p.write({'recipes': R, 'config': {}})
        rc, out = p.bob('dev', 'r0')
        if rc != 0: return None, ['harness problem: project does not build: %s' % out[-200:]]
        w = check_closure(p, 'two packages with identical checkouts') or check_ids(p, 'two packages with identical checkouts')
        if w: return w, ['identical checkouts']
        return None, ['identical checkouts']
    except Exception as ex:
        return None, ['harness problem: %r' % (ex,)]
    finally:
        shutil.rmtree(base, ignore_errors=True)

def download_history():
    """trails that were parsed from JSON (downloaded artifacts) and then referenced by locally built steps"""
    import shutil, tempfile
    base = tempfile.mkdtemp(prefix='c14d-'); log = []
    try:
        arch = os.path.join(base, 'archive'); os.makedirs(arch)
        model = {'recipes': {'r0': {'root': True, 'depends': ['lib', 'meta'], 'buildScript': 'cat "$2"/result.txt > out.txt\n', 'packageScript': 'cp "$1"/out.txt result.txt\n'},
                             'lib': {'buildScript': 'echo lib > out.txt\n', 'packageScript': 'cp "$1"/out.txt result.txt\n'},
                             'meta': {'metaEnvironment': {'LICENSE': 'MIT'}, 'buildScript': 'echo m > out.txt\n', 'packageScript': 'cp "$1"/out.txt result.txt\n'}},
                 'config': {}, 'files': {'default.yaml': 'archive:\n  backend: file\n  path: "%s"\n' % arch}}
        p = P.Project(root=os.path.join(base, 'proj')); p.write(model)
        rc, out = p.bob('dev', 'r0', '--upload'); log.append('build and upload')
        if rc != 0: return None, ['harness problem: project does not build: %s' % out[-200:]]
        w = check_ids(p, 'after the local build')
        if w: w['history'] = log; return w, log
        shutil.rmtree(os.path.join(p.dir, 'dev'), ignore_errors=True)
        for f in os.listdir(p.dir):
            if f.startswith('.bob-'): os.unlink(os.path.join(p.dir, f)) if os.path.isfile(os.path.join(p.dir, f)) else shutil.rmtree(os.path.join(p.dir, f), ignore_errors=True)
        log.append('workspaces and state removed')
        rc, out = p.bob('dev', 'r0', '--download=deps'); log.append('rebuild with --download=deps')
        if rc != 0: return None, ['harness problem: rebuild failed: %s' % out[-200:]]
        w = check_ids(p, 'after the rebuild over downloaded dependencies')
        if w: w['history'] = log; return w, log
        return None, log
    except Exception as ex:
        return None, ['harness problem: %r' % (ex,)]
    finally:
        shutil.rmtree(base, ignore_errors=True)

def one_history(seed, steps):
    rnd = random.Random(seed)
    p = P.Project(prefix='c14-')
    try:
        model = P.gen_model(rnd); hist = [model]; log = []
        metas = {}
        if rnd.random() < .7:
            for k in rnd.sample(['origin', 'step', 'package', 'recipe', 'ticket', 'language'], rnd.randint(1, 3)): metas[k] = 'user-%s' % k
        margs = []
        for k, v in metas.items(): margs += ['-M', '%s=%s' % (k, v)]
        for i in range(steps + 1):
            p.write(model)
            rc, out = p.bob('dev', 'r0', *margs)
            if rc != 0: return None, log          # generated project does not build: not a case
            w = check_audits(p, p.query(), metas, 'build #%d' % i) or check_ids(p, 'build #%d' % i) or check_closure(p, 'build #%d' % i)
            if w is not None:
                w['history'] = log; w['meta_args'] = margs; return w, log
            model, d = P.apply_edit(rnd, model, hist); hist.append(model); log.append(d)
        return None, log
    except Exception as ex:
        return None, ['harness problem: %r' % (ex,)]
    finally:
        p.cleanup()

def replay(rep):
    seed = int(os.environ.get('VERIF_SEED', '0') or 0)
    thorough = os.environ.get('VERIF_TIER') == 'thorough'
    n = 48 if thorough else 16
    from bob.utils import hashDirectory      # imported in the main thread (installs signal handlers)
    HASHDIR[0] = hashDirectory
    tried = 0; distinct = set(); samples = []; problems = 0
    with cf.ThreadPoolExecutor(max_workers=8) as ex:
        futs = [ex.submit(download_history), ex.submit(identical_checkouts)] + [ex.submit(one_history, seed * 1000 + i, 3 if not thorough else 5) for i in range(n)]
        for f in cf.as_completed(futs):
            w, log = f.result(); tried += 1
            if log and str(log[-1]).startswith('harness problem'): problems += 1; continue
            distinct.add(tuple(log))
            if len(samples) < 3: samples.append({'edit_history': log})
            if w is not None:
                for g in futs: g.cancel()
                return {'reproduced': True, 'tried': tried, 'witness': w}
    if problems > tried // 2: return {'reproduced': None, 'detail': 'replay harness problems in %d of %d cases' % (problems, tried)}
    return {'reproduced': False, 'tried': tried, 'distinct': len(distinct), 'samples': samples,
            'bound': 'upload / wipe / rebuild-over-downloaded-dependencies history + %d generated projects (2-4 recipes) x edit histories of %d steps, optional -M variables incl. reserved names; every record id recomputed independently' % (n, 3 if not thorough else 5),
            'detail': 'every audit trail matched the steps, names, -M variables, workspace hashes and argument closure'}
