# Shared native driver for the whole-builder properties (C01, C05, C16): generated projects + edit histories, real `bob dev`.
import os, sys, json, random, re, shutil, tempfile, subprocess
from replay import projlib as P

STEP_RE = re.compile(r'^\s*(CHECKOUT|BUILD|PACKAGE)\s+(\S+)(.*)$')

def executed_steps(out):
    """step lines of a bob run that were really executed (not skipped)"""
    ex = []
    for l in out.split('\n'):
        m = STEP_RE.match(l)
        if m and m.group(2) != 'skipped' and 'skipped' not in m.group(3): ex.append((m.group(1), m.group(2)))
    return ex

def dist_contents(p, q):
    """package name -> content digest of its dist workspace (as bob reports the path)"""
    # release mode (bob build: work/...) or develop mode (bob dev: dev/...): as stated by the caller, else by what the project holds
    release = (q == 'release') or (q is None and os.path.isdir(os.path.join(p.dir, 'work')) and not os.path.isdir(os.path.join(p.dir, 'dev')))
    rc, out = p.bob('query-path', '-f', '{name}|{dist}', *(['--release'] if release else ['--develop']), '//*')
    res = {}
    for l in out.split('\n'):
        parts = l.strip().split('|')
        if len(parts) == 2 and parts[1] and ' ' not in parts[0]: res[parts[0]] = P.tree_digest(os.path.join(p.dir, parts[1]))
    return res

def clean_build(model, mode='dev'):
    c = P.Project(prefix='clean-')
    try:
        c.write(model)
        rc, out = c.bob(mode, 'r0')
        if rc != 0: return None
        return dist_contents(c, None)
    finally:
        c.cleanup()

KILL_SITE = '''
import os
_n = int(os.environ.get('VERIF_KILL_AT_SAVE', '0') or 0)
if _n:
    import bob.state as _s
    _orig = _s._BobState._BobState__save
    _cnt = [0]
    def _save(self):
        _orig(self)
        if self._BobState__asynchronous == 0:
            _cnt[0] += 1
            if _cnt[0] == _n: os._exit(97)       # killed right after the n-th durable state update
    _s._BobState._BobState__save = _save
'''

def kill_env(p, n):
    """environment that makes the bob process die after its n-th state save (no repo change: sitecustomize shim)"""
    d = os.path.join(p.dir, '.verif-site'); os.makedirs(d, exist_ok=True)
    with open(os.path.join(d, 'sitecustomize.py'), 'w') as f: f.write(KILL_SITE)
    return {'PYTHONPATH': d + os.pathsep + p.env['PYTHONPATH'], 'VERIF_KILL_AT_SAVE': str(n)}
