# Native bounded search for C01: incremental build == clean build over generated edit histories; an immediately repeated
# build of an unchanged project executes nothing.
import os, random, concurrent.futures as cf
from replay import projlib as P, buildhist as H

def one_history(seed, steps, mode):
    rnd = random.Random(seed)
    p = P.Project(prefix='c01-')
    try:
        model = P.gen_model(rnd); hist = [model]; log = []
        for i in range(steps + 1):
            p.write(model)
            rc, out = p.bob(mode, 'r0')
            if rc != 0: return None, log + ['(project does not build)']
            inc = H.dist_contents(p, None)
            ref = H.clean_build(model, mode)
            if ref is None: return None, log
            for name, dig in ref.items():
                if inc.get(name) != dig:
                    return {'kind': 'incremental-differs-from-clean', 'package': name, 'mode': mode, 'history': log, 'after_build': i}, log
            rc2, out2 = p.bob(mode, 'r0')
            # import SCMs are re-run on every invocation by design (they pick up local edits): not a deterministic checkout
            ex = [e for e in H.executed_steps(out2) if not (e[0] == 'CHECKOUT' and '/tool/' in e[1])]
            if rc2 != 0 or ex:
                return {'kind': 'repeated-build-executes-steps', 'executed': ex[:6], 'mode': mode, 'history': log}, log
            model, d = P.apply_edit(rnd, model, hist); hist.append(model); log.append(d)
        return None, log
    except Exception as ex:
        return None, ['harness problem: %r' % (ex,)]
    finally:
        p.cleanup()


def directed_checkout_edits(mode):
    """edits that change only the checkout step of a package with a deterministic checkout (script text with a different
    effect, value of a checkoutVars variable, pinned git tag): the incremental build must equal a clean build"""
    import subprocess, tempfile, shutil, copy
    base = tempfile.mkdtemp(prefix='c01d-'); log = []
    env = {'GIT_CONFIG_NOSYSTEM': '1', 'GIT_AUTHOR_NAME': 'u', 'GIT_AUTHOR_EMAIL': 'u@example.com', 'GIT_COMMITTER_NAME': 'u', 'GIT_COMMITTER_EMAIL': 'u@example.com', 'HOME': base}
    def git(cwd, *a):
        e = dict(os.environ); e.update(env); subprocess.run(['git', *a], cwd=cwd, check=True, stdout=subprocess.DEVNULL, stderr=subprocess.DEVNULL, env=e)
    try:
        up = os.path.join(base, 'up'); os.makedirs(up); git(up, 'init', '-q', '-b', 'master')
        for i in (1, 2):
            with open(os.path.join(up, 'data.txt'), 'w') as f: f.write('tag-%d\n' % i)
            git(up, 'add', 'data.txt'); git(up, 'commit', '-q', '-m', 'c%d' % i); git(up, 'tag', 'v%d' % i)
        def model(script_val, var_val, tag):
            return {'recipes': {
                'r0': {'root': True, 'depends': ['lib', 'gl'], 'buildScript': 'cat "$2"/result.txt "$3"/result.txt > out.txt\n', 'packageScript': 'cp "$1"/out.txt result.txt\n'},
                'lib': {'checkoutDeterministic': True, 'environment': {'CV': var_val}, 'checkoutVars': ['CV'],
                        'checkoutScript': 'echo "%s ${CV}" > s.txt\n' % script_val, 'buildScript': 'cp "$1"/s.txt out.txt\n', 'packageScript': 'cp "$1"/out.txt result.txt\n'},
                'gl': {'checkoutSCM': {'scm': 'git', 'url': 'file://' + up, 'tag': tag}, 'buildScript': 'cp "$1"/data.txt out.txt\n', 'packageScript': 'cp "$1"/out.txt result.txt\n'}},
                'config': {}}
        p = P.Project(root=os.path.join(base, 'proj')); p.env.update(env)
        states = [('s1', 'c1', 'v1'), ('s2', 'c1', 'v1'), ('s2', 'c2', 'v1'), ('s2', 'c2', 'v2'), ('s1', 'c1', 'v1')]
        for i, st in enumerate(states):
            m = model(*st); p.write(m); log.append('script=%s var=%s tag=%s' % st)
            rc, out = p.bob(mode, 'r0')
            if rc != 0: return None, ['(project does not build: %s)' % out[-200:].replace('\n', ' ')]
            inc = H.dist_contents(p, None)
            c = P.Project(root=os.path.join(base, 'clean%d' % i)); c.env.update(env); c.write(m)
            rc2, out2 = c.bob(mode, 'r0')
            if rc2 != 0: return None, ['(clean build failed)']
            ref = H.dist_contents(c, None); c.cleanup()
            for name, dig in ref.items():
                if inc.get(name) != dig:
                    return {'kind': 'incremental-differs-from-clean', 'package': name, 'mode': mode, 'history': log, 'what': 'edit of a deterministic checkout (script / checkoutVars value / pinned tag)'}, log
        return None, log
    except Exception as ex:
        return None, ['harness problem: %r' % (ex,)]
    finally:
        shutil.rmtree(base, ignore_errors=True)

def directed_scm_set_edits(mode, kind='incremental-differs-from-clean'):
    """the SET of SCMs of one checkout changes: an SCM is removed, moved to another directory, switched off by `if`,
    added again.  The source workspace (and everything built from it) must equal a clean build of the final recipe."""
    import subprocess, tempfile, shutil
    base = tempfile.mkdtemp(prefix='c01s-'); log = []
    env = {'GIT_CONFIG_NOSYSTEM': '1', 'GIT_AUTHOR_NAME': 'u', 'GIT_AUTHOR_EMAIL': 'u@example.com', 'GIT_COMMITTER_NAME': 'u', 'GIT_COMMITTER_EMAIL': 'u@example.com', 'HOME': base}
    def git(cwd, *a):
        e = dict(os.environ); e.update(env); subprocess.run(['git', *a], cwd=cwd, check=True, stdout=subprocess.DEVNULL, stderr=subprocess.DEVNULL, env=e)
    try:
        up = os.path.join(base, 'up'); os.makedirs(up); git(up, 'init', '-q', '-b', 'master')
        with open(os.path.join(up, 'g.txt'), 'w') as f: f.write('git content\n')
        git(up, 'add', 'g.txt'); git(up, 'commit', '-q', '-m', 'c1')
        for d, fn in (('imp_core', 'main.c'), ('imp_extras', 'plugin.c')):
            os.makedirs(os.path.join(base, d)); open(os.path.join(base, d, fn), 'w').write('content of %s\n' % fn)
        def scm(which, dir_, cond=None):
            s_ = {'scm': 'import', 'url': os.path.join(base, 'imp_' + which), 'dir': dir_} if which != 'git' else {'scm': 'git', 'url': 'file://' + up, 'branch': 'master', 'dir': dir_}
            if cond is not None: s_['if'] = cond
            return s_
        def model(scms):
            return {'recipes': {'r0': {'root': True, 'checkoutSCM': scms,
                                       'buildScript': '(cd "$1" && find . -type f -not -path "*/.git/*" | sort | while read f; do echo "$f"; cat "$f"; done) > out.txt\n',
                                       'packageScript': 'cp "$1"/out.txt result.txt\n'}}, 'config': {}}
        states = [('core+extras+git', [scm('core', 'core'), scm('extras', 'extras'), scm('git', 'g')]),
                  ('extras removed', [scm('core', 'core'), scm('git', 'g')]),
                  ('extras back in another directory', [scm('core', 'core'), scm('extras', 'more'), scm('git', 'g')]),
                  ('extras switched off by if', [scm('core', 'core'), scm('extras', 'more', 'false'), scm('git', 'g')]),
                  ('git removed', [scm('core', 'core')]),
                  ('git and extras back', [scm('core', 'core'), scm('extras', 'extras'), scm('git', 'g')])]
        p = P.Project(root=os.path.join(base, 'proj')); p.env.update(env)
        for i, (what, scms) in enumerate(states):
            m = model(scms); p.write(m); log.append(what)
            rc, out = p.bob(mode, 'r0')
            if rc != 0:
                if i == 0: return None, ['(project does not build: %s)' % out[-200:].replace('\n', ' ')]
                return {'kind': 'build-fails-after-scm-set-change', 'mode': mode, 'history': log, 'output': out[-300:]}, log
            inc = H.dist_contents(p, None)
            c = P.Project(root=os.path.join(base, 'clean%d' % i)); c.env.update(env); c.write(m)
            rc2, out2 = c.bob(mode, 'r0')
            if rc2 != 0: return None, ['(clean build failed)']
            ref = H.dist_contents(c, None); c.cleanup()
            for name, dig in ref.items():
                if inc.get(name) != dig:
                    return {'kind': kind, 'package': name, 'mode': mode, 'history': log, 'what': 'the set of SCMs of a checkout changed (SCM removed / moved / switched off / added back): stale files stay in the source workspace'}, log
        return None, log
    except Exception as ex:
        return None, ['harness problem: %r' % (ex,)]
    finally:
        shutil.rmtree(base, ignore_errors=True)

def directed_url_switch(mode, kind='incremental-differs-from-clean'):
    """url SCM: the url changes (same file name / other file name, with and without digest); the extracted tree of the old
    archive must not shine through"""
    import subprocess, tempfile, shutil, tarfile, hashlib
    base = tempfile.mkdtemp(prefix='c01u-'); log = []
    try:
        def mk(ver, files):
            d = os.path.join(base, 'dl', ver); os.makedirs(d); t = os.path.join(d, 'pkg.tar')
            src = os.path.join(base, 'stage', ver, 'pkg'); os.makedirs(src)
            for n, c in files.items(): open(os.path.join(src, n), 'w').write(c)
            with tarfile.open(t, 'w') as tf: tf.add(src, arcname='pkg')
            os.utime(t, (1000000000, 1000000000))
            return 'file://' + t, hashlib.sha1(open(t, 'rb').read()).hexdigest()
        u1, d1 = mk('v1.0', {'main.c': 'v1.0 main\n', 'obsolete.c': 'only in v1.0\n'})
        u2, d2 = mk('v1.1', {'main.c': 'v1.1 main\n', 'new.c': 'only in v1.1\n'})
        def model(url, digest):
            scm = {'scm': 'url', 'url': url}
            if digest: scm['digestSHA1'] = digest
            return {'recipes': {'r0': {'root': True, 'checkoutSCM': scm,
                                       'buildScript': '(cd "$1" && find . -type f -not -name "*.tar" -not -path "./.*" | sort | while read f; do echo "$f"; cat "$f"; done) > out.txt\n',
                                       'packageScript': 'cp "$1"/out.txt result.txt\n'}}, 'config': {}}
        states = [('url v1.0, no digest', model(u1, None)), ('url v1.1 (same file name), no digest', model(u2, None)), ('url v1.0 with digest', model(u1, d1)),
                  ('url v1.1 with digest', model(u2, d2)), ('url v1.0, no digest', model(u1, None))]
        p = P.Project(root=os.path.join(base, 'proj'))
        for i, (what, m) in enumerate(states):
            p.write(m); log.append(what)
            rc, out = p.bob(mode, 'r0')
            if rc != 0:
                if i == 0: return None, ['(project does not build: %s)' % out[-200:].replace('\n', ' ')]
                return {'kind': 'build-fails-after-url-change', 'mode': mode, 'history': log, 'output': out[-300:]}, log
            inc = H.dist_contents(p, None)
            c = P.Project(root=os.path.join(base, 'clean%d' % i)); c.write(m)
            rc2, out2 = c.bob(mode, 'r0')
            if rc2 != 0: return None, ['(clean build failed)']
            ref = H.dist_contents(c, None); c.cleanup()
            for name, dig in ref.items():
                if inc.get(name) != dig:
                    return {'kind': kind, 'package': name, 'mode': mode, 'history': log, 'what': 'the url of a url SCM changed: files of the old archive stay in the source workspace / new ones are missing'}, log
        return None, log
    except Exception as ex:
        return None, ['harness problem: %r' % (ex,)]
    finally:
        shutil.rmtree(base, ignore_errors=True)

def directed_repeat(mode):
    """recipes of every step shape (package only / build+package / deterministic checkout+package / all three / no steps
    at all but dependencies): an immediately repeated build of the unchanged project executes nothing"""
    p = P.Project(prefix='c01r-'); log = []
    try:
        R = {'r0': {'root': True, 'depends': ['ponly', 'bp', 'cp', 'cbp', 'grp'], 'buildScript': 'cat "$2"/result.txt "$3"/result.txt "$4"/result.txt "$5"/result.txt > out.txt\n', 'packageScript': 'cp "$1"/out.txt result.txt\n'},
             'ponly': {'packageScript': 'echo ponly > result.txt\n'},
             'bp': {'buildScript': 'echo bp > out.txt\n', 'packageScript': 'cp "$1"/out.txt result.txt\n'},
             'cp': {'checkoutDeterministic': True, 'checkoutScript': 'echo cp > s.txt\n', 'packageScript': 'echo cp > result.txt\n'},
             'cbp': {'checkoutDeterministic': True, 'checkoutScript': 'echo cbp > s.txt\n', 'buildScript': 'cp "$1"/s.txt out.txt\n', 'packageScript': 'cp "$1"/out.txt result.txt\n'},
             'grp': {'depends': ['ponly', 'bp']}}
        p.write({'recipes': R, 'config': {}})
        for extra in ([], ['-j', '3']):
            rc, out = p.bob(mode, 'r0', *extra); log.append('bob %s r0 %s' % (mode, ' '.join(extra)))
            if rc != 0: return None, ['(project does not build: %s)' % out[-200:].replace('\n', ' ')]
            for rep_ in (1, 2):
                rc2, out2 = p.bob(mode, 'r0', *extra); log.append('again')
                ex = H.executed_steps(out2)
                if rc2 != 0 or ex:
                    return {'kind': 'repeated-build-executes-steps', 'executed': ex[:6], 'mode': mode, 'history': log, 'what': 'recipes with fewer than three steps (package only, no checkout, ...)'}, log
        return None, log
    except Exception as ex:
        return None, ['harness problem: %r' % (ex,)]
    finally:
        p.cleanup()

def replay(rep):
    seed = int(os.environ.get('VERIF_SEED', '0') or 0)
    thorough = os.environ.get('VERIF_TIER') == 'thorough'
    n = 40 if thorough else 12; steps = 5 if thorough else 3
    tried = 0; distinct = set(); samples = []; problems = 0
    with cf.ThreadPoolExecutor(max_workers=8) as ex:
        futs = [ex.submit(directed_checkout_edits, 'dev'), ex.submit(directed_checkout_edits, 'build'), ex.submit(directed_scm_set_edits, 'dev'), ex.submit(directed_scm_set_edits, 'build'), ex.submit(directed_url_switch, 'dev'), ex.submit(directed_repeat, 'dev'), ex.submit(directed_repeat, 'build')] + [ex.submit(one_history, seed * 1000 + i, steps, 'dev' if i % 3 else 'build') for i in range(n)]
        for f in cf.as_completed(futs):
            w, log = f.result(); tried += 1
            if log and (str(log[-1]).startswith('harness problem') or str(log[-1]).startswith('(project does not') or str(log[-1]).startswith('(clean build')): problems += 1; continue
            distinct.add(tuple(log))
            if len(samples) < 3: samples.append({'edit_history': log})
            if w is not None: return {'reproduced': True, 'tried': tried, 'witness': w}
    if problems > tried // 2: return {'reproduced': None, 'detail': 'harness problems in %d of %d cases' % (problems, tried)}
    return {'reproduced': False, 'tried': tried, 'distinct': len(distinct), 'samples': samples,
            'bound': '2 directed histories of deterministic-checkout edits (script, checkoutVars value, pinned git tag, revert) + 2 directed histories changing the set of SCMs of a checkout (remove, move, if, add back) + 1 url SCM history (url changes with the same file name, with/without digest) + 2 repeated-build runs over recipes of every step shape + %d generated projects (2-4 recipes), edit histories of %d steps, develop and release mode' % (n, steps),
            'detail': 'dist content after every incremental build equals a clean build; repeated builds execute nothing'}
