# Native bounded search for C01: incremental build == clean build over generated edit histories; an immediately repeated
# build of an unchanged project executes nothing.
import os, random, concurrent.futures as cf
from replay import projlib as P, buildhist as H

def one_history(seed, steps, mode):
    rnd = random.Random(seed)
    p = P.Project(prefix='c01-')
    try:
        model = P.gen_model(rnd); hist = [model]; log = []
        for i in range(steps + 1):
            p.write(model)
            rc, out = p.bob(mode, 'r0')
            if rc != 0: return None, log + ['(project does not build)']
            inc = H.dist_contents(p, None)
            ref = H.clean_build(model, mode)
            if ref is None: return None, log
            for name, dig in ref.items():
                if inc.get(name) != dig:
                    return {'kind': 'incremental-differs-from-clean', 'package': name, 'mode': mode, 'history': log, 'after_build': i}, log
            rc2, out2 = p.bob(mode, 'r0')
            # import SCMs are re-run on every invocation by design (they pick up local edits): not a deterministic checkout
            ex = [e for e in H.executed_steps(out2) if not (e[0] == 'CHECKOUT' and '/tool/' in e[1])]
            if rc2 != 0 or ex:
                return {'kind': 'repeated-build-executes-steps', 'executed': ex[:6], 'mode': mode, 'history': log}, log
            model, d = P.apply_edit(rnd, model, hist); hist.append(model); log.append(d)
        return None, log
    except Exception as ex:
        return None, ['harness problem: %r' % (ex,)]
    finally:
        p.cleanup()

def replay(rep):
    seed = int(os.environ.get('VERIF_SEED', '0') or 0)
    thorough = os.environ.get('VERIF_TIER') == 'thorough'
    n = 40 if thorough else 12; steps = 5 if thorough else 3
    tried = 0; distinct = set(); samples = []; problems = 0
    with cf.ThreadPoolExecutor(max_workers=8) as ex:
        futs = [ex.submit(one_history, seed * 1000 + i, steps, 'dev' if i % 3 else 'build') for i in range(n)]
        for f in cf.as_completed(futs):
            w, log = f.result(); tried += 1
            if log and str(log[-1]).startswith('harness problem'): problems += 1; continue
            distinct.add(tuple(log))
            if len(samples) < 3: samples.append({'edit_history': log})
            if w is not None: return {'reproduced': True, 'tried': tried, 'witness': w}
    if problems > tried // 2: return {'reproduced': None, 'detail': 'harness problems in %d of %d cases' % (problems, tried)}
    return {'reproduced': False, 'tried': tried, 'distinct': len(distinct), 'samples': samples,
            'bound': '%d generated projects (2-4 recipes), edit histories of %d steps, develop and release mode' % (n, steps),
            'detail': 'dist content after every incremental build equals a clean build; repeated builds execute nothing'}
