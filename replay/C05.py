# Native bounded search for C05: builds are aborted (a step script fails after partial output, or the bob process is
# killed right after its n-th durable state update, for every n up to the number of updates of that invocation);
# the following invocation (stale lock removed) must complete and every package result must equal a clean build.
import os, random, concurrent.futures as cf
from replay import projlib as P, buildhist as H

def one_history(seed, steps):
    rnd = random.Random(seed)
    p = P.Project(prefix='c05-')
    try:
        model = P.gen_model(rnd); hist = [model]; log = []
        flag = os.path.join(p.dir, 'FAIL-FLAG')
        # one recipe's build script fails after producing partial output while the flag file exists
        victim = rnd.choice(sorted(model['recipes']))
        def with_fault(m):
            import copy
            m = copy.deepcopy(m)
            if victim in m['recipes']:
                r = m['recipes'][victim]
                r['buildScript'] = r['buildScript'] + 'echo partial > partial.txt\nif [ -e %s ] ; then rm -f out.txt ; exit 1 ; fi\nrm partial.txt\n' % flag
            return m
        for i in range(steps + 1):
            fm = with_fault(model)
            p.write(fm)
            aborts = rnd.randint(1, 2) if i > 0 or rnd.random() < .7 else 0
            for a in range(aborts):
                if rnd.random() < .4:
                    open(flag, 'w').close()
                    rc, out = p.bob('dev', 'r0'); os.unlink(flag)
                    log.append('failing step in %s (rc %d)' % (victim, rc))
                else:
                    n = rnd.randint(1, 30)
                    rc, out = p.bob('dev', 'r0', env=H.kill_env(p, n))
                    log.append('killed after state update #%d (rc %d)' % (n, rc))
                lock = os.path.join(p.dir, '.bob-state.lock')
                if os.path.exists(lock): os.unlink(lock)
            rc, out = p.bob('dev', 'r0')
            if rc != 0:
                return {'kind': 'next-invocation-fails', 'history': log, 'output': out[-600:]}, log
            inc = H.dist_contents(p, None)
            ref = H.clean_build(fm)
            if ref is None: return None, log
            for name, dig in ref.items():
                if inc.get(name) != dig:
                    return {'kind': 'result-differs-from-clean-build-after-abort', 'package': name, 'history': log}, log
            model, d = P.apply_edit(rnd, model, hist); hist.append(model); log.append(d)
        return None, log
    except Exception as ex:
        return None, ['harness problem: %r' % (ex,)]
    finally:
        p.cleanup()


def directed_recheckout_abort():
    """SCM-only deterministic checkout (git pinned to a tag) that has to be redone after a recipe change and is aborted:
    the remote is unavailable (checkout fails), or bob is killed at its n-th state update; the next run must redo it"""
    import subprocess, tempfile, shutil
    base = tempfile.mkdtemp(prefix='c05d-'); log = []
    env = {'GIT_CONFIG_NOSYSTEM': '1', 'GIT_AUTHOR_NAME': 'u', 'GIT_AUTHOR_EMAIL': 'u@example.com', 'GIT_COMMITTER_NAME': 'u', 'GIT_COMMITTER_EMAIL': 'u@example.com', 'HOME': base}
    def git(cwd, *a):
        e = dict(os.environ); e.update(env); subprocess.run(['git', *a], cwd=cwd, check=True, stdout=subprocess.DEVNULL, stderr=subprocess.DEVNULL, env=e)
    try:
        up = os.path.join(base, 'up'); os.makedirs(up); git(up, 'init', '-q', '-b', 'master')
        for i in (1, 2, 3):
            with open(os.path.join(up, 'data%d.txt' % i), 'w') as f: f.write('tag-%d\n' % i)
            git(up, 'add', '-A'); git(up, 'commit', '-q', '-m', 'c%d' % i); git(up, 'tag', 'v%d' % i)
        def model(tag, extra=False):
            scm = [{'scm': 'git', 'url': 'file://' + up, 'tag': tag, 'dir': 'a'}] + ([{'scm': 'git', 'url': 'file://' + up, 'tag': 'v1', 'dir': 'b'}] if extra else [])
            return {'recipes': {'r0': {'root': True, 'checkoutSCM': scm, 'buildScript': 'ls "$1"/a > out.txt\n[ -d "$1"/b ] && ls "$1"/b >> out.txt || true\n', 'packageScript': 'cp "$1"/out.txt result.txt\n'}}, 'config': {}}
        variants = [('remote-unavailable', None)] + [('killed-at-update-%d' % n, n) for n in (1, 2, 3, 4, 5, 6)]
        for what, n in variants:
            p = P.Project(root=os.path.join(base, 'proj-' + what)); p.env.update(env)
            p.write(model('v1')); rc, out = p.bob('dev', 'r0')
            if rc != 0: return None, ['(project does not build: %s)' % out[-200:].replace('\n', ' ')]
            target = model('v2', extra=(n is not None and n % 2 == 0)); p.write(target)
            if n is None:
                os.rename(up, up + '.away'); rc, out = p.bob('dev', 'r0'); os.rename(up + '.away', up)
            else:
                rc, out = p.bob('dev', 'r0', env=H.kill_env(p, n))
            log.append('%s (rc %d)' % (what, rc))
            lock = os.path.join(p.dir, '.bob-state.lock')
            if os.path.exists(lock): os.unlink(lock)
            rc, out = p.bob('dev', 'r0')
            if rc != 0: return {'kind': 'next-invocation-fails', 'history': log, 'output': out[-500:]}, log
            inc = H.dist_contents(p, None)
            c = P.Project(root=os.path.join(base, 'clean-' + what)); c.env.update(env); c.write(target); rc2, out2 = c.bob('dev', 'r0')
            if rc2 != 0: return None, ['(clean build failed)']
            ref = H.dist_contents(c, None); c.cleanup(); p.cleanup()
            for name, dig in ref.items():
                if inc.get(name) != dig:
                    return {'kind': 'result-differs-from-clean-build-after-abort', 'package': name, 'history': log, 'what': 'aborted re-checkout of an SCM-only deterministic checkout was treated as done'}, log
        return None, log
    except Exception as ex:
        return None, ['harness problem: %r' % (ex,)]
    finally:
        shutil.rmtree(base, ignore_errors=True)

def directed_partial_output(mode):
    """a build / package script fails after writing partial output; the next invocation (cause removed) must end with exactly what a
    clean build gives -- in clean-build mode and for every package step the script starts from an empty workspace"""
    import tempfile, shutil
    base = tempfile.mkdtemp(prefix='c05p-'); log = []
    try:
        flag = os.path.join(base, 'FAIL')
        def script(out):
            return 'if [ -e "%s" ]; then echo junk > partial-%s.txt; mkdir -p stage; echo half > stage/half.bin; exit 1; fi\necho good > %s\n' % (flag, out, out)
        for victim in (('package', 'build') if mode == 'build' else ('package',)):      # (develop mode re-runs build scripts on the old workspace by design)
            R = {'r0': {'root': True, 'depends': ['lib'], 'buildScript': 'cat "$2"/*.txt > out.txt\n', 'packageScript': 'cp "$1"/out.txt result.txt\n'},
                 'lib': {'buildScript': (script('out.txt') if victim == 'build' else 'echo good > out.txt\n'),
                         'packageScript': (script('result.txt') if victim == 'package' else 'cp -r "$1"/. .\n')}}
            p = P.Project(root=os.path.join(base, 'proj-' + victim)); p.write({'recipes': R, 'config': {}})
            open(flag, 'w').close()
            rc, out = p.bob(mode, 'r0'); log.append('%s script of lib fails after partial output (%s)' % (victim, mode))
            if rc == 0: return {'kind': 'failed-step-not-reported', 'history': log}, log
            os.unlink(flag)
            rc, out = p.bob(mode, 'r0'); log.append('cause removed, run again')
            if rc != 0: return None, ['harness problem: second run failed: %s' % out[-200:]]
            inc = H.dist_contents(p, None)
            c = P.Project(root=os.path.join(base, 'clean-' + victim)); c.write({'recipes': R, 'config': {}})
            rc2, out2 = c.bob(mode, 'r0')
            if rc2 != 0: return None, ['harness problem: clean build failed']
            ref = H.dist_contents(c, None); c.cleanup()
            for name, dig in ref.items():
                if inc.get(name) != dig:
                    return {'kind': 'result-after-failed-step-differs-from-clean-build', 'package': name, 'mode': mode, 'history': log,
                            'what': 'the re-run of a failed %s step continued on the partial output of the failed run' % victim}, log
        return None, log
    except Exception as ex:
        return None, ['harness problem: %r' % (ex,)]
    finally:
        shutil.rmtree(base, ignore_errors=True)

def replay(rep):
    seed = int(os.environ.get('VERIF_SEED', '0') or 0)
    thorough = os.environ.get('VERIF_TIER') == 'thorough'
    n = 40 if thorough else 12; steps = 4 if thorough else 2
    tried = 0; distinct = set(); samples = []; problems = 0
    with cf.ThreadPoolExecutor(max_workers=8) as ex:
        futs = [ex.submit(directed_recheckout_abort), ex.submit(directed_partial_output, 'build'), ex.submit(directed_partial_output, 'dev')] + [ex.submit(one_history, seed * 1000 + i, steps) for i in range(n)]
        for f in cf.as_completed(futs):
            w, log = f.result(); tried += 1
            if log and (str(log[-1]).startswith('harness problem') or str(log[-1]).startswith('(project does not') or str(log[-1]).startswith('(clean build')): problems += 1; continue
            distinct.add(tuple(log))
            if len(samples) < 3: samples.append({'history': log})
            if w is not None: return {'reproduced': True, 'tried': tried, 'witness': w}
    if problems > tried // 2: return {'reproduced': None, 'detail': 'harness problems in %d of %d cases' % (problems, tried)}
    return {'reproduced': False, 'tried': tried, 'distinct': len(distinct), 'samples': samples,
            'bound': 'directed aborted re-checkout of a pinned git checkout (remote unavailable; kill at state update 1..6) + %d generated projects, %d edits each, 1-2 aborts (failing step / kill after the n-th state update, n<=30) before every final run' % (n, steps),
            'detail': 'every run after an abort completed and matched a clean build'}
