# Native replay runner: executed with the repository's interpreter (/venv/bin/python).
# usage: run.py <Cxx> <replay-file.json>   -> prints one JSON line {"reproduced": bool, ...}
import sys, os, json, importlib, traceback
ROOT = os.path.dirname(os.path.dirname(os.path.abspath(__file__)))
REPO = os.environ.get('VERIF_REPO', '/repo')
sys.path.insert(0, os.path.join(REPO, 'pym'))
sys.path.insert(0, ROOT)
def main():
    prop, path = sys.argv[1], sys.argv[2]
    rep = json.load(open(path))
    try:
        mod = importlib.import_module('replay.' + prop)
        out = mod.replay(rep)
    except Exception:
        out = {'reproduced': None, 'detail': 'replay harness crashed: ' + traceback.format_exc()[-1500:]}
    print(json.dumps(out, default=str))
main()
