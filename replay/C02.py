# Native bounded search for C02 (bounded; real RecipeSet/generatePackages in a subprocess per project state):
#  (1) a step's hashed environment is exactly the set of its declared non-weak variables (own + earlier steps of the
#      package, documented carry-forward) that are set, its visible environment additionally the weak ones
#  (2) same Variant-Id <=> same (digest script, hashed environment, tools (variant, path, libs) in name order, argument ids)
#  (3) every single edit of the quantifier list changes the Variant-Id of the edited step and of everything that
#      depends on it, leaves unrelated packages alone, and reverting it restores all ids
#  (4) directed: git submodule / recurseSubmodules combinations are all distinguished; known finding F-C02 (host part)
import os, sys, json, random, copy, shutil, tempfile, traceback
from replay import projlib as P, idlib as I

def descriptor(s):
    return json.dumps([s['digestScript'], sorted(s['digestEnv'].items()), [t[1:] for t in s['tools']], s['args']], sort_keys=True)

def check_state(model, q, log):
    w = I.check_weak_tools(model, q, log)
    if w: return w
    by_vid = {}
    for key, rec in q.items():
        r = model['recipes'].get(rec['recipe'])
        if r is None: continue
        strong, weak = I.expected_vars(r) if rec['recipe'].startswith('r') else ({}, {})
        for label, s in rec['steps'].items():
            if rec['recipe'].startswith('r'):
                avail = set(r.get('environment', {})) | {k for k in s['env']}      # variables that exist for this package
                want_strong = {v for v in strong[label] if v in r.get('environment', {})}
                got_strong = set(s['digestEnv'])
                if got_strong != want_strong:
                    return {'kind': 'hashed-environment-is-not-the-declared-non-weak-set', 'package': key, 'step': label, 'hashed': sorted(got_strong), 'declared_non_weak': sorted(want_strong), 'history': log}
                want_env = {v for v in (strong[label] | weak[label]) if v in r.get('environment', {})}
                if set(s['env']) != want_env:
                    return {'kind': 'visible-environment-is-not-the-declared-set', 'package': key, 'step': label, 'visible': sorted(s['env']), 'declared': sorted(want_env), 'history': log}
                for v in got_strong:
                    if s['digestEnv'][v] != r['environment'][v] and not r['environment'][v].startswith('p-'):
                        return {'kind': 'hashed-value-differs-from-recipe-value', 'package': key, 'step': label, 'variable': v, 'history': log}
            d = (label if label == 'src' else 'x', descriptor(s))
            prev = by_vid.setdefault(s['vid'], (d, key, label))
            if prev[0][1] != d[1]:
                return {'kind': 'same-variant-id-different-content', 'a': list(prev[1:]), 'b': [key, label], 'history': log}
    inv = {}
    for key, rec in q.items():
        for label, s in rec['steps'].items():
            d = descriptor(s); k2 = (label == 'src', d)
            prev = inv.setdefault(k2, (s['vid'], key, label))
            if prev[0] != s['vid'] and (label == 'src') == (prev[2] == 'src'):
                return {'kind': 'same-content-different-variant-id', 'a': list(prev[1:]), 'b': [key, label], 'history': log}
    return None

def dependents(q, changed_keys):
    """package paths whose some step (transitively) consumes a changed package"""
    out = set(changed_keys)
    grew = True
    while grew:
        grew = False
        for key, rec in q.items():
            if key in out: continue
            if any((key + '/' + d) in out for d in rec['deps']): out.add(key); grew = True
    return out

def one_case(seed):
    rnd = random.Random(seed); log = []
    p = P.Project(prefix='c02-')
    try:
        model = I.gen(rnd); p.write(model)
        try: q0 = I.query(p)
        except RuntimeError as e: return None, ['(project invalid: %s)' % str(e)[-120:]]
        w = check_state(model, q0, log)
        if w: return w, log
        ids0 = I.ids_of(q0)
        for desc, fn in I.edits():
            m2 = copy.deepcopy(model)
            try: name, labels = fn(m2, rnd)
            except Exception: continue
            if name is None: continue
            p.write(m2); log2 = log + ['edit: %s of %s' % (desc, name)]
            try: q1 = I.query(p)
            except RuntimeError as e: continue
            w = check_state(m2, q1, log2)
            if w: return w, log2
            ids1 = I.ids_of(q1)
            edited = [k for k, rec in q1.items() if rec['recipe'] == name]
            for k in edited:
                for l in labels:
                    if (k, l) in ids0 and (k, l) in ids1 and ids0[(k, l)] == ids1[(k, l)]:
                        return {'kind': 'edit-did-not-change-the-variant-id', 'edit': desc, 'package': k, 'step': l, 'history': log2}, log2
            dep = dependents(q1, set(edited))
            for k in dep - set(edited):
                if (k, 'dist') in ids0 and ids0[(k, 'dist')] == ids1.get((k, 'dist')) and any(l in ('dist',) for l in labels):
                    return {'kind': 'edit-did-not-propagate-to-a-dependent', 'edit': desc, 'package': k, 'history': log2}, log2
            for (k, l), v in ids1.items():
                if k not in dep and (k, l) in ids0 and ids0[(k, l)] != v and desc not in ('class script', 'buildFinalize added to an inherited class', 'tool path', 'tool libs', 'tool libs order'):
                    return {'kind': 'edit-changed-an-unrelated-package', 'edit': desc, 'package': k, 'step': l, 'history': log2}, log2
            p.write(model)
            if I.ids_of(I.query(p)) != ids0:
                return {'kind': 'revert-did-not-restore-the-ids', 'edit': desc, 'history': log2}, log2
        return None, log + ['%d steps' % len(ids0)]
    except Exception as ex:
        return None, ['harness problem: %r %s' % (ex, traceback.format_exc()[-300:])]
    finally:
        p.cleanup()

def git_matrix():
    """all submodule settings of the git SCM give pairwise different checkout ids"""
    p = P.Project(prefix='c02g-'); seen = {}
    try:
        for sub, rec in ((None, False), (True, False), (True, True), (['a', 'b'], False), (['a', 'b'], True), (['a'], True)):
            scm = {'scm': 'git', 'url': 'https://example.invalid/x.git', 'branch': 'main'}
            if sub is not None: scm['submodules'] = sub
            if rec: scm['recurseSubmodules'] = True
            p.write({'recipes': {'r0': {'root': True, 'checkoutSCM': scm, 'buildScript': 'true\n', 'packageScript': 'true\n'}}, 'config': {}})
            q = I.query(p); vid = q['r0']['steps']['src']['vid']; key = json.dumps([sub, rec])
            if vid in seen: return {'kind': 'same-variant-id-different-content', 'scm_a': seen[vid], 'scm_b': key, 'what': 'git submodules/recurseSubmodules settings not distinguished'}, [key]
            seen[vid] = key
        return None, ['git submodule matrix']
    except Exception as ex:
        return None, ['harness problem: %r' % (ex,)]
    finally: p.cleanup()

def url_matrix():
    """every attribute of a url SCM that changes what the checkout does is distinguished, with and without a checksum"""
    p = P.Project(prefix='c02u-'); seen = {}
    try:
        for digest in (None, 'a' * 40):
            for extra in ({}, {'dir': 'sub'}, {'dir': 'other'}, {'fileName': 'renamed.tar'}, {'extract': False}, {'stripComponents': 1}, {'fileMode': 0o755}):
                scm = {'scm': 'url', 'url': 'https://example.invalid/pkg.tar'}
                if digest: scm['digestSHA1'] = digest
                scm.update(extra)
                p.write({'recipes': {'r0': {'root': True, 'checkoutSCM': scm, 'buildScript': 'true\n', 'packageScript': 'true\n'}}, 'config': {}})
                q = I.query(p); vid = q['r0']['steps']['src']['vid']; key = json.dumps([digest is not None, extra], sort_keys=True)
                if vid in seen: return {'kind': 'same-variant-id-different-content', 'scm_a': seen[vid], 'scm_b': key, 'what': 'url SCM attributes (dir / fileName / extract / stripComponents / fileMode, with or without checksum) not distinguished'}, [key]
                seen[vid] = key
        return None, ['url attribute matrix']
    except Exception as ex:
        return None, ['harness problem: %r' % (ex,)]
    finally: p.cleanup()

def host_stream_collision():
    """F-C02: fingerprint (host) parts of the arguments are concatenated unframed"""
    p = P.Project(prefix='c02h-')
    try:
        fp = {'fingerprintIf': True, 'fingerprintScript': 'echo fp\n'}
        R = {'sbx': {'buildScript': 'true\n', 'packageScript': 'true\n', 'provideSandbox': {'paths': ['/bin']}},
             'a': dict(fp, buildScript='echo a\n', packageScript='true\n'), 'b': dict(fp, buildScript='echo b\n', packageScript='true\n'),
             'a-sb': dict(fp, buildScript='echo a\n', packageScript='true\n', depends=[{'name': 'sbx', 'use': ['sandbox']}]),
             'b-sb': dict(fp, buildScript='echo b\n', packageScript='true\n', depends=[{'name': 'sbx', 'use': ['sandbox']}]),
             'x': {'depends': ['a-sb', 'b'], 'buildScript': 'echo same\n', 'packageScript': 'true\n'},
             'y': {'depends': ['a', 'b-sb'], 'buildScript': 'echo same\n', 'packageScript': 'true\n'},
             'r0': {'root': True, 'depends': ['x', 'y'], 'buildScript': 'true\n', 'packageScript': 'true\n'}}
        p.write({'recipes': R, 'config': {}})
        q = I.query(p, sandbox=True)
        x, y = q['r0/x']['steps']['build'], q['r0/y']['steps']['build']
        if x['vid'] == y['vid'] and x['args'] != y['args']:
            return {'kind': 'same-variant-id-different-inputs/unframed-host-stream', 'x_args': x['args'], 'y_args': y['args'], 'vid': x['vid']}, ['F-C02 shape']
        return None, ['F-C02 shape']
    except Exception as ex:
        return None, ['harness problem: %r' % (ex,)]
    finally: p.cleanup()

def replay(rep):
    import concurrent.futures as cf
    seed = int(os.environ.get('VERIF_SEED', '0') or 0)
    thorough = os.environ.get('VERIF_TIER') == 'thorough'
    n = 40 if thorough else 8
    tried = 0; distinct = set(); samples = []; problems = 0; found = None
    with cf.ThreadPoolExecutor(max_workers=8) as ex:
        futs = [ex.submit(git_matrix), ex.submit(url_matrix), ex.submit(host_stream_collision)] + [ex.submit(one_case, seed * 1000 + i) for i in range(n)]
        for f in cf.as_completed(futs):
            w, log = f.result(); tried += 1
            if log and (str(log[-1]).startswith('harness problem') or str(log[-1]).startswith('(project invalid')): problems += 1; samples.append({'problem': log[-1]}) if len(samples) < 3 else None; continue
            distinct.add(tuple(log))
            if len(samples) < 3: samples.append({'history': log})
            if w is not None and (found is None or 'unframed-host-stream' in found.get('kind', '')): found = w
    if found is not None: return {'reproduced': True, 'tried': tried, 'witness': found}
    if problems > tried // 2: return {'reproduced': None, 'detail': 'harness problems in %d of %d cases: %s' % (problems, tried, samples[:2])}
    return {'reproduced': False, 'tried': tried, 'distinct': len(distinct), 'samples': samples,
            'bound': '%d generated projects (2-4 recipes + class + tool provider + git SCM) x 18 single edits with revert; git submodule matrix (6 settings); url SCM attribute matrix (14 settings); directed host-stream shape' % n,
            'detail': 'hashed environments equal the declared non-weak sets, ids are a bijection of step content, every edit changed exactly the dependent ids and reverted cleanly'}
