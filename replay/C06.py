# Native replay for C06: drives the real JobServerSemaphore on a real pipe and a real asyncio loop
# through enumerated/sampled schedules and checks the property's clauses as run-time monitors.
import asyncio, os, itertools, random, sys

def run_schedule(recursive, pipe_tokens, scripts, ext=None):
    """scripts: per task a list of rounds (delay_before, hold).  Returns None or a violation text."""
    from bob.builder import JobServerSemaphore
    r, w = os.pipe()
    os.set_blocking(r, False)
    os.write(w, b'+' * pipe_tokens) if pipe_tokens else None
    capacity = pipe_tokens + (1 if recursive else 0)
    state = {'running': 0, 'viol': None, 'ext': 0}
    if ext:
        # a foreign job-server participant (sub-make) takes tokens before Bob's tasks start and gives them back later
        for _ in range(ext[0]):
            try: os.read(r, 1); state['ext'] += 1
            except BlockingIOError: break
    async def main():
        sem = JobServerSemaphore((r, w), recursive)
        async def foreign():
            for d in ext[1][:state['ext']]:
                for _ in range(d): await asyncio.sleep(0)
                os.write(w, b'+'); state['ext'] -= 1
        async def task(script):
            for (d, h) in script:
                for _ in range(d): await asyncio.sleep(0)
                await sem.acquire()
                state['running'] += 1
                if state['running'] > capacity - state['ext'] and state['viol'] is None:
                    state['viol'] = '%d jobs run concurrently on %d slot(s) (%d token(s) held by a foreign participant)' % (state['running'], capacity - state['ext'], state['ext'])
                for _ in range(h): await asyncio.sleep(0)
                state['running'] -= 1
                try:
                    sem.release()
                except Exception as ex:
                    if state['viol'] is None: state['viol'] = 'release() raised %r' % (ex,)
                    return
        ts = [asyncio.ensure_future(task(s)) for s in scripts] + ([asyncio.ensure_future(foreign())] if ext else [])
        done, pending = await asyncio.wait(ts, timeout=2)
        if pending and state['viol'] is None:
            state['viol'] = 'deadlock/lost wake-up: %d task(s) never finished' % len(pending)
            for p in pending: p.cancel()
        held = getattr(sem, '_JobServerSemaphore__tokens')
        if state['viol'] is None and len(held) != 0:
            state['viol'] = 'idle semaphore still holds %d token(s) (never given back)' % len(held)
    loop = asyncio.new_event_loop()
    try:
        loop.run_until_complete(main())
    finally:
        loop.close()
    if state['viol'] is None:
        try: left = len(os.read(r, 1000))
        except BlockingIOError: left = 0
        if left != pipe_tokens: state['viol'] = 'pipe holds %d token(s) after the build, expected %d' % (left, pipe_tokens)
    os.close(r); os.close(w)
    return state['viol']

def cases(seed):
    rounds = [(d, h) for d in range(3) for h in range(3)]
    # a foreign participant holds tokens while several Bob tasks wait, and returns them one at a time
    for recursive in (False, True):
        for toks in (1, 2):
            for ntasks in (2, 3):
                for hold in (0, 1, 3):
                    for delays in ([1, 1, 1], [2, 9, 9], [1, 5, 9]):
                        yield recursive, toks, [[(0, hold)] for _ in range(ntasks)], (toks, delays)
    for recursive in (True, False):
        for toks in ((0, 1) if recursive else (1, 2)):
            for a in itertools.product(rounds, repeat=2):
                for b in rounds:
                    yield recursive, toks, [list(a), [b]]
    rnd = random.Random(seed)
    for _ in range(3000):
        recursive = rnd.random() < .5
        toks = rnd.randint(0 if recursive else 1, 3)
        ext = None
        if rnd.random() < .5: ext = (rnd.randint(1, toks) if toks else 0, [rnd.randint(1, 6) for _ in range(3)])
        yield recursive, toks, [[rnd.choice(rounds) for _ in range(rnd.randint(1, 3))] for _ in range(rnd.randint(2, 4))], ext
    for recursive in (True, False):
        for toks in ((0, 1) if recursive else (1, 2)):
            for a in itertools.product(rounds, repeat=2):
                for b in itertools.product(rounds, repeat=2):
                    yield recursive, toks, [list(a), list(b)]

def replay(rep):
    seed = int(os.environ.get('VERIF_SEED', '0') or 0)
    tried = 0
    for case in cases(seed):
        recursive, toks, scripts = case[:3]; ext = case[3] if len(case) > 3 else None
        tried += 1
        v = run_schedule(recursive, toks, scripts, ext)
        if v is not None:
            return {'reproduced': True, 'tried': tried,
                    'witness': {'recursive': recursive, 'tokens_in_pipe': toks, 'task_scripts(delay,hold)': scripts, 'foreign(take,return_delays)': ext, 'observed': v}}
        if tried > 15000: break
    return {'reproduced': False, 'tried': tried, 'detail': 'no schedule up to the search bound violates a monitored clause'}
