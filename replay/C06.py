# Native replay for C06: drives the real JobServerSemaphore on a real pipe and a real asyncio loop
# through enumerated/sampled schedules and checks the property's clauses as run-time monitors.
import asyncio, os, itertools, random, sys

def run_schedule(recursive, pipe_tokens, scripts, ext=None):
    """scripts: per task a list of rounds (delay_before, hold).  Returns None or a violation text."""
    from bob.builder import JobServerSemaphore
    r, w = os.pipe()
    os.set_blocking(r, False)
    os.write(w, b'+' * pipe_tokens) if pipe_tokens else None
    capacity = pipe_tokens + (1 if recursive else 0)
    state = {'running': 0, 'viol': None, 'ext': 0}
    if ext:
        # a foreign job-server participant (sub-make) takes tokens before Bob's tasks start and gives them back later
        for _ in range(ext[0]):
            try: os.read(r, 1); state['ext'] += 1
            except BlockingIOError: break
    async def main():
        sem = JobServerSemaphore((r, w), recursive)
        async def foreign():
            for d in ext[1][:state['ext']]:
                for _ in range(d): await asyncio.sleep(0)
                os.write(w, b'+'); state['ext'] -= 1
        async def task(script):
            for (d, h) in script:
                for _ in range(d): await asyncio.sleep(0)
                await sem.acquire()
                state['running'] += 1
                if state['running'] > capacity - state['ext'] and state['viol'] is None:
                    state['viol'] = '%d jobs run concurrently on %d slot(s) (%d token(s) held by a foreign participant)' % (state['running'], capacity - state['ext'], state['ext'])
                for _ in range(h): await asyncio.sleep(0)
                state['running'] -= 1
                try:
                    sem.release()
                except Exception as ex:
                    if state['viol'] is None: state['viol'] = 'release() raised %r' % (ex,)
                    return
        ts = [asyncio.ensure_future(task(s)) for s in scripts] + ([asyncio.ensure_future(foreign())] if ext else [])
        # no wall clock decides: tasks only yield cooperatively or wait for the pipe.  A deadlock is reported when the loop is
        # quiescent (nothing ready, nothing scheduled, no registered reader with a readable pipe) while tasks are pending.
        import select
        loop = asyncio.get_running_loop(); pending = set(ts); rounds = 0
        def quiescent():
            if len(loop._ready) > 0 or any(not h._cancelled for h in loop._scheduled): return False
            try: loop._selector.get_key(r); registered = True
            except KeyError: registered = False
            if registered and select.select([r], [], [], 0)[0]: return False
            return True
        while pending:
            done, pending = await asyncio.wait(pending, timeout=0.02 if rounds < 50 else 0.5)
            if not pending: break
            if quiescent():
                if state['viol'] is None: state['viol'] = 'deadlock/lost wake-up: %d task(s) never finished' % len(pending)
                break
            rounds += 1
            if rounds > 600: raise RuntimeError('schedule did not finish and the loop never went quiescent (machine overloaded?)')
        for p in pending: p.cancel()
        held = getattr(sem, '_JobServerSemaphore__tokens')
        if state['viol'] is None and len(held) != 0:
            state['viol'] = 'idle semaphore still holds %d token(s) (never given back)' % len(held)
    loop = asyncio.new_event_loop()
    try:
        loop.run_until_complete(main())
    finally:
        loop.close()
    if state['viol'] is None:
        try: left = len(os.read(r, 1000))
        except BlockingIOError: left = 0
        if left != pipe_tokens: state['viol'] = 'pipe holds %d token(s) after the build, expected %d' % (left, pipe_tokens)
    os.close(r); os.close(w)
    return state['viol']

def cases(seed):
    rounds = [(d, h) for d in range(3) for h in range(3)]
    # a foreign participant holds tokens while several Bob tasks wait, and returns them one at a time
    for recursive in (False, True):
        for toks in (1, 2):
            for ntasks in (2, 3):
                for hold in (0, 1, 3):
                    for delays in ([1, 1, 1], [2, 9, 9], [1, 5, 9]):
                        yield recursive, toks, [[(0, hold)] for _ in range(ntasks)], (toks, delays)
    for recursive in (True, False):
        for toks in ((0, 1) if recursive else (1, 2)):
            for a in itertools.product(rounds, repeat=2):
                for b in rounds:
                    yield recursive, toks, [list(a), [b]]
    rnd = random.Random(seed)
    for _ in range(3000):
        recursive = rnd.random() < .5
        toks = rnd.randint(0 if recursive else 1, 3)
        ext = None
        if rnd.random() < .5: ext = (rnd.randint(1, toks) if toks else 0, [rnd.randint(1, 6) for _ in range(3)])
        yield recursive, toks, [[rnd.choice(rounds) for _ in range(rnd.randint(1, 3))] for _ in range(rnd.randint(2, 4))], ext
    for recursive in (True, False):
        for toks in ((0, 1) if recursive else (1, 2)):
            for a in itertools.product(rounds, repeat=2):
                for b in itertools.product(rounds, repeat=2):
                    yield recursive, toks, [list(a), list(b)]


# ------------------------------------------------------------------ whole builds: real `bob dev -j N [-k]` on generated DAGs
def build_level(seed, n_cases):
    """every step script appends a token to a log: no workspace runs twice in one invocation, a step runs only after its
    dependencies succeeded, with keep-going only dependents of the failing package are skipped, never more scripts run
    at once than jobs, and the results do not depend on the job count"""
    import tempfile, shutil, time
    sys.path.insert(0, os.path.dirname(os.path.dirname(os.path.abspath(__file__))))
    from replay import projlib as P
    rnd = random.Random(seed)
    for ci in range(n_cases):
        base = tempfile.mkdtemp(prefix='c06b-'); log = os.path.join(base, 'log')
        try:
            n = rnd.randint(3, 6); names = ['p%d' % i for i in range(n)]
            deps = {nm: [names[j] for j in range(i + 1, n) if rnd.random() < .5] for i, nm in enumerate(names)}
            if ci == 0: names = ['p0', 'b', 'c', 'd', 'e']; deps = {'p0': ['b', 'c', 'e'], 'b': ['d'], 'c': ['d'], 'd': [], 'e': []}      # diamond over a failing package
            fail = 'd' if ci == 0 else (rnd.choice(names[1:]) if rnd.random() < .6 else None)
            fail_in = 'build' if ci == 0 else rnd.choice(['build', 'package'])       # the failing script: build or package step of that package
            if ci == 1:       # two dependents ask for a package whose PACKAGE step fails, one after the other
                names = ['p0', 'a', 'b', 'c']; deps = {'p0': ['a', 'b'], 'a': ['c'], 'b': ['c'], 'c': []}; fail = 'c'; fail_in = 'package'
            if ci == 2:       # a failure deep below one branch while the other branch keeps the job slots busy: slots are neither lost nor duplicated
                names = ['p0', 'bad', 'boom', 'good'] + ['l%d' % i for i in range(1, 7)]
                deps = {'p0': ['bad', 'good'], 'bad': ['boom'], 'boom': [], 'good': ['l%d' % i for i in range(1, 7)]}; deps.update({'l%d' % i: [] for i in range(1, 7)}); fail = 'boom'; fail_in = 'build'
            R = {}
            for nm in names:
                # the failing script fails at once, the others take a while: a failure must not take down unrelated running steps
                R[nm] = {'buildScript': 'echo "start %s $$" >> %s\nsleep %s\necho "end %s $$" >> %s\n%s' % (nm, log, '0' if nm == fail else '0.%d' % rnd.randint(2, 6), nm, log, 'exit 1\n' if (nm == fail and fail_in == 'build') else 'echo ok > out.txt\n'),
                         'packageScript': ('exit 1\n' if (nm == fail and fail_in == 'package') else 'cp "$1"/out.txt . 2>/dev/null || true\n')}
                if deps[nm]: R[nm]['depends'] = deps[nm]
            R[names[0]]['root'] = True
            results = {}
            for jobs in (1, 2, 4):
                for keep in (False, True):
                    p = P.Project(root=os.path.join(base, 'j%d%s' % (jobs, 'k' if keep else '')))
                    p.write({'recipes': R, 'config': {}})
                    open(log, 'w').close()
                    rc, out = p.bob('dev', names[0], '-j', str(jobs), *(['-k'] if keep else []))
                    lines = [l.split() for l in open(log).read().split('\n') if l]
                    desc = {'recipes': deps, 'failing': fail, 'failing_step': fail_in, 'jobs': jobs, 'keep_going': keep}
                    starts = [l[1] for l in lines if l[0] == 'start']
                    dup = sorted({x for x in starts if starts.count(x) > 1})
                    if dup: return {'kind': 'workspace-executed-twice-in-one-invocation', 'packages': dup, **desc}
                    running = 0; peak = 0
                    for l in lines:
                        running += 1 if l[0] == 'start' else -1; peak = max(peak, running)
                    if peak > jobs: return {'kind': 'more-scripts-running-than-jobs', 'peak': peak, **desc}
                    ended = set(); bad = None
                    for l in lines:
                        if l[0] == 'start':
                            missing = [d for d in deps[l[1]] if d not in ended or d == fail]
                            if missing: bad = (l[1], missing)
                        else: ended.add(l[1])
                    if bad: return {'kind': 'step-started-before-its-dependencies-succeeded', 'package': bad[0], 'dependencies': bad[1], **desc}
                    def reach(x, seen=None):
                        seen = seen if seen is not None else set()
                        for d in deps[x]:
                            if d not in seen: seen.add(d); reach(d, seen)
                        return seen
                    if fail is None and rc != 0: return {'kind': 'build-failed-without-a-failing-step', 'output': out[-300:], **desc}
                    if fail is not None and fail in reach(names[0]) | {names[0]}:
                        if rc == 0: return {'kind': 'failure-not-reported', **desc}
                        if keep:
                            must = [x for x in (reach(names[0]) | {names[0]}) if x != fail and fail not in reach(x)]
                            lost = [x for x in must if x not in ended]        # started is not enough: the script has to run to its end
                            if lost: return {'kind': 'keep-going-skipped-a-package-that-does-not-depend-on-the-failure', 'packages': sorted(lost), **desc}
                    results[(jobs, keep)] = (rc == 0, sorted(ended) if (keep or fail is None) else None)
                    shutil.rmtree(p.dir, ignore_errors=True)
            ks = [v for (j, k), v in results.items() if k]
            if any(v != ks[0] for v in ks): return {'kind': 'result-depends-on-the-job-count', 'recipes': deps, 'failing': fail, 'observed': {str(k): v for k, v in results.items()}}
        finally:
            shutil.rmtree(base, ignore_errors=True)
    return None

def replay(rep):
    seed = int(os.environ.get('VERIF_SEED', '0') or 0)
    tried = 0
    for case in cases(seed):
        recursive, toks, scripts = case[:3]; ext = case[3] if len(case) > 3 else None
        tried += 1
        v = run_schedule(recursive, toks, scripts, ext)
        if v is not None:
            return {'reproduced': True, 'tried': tried,
                    'witness': {'recursive': recursive, 'tokens_in_pipe': toks, 'task_scripts(delay,hold)': scripts, 'foreign(take,return_delays)': ext, 'observed': v}}
        if tried > 15000: break
    nb = 8 if os.environ.get('VERIF_TIER') == 'thorough' else 4
    w = build_level(seed, nb)
    if w is not None: return {'reproduced': True, 'tried': tried + 1, 'witness': w}
    return {'reproduced': False, 'tried': tried + nb * 6, 'bound': 'semaphore schedules up to the stated search bound + %d generated DAGs (3-6 packages, optional failing step) built with -j 1/2/4, with and without -k' % nb,
            'detail': 'no schedule violates a monitored clause; no workspace ran twice, dependencies finished first, failures stayed confined, job limit respected'}
