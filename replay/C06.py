# Native replay for C06: drives the real JobServerSemaphore on a real pipe and a real asyncio loop
# through enumerated/sampled schedules and checks the property's clauses as run-time monitors.
import asyncio, os, itertools, random, sys

def run_schedule(recursive, pipe_tokens, scripts):
    """scripts: per task a list of rounds (delay_before, hold).  Returns None or a violation text."""
    from bob.builder import JobServerSemaphore
    r, w = os.pipe()
    os.set_blocking(r, False)
    os.write(w, b'+' * pipe_tokens) if pipe_tokens else None
    capacity = pipe_tokens + (1 if recursive else 0)
    state = {'running': 0, 'viol': None}
    async def main():
        sem = JobServerSemaphore((r, w), recursive)
        async def task(script):
            for (d, h) in script:
                for _ in range(d): await asyncio.sleep(0)
                await sem.acquire()
                state['running'] += 1
                if state['running'] > capacity and state['viol'] is None:
                    state['viol'] = '%d jobs run concurrently on %d slot(s)' % (state['running'], capacity)
                for _ in range(h): await asyncio.sleep(0)
                state['running'] -= 1
                try:
                    sem.release()
                except Exception as ex:
                    if state['viol'] is None: state['viol'] = 'release() raised %r' % (ex,)
                    return
        ts = [asyncio.ensure_future(task(s)) for s in scripts]
        done, pending = await asyncio.wait(ts, timeout=2)
        if pending and state['viol'] is None:
            state['viol'] = 'deadlock/lost wake-up: %d task(s) never finished' % len(pending)
            for p in pending: p.cancel()
        held = getattr(sem, '_JobServerSemaphore__tokens')
        if state['viol'] is None and len(held) != 0:
            state['viol'] = 'idle semaphore still holds %d token(s) (never given back)' % len(held)
    loop = asyncio.new_event_loop()
    try:
        loop.run_until_complete(main())
    finally:
        loop.close()
    if state['viol'] is None:
        try: left = len(os.read(r, 1000))
        except BlockingIOError: left = 0
        if left != pipe_tokens: state['viol'] = 'pipe holds %d token(s) after the build, expected %d' % (left, pipe_tokens)
    os.close(r); os.close(w)
    return state['viol']

def cases(seed):
    rounds = [(d, h) for d in range(3) for h in range(3)]
    for recursive in (True, False):
        for toks in ((0, 1) if recursive else (1, 2)):
            for a in itertools.product(rounds, repeat=2):
                for b in rounds:
                    yield recursive, toks, [list(a), [b]]
            for a in itertools.product(rounds, repeat=2):
                for b in itertools.product(rounds, repeat=2):
                    yield recursive, toks, [list(a), list(b)]
    rnd = random.Random(seed)
    for _ in range(1500):
        recursive = rnd.random() < .5
        toks = rnd.randint(0 if recursive else 1, 2)
        yield recursive, toks, [[rnd.choice(rounds) for _ in range(rnd.randint(1, 3))] for _ in range(rnd.randint(2, 4))]

def replay(rep):
    seed = int(os.environ.get('VERIF_SEED', '0') or 0)
    tried = 0
    for recursive, toks, scripts in cases(seed):
        tried += 1
        v = run_schedule(recursive, toks, scripts)
        if v is not None:
            return {'reproduced': True, 'tried': tried,
                    'witness': {'recursive': recursive, 'tokens_in_pipe': toks, 'task_scripts(delay,hold)': scripts, 'observed': v}}
        if tried > 12000: break
    return {'reproduced': False, 'tried': tried, 'detail': 'no schedule up to the search bound violates a monitored clause'}
