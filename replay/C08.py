# Native bounded search for C08 (bounded stand-in for tarfile/gzip semantics):
#  * fidelity: generated trees (files, empty dirs, symlinks, hard links, modes, unicode/special names) packed with the real
#    TarHelper._pack and extracted with _extract hash identically and keep the audit file
#  * rejection: every truncation length (small artifact) and sampled bit flips either fail or still reproduce the tree
#  * confinement: a grammar of hostile members (.., absolute, symlink-then-write, hard links to outside/absolute/../,
#    unknown top-level entries, wrong/missing version, missing audit) never creates or modifies anything outside the
#    target workspace and the audit file
import os, io, sys, random, shutil, tempfile, tarfile, gzip, stat, time

def snapshot(root, skip=()):
    out = {}
    for dp, ds, fs in os.walk(root):
        for n in ds + fs:
            p = os.path.join(dp, n)
            if any(os.path.commonpath([p, s]) == s for s in skip): continue
            st = os.lstat(p)
            out[os.path.relpath(p, root)] = (stat.S_IFMT(st.st_mode), os.readlink(p) if os.path.islink(p) else (open(p, 'rb').read() if os.path.isfile(p) else None))
    return out

def gen_tree(rnd, root):
    os.makedirs(root)
    names = ['a', 'b.txt', 'sub', 'ü-ñ', 'sp ace', "q'uote", 'd$ollar', 'empty']
    files = []
    def fill(d, depth):
        for n in rnd.sample(names, rnd.randint(1, 4)):
            p = os.path.join(d, n); k = rnd.random()
            if k < .25 and depth < 2:
                os.mkdir(p)
                if n != 'empty': fill(p, depth + 1)
                if rnd.random() < .4: os.chmod(p, rnd.choice([0o1777, 0o2775, 0o750]))
            elif k < .4: os.symlink(rnd.choice(['a', '../b.txt', '/etc/hostname', 'nowhere', 'sub', '.', '../sibling_dir', '../../sibling_dir', '/tmp']), p)
            elif k < .5 and files: os.link(rnd.choice(files), p)
            else:
                with open(p, 'wb') as f: f.write(rnd.choice([b'', b'x', b'hello\n', os.urandom(300)]))
                os.chmod(p, rnd.choice([0o644, 0o755, 0o600, 0o444, 0o4755, 0o2755, 0o6711, 0o1644])); files.append(p)       # set-uid/set-gid/sticky bits are content too
    fill(root, 0)

def mk_helper():
    from bob.archive import TarHelper
    return TarHelper()

def fidelity_case(rnd, base):
    from bob.utils import hashDirectory
    src = os.path.join(base, 'src'); gen_tree(rnd, src)
    # links may leave the tree: what they point to exists where the package was built and not where it is extracted
    sib = os.path.join(base, 'sibling_dir'); os.makedirs(sib); open(os.path.join(sib, 'f'), 'w').write('outside')
    os.symlink('../sibling_dir', os.path.join(src, 'link-out')) if not os.path.lexists(os.path.join(src, 'link-out')) and rnd.random() < .5 else None
    h_with = hashDirectory(src); shutil.rmtree(sib); h_without = hashDirectory(src); os.makedirs(sib)
    if h_with != h_without: return {'kind': 'directory-hash-depends-on-what-a-symlink-points-to-outside-the-tree'}
    audit = os.path.join(base, 'audit.json.gz')
    from bob.utils import hashDirectory as _hd
    with gzip.open(audit, 'wb') as f: f.write(('{"artifact": {"result-hash": "%s"}, "references": []}' % _hd(src).hex()).encode())
    art = os.path.join(base, 'art.tgz')
    h = mk_helper()
    h._pack(art, None, audit, src)
    dst = os.path.join(base, 'ws', 'content'); daudit = os.path.join(base, 'ws', 'audit.json.gz'); os.makedirs(os.path.dirname(dst))
    with open(art, 'rb') as f: h._extract(f, daudit, dst)
    if hashDirectory(src) != hashDirectory(dst): return {'kind': 'pack-extract-changes-directory-hash'}
    if open(audit, 'rb').read() != open(daudit, 'rb').read(): return {'kind': 'audit-changed'}
    # the same location is used again: an artifact WITHOUT audit trail must not inherit the trail of the previous download
    raw = gzip.decompress(open(art, 'rb').read()); out_ = io.BytesIO()
    with tarfile.open(fileobj=io.BytesIO(raw), mode='r:') as src_t:
        with tarfile.open(fileobj=out_, mode='w', format=tarfile.PAX_FORMAT, pax_headers=dict(src_t.pax_headers)) as t2:
            for m in src_t:
                if m.name == 'meta/audit.json.gz': continue
                t2.addfile(m, src_t.extractfile(m) if m.isreg() else None)
    try: h._extract(io.BytesIO(gzip.compress(out_.getvalue())), daudit, dst)
    except Exception: pass
    if os.path.exists(daudit): return {'kind': 'artifact-without-audit-trail-accepted-with-the-trail-of-an-earlier-download'}
    # corruption: a truncated / bit-flipped artifact is accepted only if the extracted content still matches the
    # result hash recorded in its audit trail (the verification of builder._downloadPackage, emulated here)
    data = open(art, 'rb').read(); good = hashDirectory(src)
    for cut in range(0, len(data), max(1, len(data) // 40)):
        r = try_extract(h, data[:cut], base)
        if r is not None and r[0] != good and r[1]: return {'kind': 'truncated-artifact-accepted-with-different-content', 'length': cut, 'of': len(data)}
    for _ in range(20):
        i = rnd.randrange(len(data)); d2 = bytearray(data); d2[i] ^= 1 << rnd.randrange(8)
        r = try_extract(h, bytes(d2), base)
        if r is not None and r[0] != good and r[1]: return {'kind': 'bit-flipped-artifact-accepted-with-different-content', 'offset': i}
    return None

def try_extract(h, data, base):
    """extract like builder._downloadPackage does; returns content hash if accepted, None if rejected"""
    from bob.utils import hashDirectory
    from bob.errors import BuildError
    dst = os.path.join(base, 'x', 'content'); daudit = os.path.join(base, 'x', 'audit.json.gz')
    shutil.rmtree(os.path.join(base, 'x'), ignore_errors=True); os.makedirs(os.path.dirname(dst))
    try:
        h._extract(io.BytesIO(data), daudit, dst)
    except (BuildError, OSError, tarfile.TarError, EOFError, gzip.BadGzipFile, Exception):
        return None
    if not os.path.exists(daudit): return None      # builder rejects a download without audit trail
    h_ = hashDirectory(dst)
    try: recorded = gzip.decompress(open(daudit, 'rb').read()).decode().split('"result-hash": "')[1][:40]
    except Exception: return (h_, False)
    return (h_, recorded == h_.hex())

def hostile_members(outside):
    """each case: list of (name, kind, payload/linkname), pax version"""
    T = tarfile
    yield 'dotdot', [('content/../../victim.txt', T.REGTYPE, b'PWNED')], '1'
    yield 'absolute', [('content//' + outside + '/victim.txt', T.REGTYPE, b'PWNED')], '1'
    yield 'absolute-top', [(outside + '/victim.txt', T.REGTYPE, b'PWNED')], '1'
    yield 'symlink-then-write', [('content/lnk', T.SYMTYPE, outside), ('content/lnk/victim.txt', T.REGTYPE, b'PWNED')], '1'
    yield 'hardlink-dotdot', [('content/x', T.LNKTYPE, 'content/../../victim.txt'), ('content/x', T.REGTYPE, b'PWNED')], '1'
    yield 'hardlink-absolute', [('content/x', T.LNKTYPE, 'content/' + outside + '/victim.txt'), ('content/x', T.REGTYPE, b'PWNED')], '1'
    yield 'hardlink-no-prefix', [('content/x', T.LNKTYPE, outside + '/victim.txt'), ('content/x', T.REGTYPE, b'PWNED')], '1'
    yield 'hardlink-padded', [('content/x', T.LNKTYPE, 'PADDING8' + outside + '/victim.txt'), ('content/x', T.REGTYPE, b'PWNED')], '1'
    yield 'sibling-prefix', [('content/../content.old/injected', T.REGTYPE, b'PWNED')], '1'
    yield 'unknown-top-level', [('evil/file', T.REGTYPE, b'x')], '1'
    yield 'wrong-version', [('content/f', T.REGTYPE, b'x')], '2'
    yield 'no-version', [('content/f', T.REGTYPE, b'x')], None
    yield 'device', [('content/dev', T.CHRTYPE, None)], '1'
    yield 'audit-escape', [('meta/../../victim.txt', T.REGTYPE, b'PWNED')], '1'

def hostile_case(label, members, vsn, base):
    from bob.errors import BuildError
    outside = os.path.join(base, 'outside'); os.makedirs(outside, exist_ok=True)
    victim = os.path.join(outside, 'victim.txt')
    with open(victim, 'w') as f: f.write('ORIGINAL')
    wsdir = os.path.join(base, 'proj', 'ws'); os.makedirs(wsdir)
    with open(os.path.join(base, 'proj', 'victim.txt'), 'w') as f: f.write('ORIGINAL')
    dst = os.path.join(wsdir, 'content'); daudit = os.path.join(wsdir, 'audit.json.gz')
    buf = io.BytesIO()
    with gzip.GzipFile(fileobj=buf, mode='wb') as gz:
        with tarfile.open(None, 'w', fileobj=gz, format=tarfile.PAX_FORMAT, pax_headers=({'bob-archive-vsn': vsn} if vsn else {})) as tar:
            a = gzip.compress(b'{}'); ti = tarfile.TarInfo('meta/audit.json.gz'); ti.size = len(a); tar.addfile(ti, io.BytesIO(a))
            for name, kind, payload in members:
                ti = tarfile.TarInfo(name); ti.type = kind
                if kind in (tarfile.SYMTYPE, tarfile.LNKTYPE): ti.linkname = payload; tar.addfile(ti)
                elif kind == tarfile.REGTYPE: ti.size = len(payload); tar.addfile(ti, io.BytesIO(payload))
                else: tar.addfile(ti)
    before = snapshot(base, skip=(dst, daudit))
    h = mk_helper(); err = None
    try:
        h._extract(io.BytesIO(buf.getvalue()), daudit, dst)
    except BuildError as e: err = 'BuildError'
    except Exception as e: err = repr(e)
    after = snapshot(base, skip=(dst, daudit))
    if before != after:
        changed = sorted(k for k in set(before) | set(after) if before.get(k) != after.get(k))
        return {'kind': 'extraction-escaped-the-workspace', 'case': label, 'changed_outside': changed[:5], 'result': err or 'accepted'}
    if err is not None and err != 'BuildError' and not err.startswith(('OSError', 'PermissionError', 'FileNotFoundError', 'tarfile')):
        return {'kind': 'internal-exception-on-hostile-archive', 'case': label, 'observed': err}
    if label in ('unknown-top-level', 'wrong-version', 'no-version') and err is None:
        return {'kind': 'invalid-artifact-accepted', 'case': label}
    return None

def replay(rep):
    seed = int(os.environ.get('VERIF_SEED', '0') or 0); rnd = random.Random(seed)
    tried = 0; distinct = set(); samples = []
    base0 = tempfile.mkdtemp(prefix='c08-')
    try:
        outside_probe = os.path.join(base0, 'h0', 'outside')
        for label, members, vsn in hostile_members('OUTSIDE'):
            base = os.path.join(base0, 'h-' + label); os.makedirs(base)
            real_members = [(n.replace('OUTSIDE', os.path.join(base, 'outside')), k, (p.replace('OUTSIDE', os.path.join(base, 'outside')) if isinstance(p, str) else p)) for n, k, p in members]
            tried += 1; distinct.add(label)
            w = hostile_case(label, real_members, vsn, base)
            if w is not None: return {'reproduced': True, 'tried': tried, 'witness': w}
        n = 30 if os.environ.get('VERIF_TIER') == 'thorough' else 8
        for i in range(n):
            base = os.path.join(base0, 'f%d' % i); os.makedirs(base)
            tried += 1; distinct.add(('tree', i))
            w = fidelity_case(rnd, base)
            if w is not None: return {'reproduced': True, 'tried': tried, 'witness': w}
            shutil.rmtree(base, ignore_errors=True)
        # whole-builder view: a content-mismatching artifact in the archive is never accepted as a package result, not even
        # by a later invocation (shared scenario with C07)
        try:
            from replay import C07
            w, hist = C07.corrupt_artifact(); tried += 1
            if w is not None: return {'reproduced': True, 'tried': tried, 'witness': w}
        except ImportError: pass
        samples = [{'hostile_case': l} for l, _, _ in list(hostile_members('X'))[:3]]
    finally:
        shutil.rmtree(base0, ignore_errors=True)
    return {'reproduced': False, 'tried': tried, 'distinct': len(distinct), 'samples': samples,
            'bound': '14 hostile member shapes; tampered artifacts through real bob dev --download runs (twice); %d generated trees (<= 3 levels) each with ~60 truncation lengths and 25 bit flips' % n,
            'detail': 'pack/extract preserved the directory hash and audit; corrupted artifacts were rejected or unchanged; nothing outside the workspace was touched'}
