# Native replay for C19: drives the real bob.cmds.archive.query()/RetainExpression with concrete archives
# and checks the result against the documented meaning (executable form of the contract).
import itertools, random, os

def order_ok(asc, a, b):
    """element with key a may stand in front of element with key b (missing keys last)"""
    if b is None: return True
    if a is None: return False
    return a <= b if asc else a >= b

def valid_retention(selected, retained, limit, asc):
    """retained is an admissible LIMIT selection of `selected` (list of (bid, key))"""
    ids = [b for b, _ in selected]
    if limit is None: return set(retained) == set(ids), 'unlimited: all selected are retained'
    if not set(retained) <= set(ids): return False, 'retained contains an artifact that was not selected'
    if len(set(retained)) != min(limit, len(ids)): return False, 'number retained != min(LIMIT, matches)'
    keys = dict(selected)
    for r in retained:
        for s in ids:
            if s in retained: continue
            if not order_ok(asc, keys[r], keys[s]): return False, 'dropped %r sorts before kept %r' % (s, r)
    return True, ''

class FakeScanner:
    def __init__(self, arts): self.arts = arts
    def getBuildIds(self): return [b for b, _ in self.arts]
    def getVars(self, bid): return dict(self.arts)[bid]

def run_case(arts, limit, asc, order_field=True):
    from bob.cmds.archive import query
    expr = 'meta.sel == "1"'
    if limit is not None:
        expr += ' LIMIT %d' % limit
        if order_field: expr += ' ORDER BY meta.k' + ('' if asc is None else (' ASC' if asc else ' DESC'))      # no direction given: descending
    res = query(FakeScanner(arts), [expr])
    selected = [(b, d.get('meta', {}).get('k') if order_field else d.get('build', {}).get('date')) for b, d in arts if d['meta'].get('sel') == '1']
    ok, why = valid_retention(selected, res, limit, bool(asc) if order_field else False)
    return ok, why, expr, res

def gen_cases(seed, budget):
    keys = [None, 'a', 'b', 'c']
    # exhaustive small scope first
    for n in range(1, 5):
        for ks in itertools.product(keys, repeat=n):
            for sel in itertools.product('10', repeat=n) if n <= 3 else [tuple('1' * n)]:
                arts = []
                for i, (k, s) in enumerate(zip(ks, sel)):
                    meta = {'sel': s}
                    if k is not None: meta['k'] = k
                    # (the default sort field build.date orders the artifacts the other way round than meta.k)
                    arts.append((bytes([i + 1]) * 20, {'meta': meta, 'build': ({'date': {'a': 'c', 'b': 'b', 'c': 'a'}[k]} if k is not None else {})}))
                for limit in (None, 1, 2, 3):
                    for asc in (False, True, None):
                        yield arts, limit, asc, True
                    yield arts, limit, False, False
    rnd = random.Random(seed)
    for _ in range(budget):
        n = rnd.randint(3, 8)
        arts = []
        for i in range(n):
            k = rnd.choice([None, 'a', 'b', 'c', 'd', 'ab'])
            meta = {'sel': rnd.choice('1110')}
            if k is not None: meta['k'] = k
            dk = rnd.choice([None, 'a', 'b', 'c', 'd', 'ab'])
            arts.append((bytes([i + 1]) * 20, {'meta': meta, 'build': ({'date': dk} if dk is not None else {})}))
        yield arts, rnd.choice([None, 1, 2, 3, 4]), rnd.choice([True, False, None]), rnd.random() < .8

def multi_expression_case(rnd):
    """two expressions over one archive (distinct keys, so every LIMIT selection is unique): result must be the union"""
    from bob.cmds.archive import query
    n = rnd.randint(3, 6)
    keys = rnd.sample(['a', 'b', 'c', 'd', 'e', 'f', 'g'], n)
    arts = [(bytes([i + 1]) * 20, {'meta': {'sel': '1', 'k': keys[i], 'rel': rnd.choice(['yes', 'no'])}, 'build': {'date': keys[i]}}) for i in range(n)]
    rnd.shuffle(arts)
    lim = rnd.randint(1, 2); asc = rnd.random() < .5
    exprs = ['meta.sel == "1" LIMIT %d ORDER BY meta.k %s' % (lim, 'ASC' if asc else 'DESC'), 'meta.rel == "yes"']
    if rnd.random() < .5: exprs.reverse()
    res = query(FakeScanner(arts), exprs)
    srt = sorted(arts, key=lambda a: a[1]['meta']['k'], reverse=not asc)
    expect = {b for b, d in srt[:lim]} | {b for b, d in arts if d['meta']['rel'] == 'yes'}
    if set(res) != expect:
        return {'kind': 'union-of-expressions', 'archive': [(b.hex(), d) for b, d in arts], 'expressions': exprs,
                'observed_retained': sorted(x.hex() for x in res), 'expected': sorted(x.hex() for x in expect)}
    return None

def replay(rep):
    import time
    seed = int(os.environ.get('VERIF_SEED', '0') or 0)
    budget = float(os.environ.get('VERIF_BOUNDED_BUDGET', '30')); t0 = time.time()
    tried = 0
    rnd = random.Random(seed)
    for _ in range(150):
        tried += 1
        w = multi_expression_case(rnd)
        if w is not None: return {'reproduced': True, 'tried': tried, 'witness': w}
    for arts, limit, asc, of in gen_cases(seed, 3000):
        if time.time() - t0 > budget: break
        tried += 1
        try:
            ok, why, expr, res = run_case(arts, limit, asc, of)
        except Exception as ex:
            return {'reproduced': True, 'witness': {'archive': [(b.hex(), d) for b, d in arts], 'expression_limit': limit, 'asc': asc,
                    'observed': 'internal exception %r' % (ex,)}, 'tried': tried}
        if not ok:
            return {'reproduced': True, 'tried': tried,
                    'witness': {'archive': [(b.hex(), d) for b, d in arts], 'expression': expr,
                                'observed_retained': sorted(x.hex() for x in res), 'why': why}}
    return {'reproduced': False, 'tried': tried, 'detail': 'no concrete archive up to the search bound violates the documented retention meaning'}

# ---------------------------------------------------------------------------------------------
# archive level: real artifacts on disk, real `bob archive` commands, histories of adding/removing
# artifacts between scans; the result must not depend on the state of the scan index (warm/stale/fresh)
# and must equal "everything except the selected artifacts and what they transitively reference".
import contextlib, gzip, io, json, tarfile, tempfile, shutil

def _hex(n): return '{:02x}'.format(n) * 20
def _apath(h): return os.path.join(h[0:2], h[2:4], h[4:] + '-1.tgz')
def _record(h, pkg, date):
    return {'variant-id': '11' * 20, 'build-id': h, 'artifact-id': h[::-1], 'result-hash': '22' * 20,
            'meta': {'package': pkg, 'recipe': pkg, 'step': 'dist'},
            'build': {'sysname': 'Linux', 'nodename': 'n', 'release': '1', 'version': '1', 'machine': 'x', 'date': date},
            'env': '', 'scms': [], 'dependencies': {}}
def _write(root, rec, refs):
    rec = dict(rec)
    if refs: rec['dependencies'] = {'args': [r['artifact-id'] for r in refs]}
    audit = gzip.compress(json.dumps({'artifact': rec, 'references': list(refs)}).encode())
    name = os.path.join(root, _apath(rec['build-id'])); os.makedirs(os.path.dirname(name), exist_ok=True)
    with gzip.open(name, 'wb') as gzf:
        with tarfile.open(None, 'w', fileobj=gzf, format=tarfile.PAX_FORMAT, pax_headers={'bob-archive-vsn': '1'}) as tar:
            info = tarfile.TarInfo('meta/audit.json.gz'); info.size = len(audit); tar.addfile(info, io.BytesIO(audit))
            info = tarfile.TarInfo('content'); info.type = tarfile.DIRTYPE; tar.addfile(info)
def _listing(root):
    out = set()
    for dp, ds, fs in os.walk(root):
        for f in fs:
            if f.endswith('-1.tgz'): out.add(os.path.relpath(os.path.join(dp, f), root))
    return out
def _bob(*args):
    from bob.cmds.archive import doArchive
    out = io.StringIO()
    with contextlib.redirect_stdout(out), contextlib.redirect_stderr(io.StringIO()):
        doArchive(['-l'] + list(args), None)
    return [l.strip() for l in out.getvalue().splitlines() if l.strip() and not l.startswith('archive ')]

def archive_history(rnd, steps=10, template=None):
    root = tempfile.mkdtemp(prefix='c19-'); old = os.getcwd(); os.chdir(root)
    try:
        script = None
        if template is not None:
            # directed histories: (1) reference to an artifact that is uploaded later, (2) artifact removed behind
            # the index's back, (3) artifact re-uploaded with different references
            script = {1: [('add', 0), ('add', 3), ('clean', 0), ('add', 1), ('check', 0)],
                      2: [('add', 0), ('add', 1), ('scan',), ('remove', 1), ('check', 0), ('check', 1)],
                      3: [('add', 0), ('add', 1), ('add', 2), ('scan',), ('readd', 0), ('check', 0)]}[template]
        pkgs = ['app', 'lib', 'tool', 'junk']
        recs = {}; refs = {}
        for i in range(1, 6):
            h = _hex(0xa0 + i); recs[h] = _record(h, rnd.choice(pkgs), '2024-0%d-01' % i)
        ids = sorted(recs)
        for h in ids: refs[h] = [recs[x] for x in rnd.sample([y for y in ids if y != h], rnd.randint(1, 2))] if rnd.random() < .7 else []
        present = set(); log = []
        if script is not None:
            # artifact 0 ('app') references 1 ('lib') and 2 ('tool'); 3 is junk
            for i, p in enumerate(['app', 'lib', 'tool', 'junk']): recs[ids[i]]['meta']['package'] = recs[ids[i]]['meta']['recipe'] = p
            refs[ids[0]] = [recs[ids[1]], recs[ids[2]]]; refs[ids[1]] = []; refs[ids[2]] = []; refs[ids[3]] = []
            steps = len(script)
        for step in range(steps):
            op = rnd.choice(['add', 'add', 'add', 'remove', 'clean', 'clean', 'scan', 'check'])
            forced = None; forced_expr = None
            if script is not None:
                op = script[step][0]
                if op in ('add', 'remove', 'readd'): forced = ids[script[step][1]]
                if op in ('clean', 'check'): forced_expr = 'meta.package == "%s"' % recs[ids[script[step][1]]]['meta']['package']
                if op == 'readd':
                    refs[forced] = [recs[ids[1]]]; op = 'add'
            if op == 'add':
                h = forced or rnd.choice(ids); _write(root, recs[h], refs[h]); present.add(h); log.append(('add', h[:2], [r['build-id'][:2] for r in refs[h]]))
            elif op == 'remove' and present:
                h = forced or rnd.choice(sorted(present)); os.unlink(_apath(h)); present.discard(h); log.append(('remove-externally', h[:2]))
            elif op == 'scan': _bob('scan'); log.append(('scan',))
            else:
                expr = forced_expr or 'meta.package == "%s"' % rnd.choice(pkgs)
                if forced_expr is None and rnd.random() < .4: expr += ' LIMIT 1'
                # oracle: selection and closure computed from the audit data of the artifacts that are present
                sel = [h for h in sorted(present) if recs[h]['meta']['package'] in expr]
                if 'LIMIT' in expr: sel = sorted(sel, key=lambda h: recs[h]['build']['date'], reverse=True)[:1]
                keep = set(sel); todo = list(sel)
                while todo:
                    h = todo.pop()
                    if h not in present: continue      # references of an artifact that is not in the archive are unknown
                    for r in refs[h]:
                        b = r['build-id']
                        if b not in keep: keep.add(b); todo.append(b)
                expect_del = {_apath(h) for h in present if h not in keep}
                warm = set(_bob('clean', '--dry-run', expr))
                if _listing(root) != {_apath(h) for h in present}:
                    return {'kind': 'dry-run-deleted', 'history': log, 'expression': expr}
                if os.path.exists('.bob-archive.sqlite3'): os.rename('.bob-archive.sqlite3', '.warm')
                fresh = set(_bob('clean', '--dry-run', expr))
                os.unlink('.bob-archive.sqlite3')
                if os.path.exists('.warm'): os.rename('.warm', '.bob-archive.sqlite3')
                log.append(('clean --dry-run', expr))
                if warm != fresh:
                    return {'kind': 'index-dependent', 'history': log, 'expression': expr, 'warm_index_would_delete': sorted(warm), 'fresh_index_would_delete': sorted(fresh)}
                if fresh != expect_del:
                    return {'kind': 'retention-meaning', 'history': log, 'expression': expr, 'would_delete': sorted(fresh), 'expected': sorted(expect_del), 'present': sorted(x[:2] for x in present), 'selected': [x[:2] for x in sel], 'keep': sorted(x[:2] for x in keep)}
                found = set(_bob('find', expr))
                if found != {_apath(h) for h in sel}:
                    return {'kind': 'find-lists-selected', 'history': log, 'expression': expr, 'found': sorted(found), 'expected': sorted(_apath(h) for h in sel)}
                if op == 'clean':
                    _bob('clean', expr); present = {h for h in present if h in keep}; log.append(('clean', expr))
                    if _listing(root) != {_apath(h) for h in present}:
                        return {'kind': 'clean-result', 'history': log, 'expression': expr, 'left': sorted(_listing(root)), 'expected': sorted(_apath(h) for h in present)}
        return None
    finally:
        os.chdir(old); shutil.rmtree(root, ignore_errors=True)

_single_replay = replay
def replay(rep):
    import time
    seed = int(os.environ.get('VERIF_SEED', '0') or 0)
    budget = float(os.environ.get('VERIF_BOUNDED_BUDGET', '30')); t0 = time.time()
    r = _single_replay(rep)
    if r.get('reproduced'): return r
    rnd = random.Random(seed + 1); n = 0
    while time.time() - t0 < budget * 2 and n < 400:
        n += 1
        try: w = archive_history(rnd, template=n if n <= 3 else None)
        except Exception as ex:
            import traceback
            w = {'kind': 'internal-exception', 'observed': repr(ex), 'trace': traceback.format_exc()[-600:]}
        if w is not None: return {'reproduced': True, 'tried': r.get('tried', 0) + n, 'witness': w}
    r['tried'] = r.get('tried', 0) + n
    r['detail'] = (r.get('detail') or '') + '; %d archive histories (warm vs fresh index, closure oracle) agree' % n
    return r
