# Native replay for C19: drives the real bob.cmds.archive.query()/RetainExpression with concrete archives
# and checks the result against the documented meaning (executable form of the contract).
import itertools, random, os

def order_ok(asc, a, b):
    """element with key a may stand in front of element with key b (missing keys last)"""
    if b is None: return True
    if a is None: return False
    return a <= b if asc else a >= b

def valid_retention(selected, retained, limit, asc):
    """retained is an admissible LIMIT selection of `selected` (list of (bid, key))"""
    ids = [b for b, _ in selected]
    if limit is None: return set(retained) == set(ids), 'unlimited: all selected are retained'
    if not set(retained) <= set(ids): return False, 'retained contains an artifact that was not selected'
    if len(set(retained)) != min(limit, len(ids)): return False, 'number retained != min(LIMIT, matches)'
    keys = dict(selected)
    for r in retained:
        for s in ids:
            if s in retained: continue
            if not order_ok(asc, keys[r], keys[s]): return False, 'dropped %r sorts before kept %r' % (s, r)
    return True, ''

class FakeScanner:
    def __init__(self, arts): self.arts = arts
    def getBuildIds(self): return [b for b, _ in self.arts]
    def getVars(self, bid): return dict(self.arts)[bid]

def run_case(arts, limit, asc, order_field=True):
    from bob.cmds.archive import query
    expr = 'meta.sel == "1"'
    if limit is not None:
        expr += ' LIMIT %d' % limit
        if order_field: expr += ' ORDER BY meta.k ' + ('ASC' if asc else 'DESC')
    res = query(FakeScanner(arts), [expr])
    selected = [(b, d.get('meta', {}).get('k') if order_field else d.get('build', {}).get('date')) for b, d in arts if d['meta'].get('sel') == '1']
    ok, why = valid_retention(selected, res, limit, asc if order_field else False)
    return ok, why, expr, res

def gen_cases(seed, budget):
    keys = [None, 'a', 'b', 'c']
    # exhaustive small scope first
    for n in range(1, 5):
        for ks in itertools.product(keys, repeat=n):
            for sel in itertools.product('10', repeat=n) if n <= 3 else [tuple('1' * n)]:
                arts = []
                for i, (k, s) in enumerate(zip(ks, sel)):
                    meta = {'sel': s}
                    if k is not None: meta['k'] = k
                    arts.append((bytes([i + 1]) * 20, {'meta': meta, 'build': ({'date': k} if k is not None else {})}))
                for limit in (None, 1, 2, 3):
                    for asc in (False, True):
                        yield arts, limit, asc, True
                    yield arts, limit, False, False
    rnd = random.Random(seed)
    for _ in range(budget):
        n = rnd.randint(3, 8)
        arts = []
        for i in range(n):
            k = rnd.choice([None, 'a', 'b', 'c', 'd', 'ab'])
            meta = {'sel': rnd.choice('1110')}
            if k is not None: meta['k'] = k
            arts.append((bytes([i + 1]) * 20, {'meta': meta, 'build': ({'date': k} if k is not None else {})}))
        yield arts, rnd.choice([None, 1, 2, 3, 4]), rnd.random() < .5, rnd.random() < .8

def replay(rep):
    seed = int(os.environ.get('VERIF_SEED', '0') or 0)
    tried = 0
    for arts, limit, asc, of in gen_cases(seed, 3000):
        tried += 1
        try:
            ok, why, expr, res = run_case(arts, limit, asc, of)
        except Exception as ex:
            return {'reproduced': True, 'witness': {'archive': [(b.hex(), d) for b, d in arts], 'expression_limit': limit, 'asc': asc,
                    'observed': 'internal exception %r' % (ex,)}, 'tried': tried}
        if not ok:
            return {'reproduced': True, 'tried': tried,
                    'witness': {'archive': [(b.hex(), d) for b, d in arts], 'expression': expr,
                                'observed_retained': sorted(x.hex() for x in res), 'why': why}}
    return {'reproduced': False, 'tried': tried, 'detail': 'no concrete archive up to the search bound violates the documented retention meaning'}
