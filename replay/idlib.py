# Shared by the native searches for C02 and C03: recipe generator with declared strong/weak variables, classes,
# tools and a git SCM, and a query that dumps for every step what its Variant-Id is made of.
import os, sys, json, subprocess, random, copy, tempfile, shutil
from replay import projlib as P

QUERY2 = r"""
import json, sys, os
from bob.input import RecipeSet
rs = RecipeSet()
rs.parse({})
pkgs = rs.generatePackages(lambda s,p: "unused", sys.argv[1] == '1')
out = {}
def visit(p, path):
    key = "/".join(path)
    if key in out: return
    rec = {'recipe': p.getRecipe().getName(), 'steps': {}}
    for s in (p.getCheckoutStep(), p.getBuildStep(), p.getPackageStep()):
        if not s.isValid(): continue
        cs = s._coreStep
        rec['steps'][s.getLabel()] = {'vid': s.getVariantId().hex(), 'env': dict(s.getEnv()), 'digestEnv': dict(cs.digestEnv),
            'digestScript': s.getDigestScript(), 'script': s.getScript(),
            'args': [a.getVariantId().hex() for a in s.getArguments() if a.isValid()],
            'tools': [[n, t.getStep().getVariantId().hex(), t.getPath(), list(t.getLibs())] for n, t in sorted(s.getTools().items())],
            'sandbox': s.getSandbox() is not None, 'weakTools': sorted(cs.toolDepWeak)}
    rec['deps'] = []
    for d in p.getDirectDepSteps():
        dp = d.getPackage(); rec['deps'].append(dp.getName()); visit(dp, path + [dp.getName()])
    out[key] = rec
for r in pkgs.getRootPackage().getDirectDepSteps():
    visit(r.getPackage(), [r.getPackage().getName()])
json.dump(out, sys.stdout)
"""

def query(p, sandbox=False, env=None):
    e = dict(p.env)
    if env: e.update(env)
    r = subprocess.run([P.PY, '-c', QUERY2, '1' if sandbox else '0'], cwd=p.dir, capture_output=True, text=True, env=e, timeout=120)
    if r.returncode != 0: raise RuntimeError('query failed: ' + r.stderr[-600:])
    return json.loads(r.stdout)

VARS = ['VA', 'VB', 'VC', 'VD', 'VE']
LISTS = ['checkoutVars', 'checkoutVarsWeak', 'buildVars', 'buildVarsWeak', 'packageVars', 'packageVarsWeak']

def gen(rnd):
    """recipes r0 (root) .. rn, optional class, optional tool provider, optional git checkout; every recipe sets VA..VE"""
    n = rnd.randint(2, 4); R = {}; files = {}; inc_user = None
    for i in range(n):
        name = 'r%d' % i; r = {}
        if i == 0: r['root'] = True
        deps = ['r%d' % j for j in range(i + 1, n) if rnd.random() < .6]
        if i == 0 and not deps and n > 1: deps = ['r1']
        if deps: r['depends'] = deps
        r['environment'] = {v: '%s-%d' % (v.lower(), rnd.randint(0, 2)) for v in VARS}
        for l in LISTS:
            if rnd.random() < .45: r[l] = sorted(rnd.sample(VARS, rnd.randint(1, 2)))
        if rnd.random() < .6:
            r['checkoutDeterministic'] = True; r['checkoutScript'] = 'echo src-%s > s.txt\n' % name
        elif rnd.random() < .4:
            r['checkoutSCM'] = {'scm': 'git', 'url': 'https://example.invalid/%s.git' % name, 'branch': 'main', 'dir': 'src'}
        r['buildScript'] = 'echo build-%s\n' % name
        r['packageScript'] = 'echo package-%s\n' % name
        if rnd.random() < .3: r['provideVars'] = {'PV%d' % i: 'p-${VA}'}
        R[name] = r
    if rnd.random() < .5:
        files['classes/c0.yaml'] = 'buildScript: |\n  echo from-class-c0\npackageScript: |\n  echo pkg-from-class\n'
        for nm in rnd.sample(sorted(R), rnd.randint(1, len(R))): R[nm]['inherit'] = ['c0']
    if rnd.random() < .6:
        # included files: all three include modes; the content of an included file is part of what the step executes
        nm = rnd.choice(sorted(R))
        files['recipes/inc_lit.txt'] = 'literal-1'; files['recipes/inc_file.txt'] = 'file-1\n'; files['recipes/inc_glob_a.txt'] = 'glob-a-1\n'
        R[nm]['buildScript'] += "L=$<'inc_lit.txt'>\ncat $<<inc_file.txt>> > /dev/null\nfor i in $<@inc_glob_*.txt@> ; do cat $i > /dev/null ; done\n"
        inc_user = nm
    if rnd.random() < .6:
        R['tool'] = {'buildScript': 'echo tool\n', 'packageScript': 'mkdir -p bin lib lib64; echo tool\n', 'provideTools': {'gen': {'path': 'bin', 'libs': ['lib', 'lib64']}}}
        for nm in rnd.sample([x for x in sorted(R) if x != 'tool'], rnd.randint(1, 2)):
            R[nm].setdefault('depends', []).append({'name': 'tool', 'use': ['tools']})
            R[nm][rnd.choice(['buildTools', 'packageTools', 'buildToolsWeak', 'checkoutToolsWeak', 'packageToolsWeak'])] = ['gen']
    return {'recipes': R, 'config': {}, 'files': files, 'include_user': inc_user}

def expected_vars(recipe):
    """documented carry-forward: a variable consumed by a step is also set in the following steps"""
    g = lambda k: set(recipe.get(k, []))
    strong = {'src': g('checkoutVars')}; weak = {'src': g('checkoutVarsWeak')}
    strong['build'] = strong['src'] | g('buildVars'); weak['build'] = weak['src'] | g('buildVarsWeak')
    strong['dist'] = strong['build'] | g('packageVars'); weak['dist'] = weak['build'] | g('packageVarsWeak')
    return strong, weak

def check_weak_tools(model, q, log):
    """a tool is weak in a step (only its name enters the Build-Id) exactly if it is declared weak in that step or an earlier
    one of the package and not declared strong in any of them"""
    for key, rec in q.items():
        r = model['recipes'].get(rec['recipe'])
        if r is None or not rec['recipe'].startswith('r'): continue
        strong = set(); weak = set()
        for label, sk, wk in (('src', 'checkoutTools', 'checkoutToolsWeak'), ('build', 'buildTools', 'buildToolsWeak'), ('dist', 'packageTools', 'packageToolsWeak')):
            strong |= set(r.get(sk, [])); weak |= set(r.get(wk, []))
            s = rec['steps'].get(label)
            if s is None: continue
            avail = {t[0] for t in s['tools']}
            want = sorted((weak - strong) & avail)
            if sorted(set(s['weakTools']) & avail) != want:
                return {'kind': 'weakly-used-tools-of-a-step-are-not-the-declared-ones', 'package': key, 'step': label, 'weak_in_build_id': s['weakTools'], 'declared_weak_not_strong': want,
                        'what': 'a weakly used tool that is treated as strong makes the Build-Id depend on the installed tool variant', 'history': log}
    return None

# single edits: (description, function(model, rnd) -> recipe name whose ids must change or None if not applicable, relevant labels)
def edits():
    def pick(m, rnd, pred=lambda r: True):
        c = [n for n in sorted(m['recipes']) if n.startswith('r') and pred(m['recipes'][n])]
        return rnd.choice(c) if c else None
    def e_script(m, rnd):
        n = pick(m, rnd); m['recipes'][n]['buildScript'] += 'echo more\n'; return n, ['build', 'dist']
    def e_pkg_script(m, rnd):
        n = pick(m, rnd); m['recipes'][n]['packageScript'] += 'echo more\n'; return n, ['dist']
    def e_checkout_script(m, rnd):
        n = pick(m, rnd, lambda r: 'checkoutScript' in r)
        if n is None: return None, []
        m['recipes'][n]['checkoutScript'] += 'echo more >> s.txt\n'; return n, ['src', 'build', 'dist']
    def e_class_script(m, rnd):
        if 'classes/c0.yaml' not in m['files']: return None, []
        m['files']['classes/c0.yaml'] = m['files']['classes/c0.yaml'].replace('echo from-class-c0', 'echo from-class-c0 changed')
        n = pick(m, rnd, lambda r: 'c0' in r.get('inherit', [])); return n, ['build', 'dist']
    def e_setup(m, rnd):
        n = pick(m, rnd); m['recipes'][n]['buildSetup'] = 'helper() { echo h; }\n'; return n, ['build', 'dist']
    def e_fragment(key, labels):
        def f(m, rnd):
            n = pick(m, rnd, (lambda r: 'checkoutScript' in r) if key.startswith('checkout') else (lambda r: True))
            if n is None: return None, []
            m['recipes'][n][key] = m['recipes'][n].get(key, '') + 'echo %s-extra\n' % key; return n, labels
        return f
    def e_class_finalize(m, rnd):
        if 'classes/c0.yaml' not in m['files']: return None, []
        m['files']['classes/c0.yaml'] += 'buildFinalize: |\n  echo class-finalize\n'
        n = pick(m, rnd, lambda r: 'c0' in r.get('inherit', [])); return n, ['build', 'dist']
    def e_var_value(step):
        def f(m, rnd):
            key = {'src': 'checkoutVars', 'build': 'buildVars', 'dist': 'packageVars'}[step]
            n = pick(m, rnd, lambda r: r.get(key) and (step != 'src' or 'checkoutScript' in r or 'checkoutSCM' in r))
            if n is None: return None, []
            v = m['recipes'][n][key][0]; m['recipes'][n]['environment'][v] += '-changed'
            return n, {'src': ['src', 'build', 'dist'], 'build': ['build', 'dist'], 'dist': ['dist']}[step]
        return f
    def e_var_list(m, rnd):
        n = pick(m, rnd); r = m['recipes'][n]; cur = set(r.get('buildVars', [])) | set(r.get('checkoutVars', []))
        add = [v for v in VARS if v not in cur]
        if not add: return None, []
        r['buildVars'] = sorted(set(r.get('buildVars', [])) | {add[0]}); return n, ['build', 'dist']
    def e_tool_path(m, rnd):
        if 'tool' not in m['recipes']: return None, []
        m['recipes']['tool']['provideTools']['gen']['path'] = 'sbin'
        users = [n for n, r in sorted(m['recipes'].items()) if 'gen' in r.get('buildTools', []) + r.get('packageTools', [])]
        if not users: return None, []
        n = users[0]; return n, (['build', 'dist'] if 'gen' in m['recipes'][n].get('buildTools', []) else ['dist'])
    def e_tool_libs(m, rnd):
        if 'tool' not in m['recipes']: return None, []
        m['recipes']['tool']['provideTools']['gen']['libs'] = ['lib', 'lib64', 'lib32']
        users = [n for n, r in sorted(m['recipes'].items()) if 'gen' in r.get('buildTools', []) + r.get('packageTools', [])]
        if not users: return None, []
        n = users[0]; return n, (['build', 'dist'] if 'gen' in m['recipes'][n].get('buildTools', []) else ['dist'])
    def e_tool_libs_order(m, rnd):
        if 'tool' not in m['recipes']: return None, []
        t = m['recipes']['tool']
        t['provideTools']['gen']['libs'] = ['lib64', 'lib']; t['packageScript'] = 'mkdir -p bin lib lib64; echo tool\n'
        users = [n for n, r in sorted(m['recipes'].items()) if 'gen' in r.get('buildTools', []) + r.get('packageTools', [])]
        if not users: return None, []
        n = users[0]; return n, (['build', 'dist'] if 'gen' in m['recipes'][n].get('buildTools', []) else ['dist'])
    def e_dep(m, rnd):
        n = pick(m, rnd, lambda r: len([d for d in r.get('depends', []) if isinstance(d, str)]) >= 2)
        if n is None: return None, []
        ds = m['recipes'][n]['depends']; i = [k for k, d in enumerate(ds) if isinstance(d, str)][:2]
        ds[i[0]], ds[i[1]] = ds[i[1]], ds[i[0]]; return n, ['build', 'dist']      # argument ORDER is part of the id
    def e_include(fn, what):
        def f(m, rnd):
            if fn not in m['files']: return None, []
            m['files'][fn] = m['files'][fn].replace('-1', '-2')
            n = m.get('include_user'); return n, ['build', 'dist']
        return f
    def e_git(attr, val):
        def f(m, rnd):
            n = pick(m, rnd, lambda r: r.get('checkoutSCM', {}).get('scm') == 'git')
            if n is None: return None, []
            m['recipes'][n]['checkoutSCM'][attr] = val; return n, ['src', 'build', 'dist']
        return f
    def e_git_recursive_list(m, rnd):
        n = pick(m, rnd, lambda r: r.get('checkoutSCM', {}).get('scm') == 'git')
        if n is None: return None, []
        m['recipes'][n]['checkoutSCM']['submodules'] = ['a', 'b']; m['recipes'][n]['checkoutSCM']['recurseSubmodules'] = True
        return n, ['src', 'build', 'dist']
    return [('build script', e_script), ('package script', e_pkg_script), ('checkout script', e_checkout_script), ('class script', e_class_script),
            ('buildSetup added', e_setup), ('buildFinalize added', e_fragment('buildFinalize', ['build', 'dist'])), ('packageFinalize added', e_fragment('packageFinalize', ['dist'])),
            ('checkoutFinalize added', e_fragment('checkoutFinalize', ['src', 'build', 'dist'])), ('packageSetup added', e_fragment('packageSetup', ['dist'])), ('buildFinalize added to an inherited class', e_class_finalize), ('value of a checkoutVars variable', e_var_value('src')), ('value of a buildVars variable', e_var_value('build')),
            ('value of a packageVars variable', e_var_value('dist')), ('variable added to buildVars', e_var_list), ('tool path', e_tool_path), ('tool libs', e_tool_libs), ('tool libs order', e_tool_libs_order),
            ("content of a file included with $<'file'>", e_include('recipes/inc_lit.txt', 'lit')), ('content of a file included with $<<file>>', e_include('recipes/inc_file.txt', 'file')),
            ('content of a file included with $<@glob@>', e_include('recipes/inc_glob_a.txt', 'glob')),
            ('order of two dependencies', e_dep), ('git branch', e_git('branch', 'other')), ('git tag', e_git('tag', 'v1')), ('git dir', e_git('dir', 'elsewhere')),
            ('git submodules', e_git('submodules', True)), ('git url', e_git('url', 'https://example.invalid/moved.git'))]

def ids_of(q):
    return {(k, l): s['vid'] for k, rec in q.items() for l, s in rec['steps'].items()}
