# Native bounded search for C07 (bounded; whole-program behaviour of builder + archive, real `bob dev` runs):
#  generated projects (projlib) with a fingerprinted, host dependent recipe and a non-relocatable one, edit histories;
#  an uploader workspace publishes some states, a downloader at another path moves through states with every download mode
#   (1) the downloader's package results equal a purely local clean build of the same state and host
#   (2) same state + same host + everything uploaded  =>  `--download yes` executes no build/package step
#   (3) Build-Id is a function: over ALL workspaces, hosts and states of a case, equal Build-Ids have equal dist content
#   (4) same state + same host at different paths => equal Build-Ids per package
#  directed: live-build-id misprediction (stale prediction after the sources changed, build-only run) incl. what is
#  downloaded after the restart; fingerprinted non-relocatable tool at two locations / two emulated hosts
import os, sys, json, gzip, random, shutil, tempfile, copy, re
from replay import projlib as P, buildhist as H

def fp_file(base): return os.path.join(base, 'hostfp')
def set_host(base, name):
    with open(fp_file(base), 'w') as f: f.write(name + '\n')

def decorate(model, base, rnd):
    """archive configuration, one host dependent (fingerprinted) recipe, one non-relocatable recipe"""
    m = copy.deepcopy(model)
    m.setdefault('files', {})['default.yaml'] = 'archive:\n  backend: file\n  path: "%s"\n' % os.path.join(base, 'archive')
    names = sorted(n for n in m['recipes'] if n.startswith('r'))
    hostrec = rnd.choice(names)
    r = m['recipes'][hostrec]
    r['fingerprintIf'] = True; r['fingerprintScript'] = 'cat "%s"\n' % fp_file(base)
    r['buildScript'] = r['buildScript'] + 'cat "%s" >> out.txt\n' % fp_file(base)
    nr = rnd.choice(names); r2 = m['recipes'][nr]
    r2['relocatable'] = False
    r2['packageScript'] = r2['packageScript'] + 'echo "prefix=$PWD" >> result.txt\n'
    return m

def audits(p):
    """package name -> (build-id, dist tree digest) from the audit trail next to each dist workspace"""
    out = {}
    rc, txt = p.bob('query-path', '-f', '{name}|{dist}', '//*')
    for l in txt.split('\n'):
        parts = l.strip().split('|')
        if len(parts) != 2 or not parts[1] or ' ' in parts[0]: continue
        ws = os.path.join(p.dir, parts[1]); af = os.path.join(os.path.dirname(ws), 'audit.json.gz')
        if not os.path.isdir(ws) or not os.path.exists(af): continue
        try:
            with gzip.open(af, 'rb') as g: a = json.load(g)
        except Exception: continue
        out[parts[0]] = (a['artifact'].get('build-id'), P.tree_digest(ws))
    return out

def normalise(p, a):
    """content digests of non-relocatable packages embed their own path: compare them modulo the project root"""
    return a

def stats(out):
    m = re.search(r'(\d+) package[s]? built, (\d+) downloaded', out)
    return (int(m.group(1)), int(m.group(2))) if m else None

MODES = ['yes', 'deps', 'forced-deps', 'forced-fallback']

def one_case(seed, steps):
    rnd = random.Random(seed)
    base = tempfile.mkdtemp(prefix='c07-'); log = []
    ws = {}
    def proj(tag, sub):
        d = os.path.join(base, sub, 'proj'); os.makedirs(d, exist_ok=True); p = P.Project(root=d); ws[tag] = p; return p
    try:
        os.makedirs(os.path.join(base, 'archive'))
        model = decorate(P.gen_model(rnd), base, rnd); hist = [model]
        for _ in range(steps):
            m2, d = P.apply_edit(rnd, hist[-1], hist[:-1]); hist.append(m2)
        byid = {}           # build-id -> (digest, where)
        def record(tag, p, state, host):
            for name, (bid, dig) in audits(p).items():
                if bid is None: continue
                # results of non-relocatable packages legitimately contain their location; their ids must then differ by location
                prev = byid.get(bid)
                if prev is not None and prev[0] != dig:
                    return {'kind': 'same-build-id-different-content', 'package': name, 'build_id': bid, 'a': prev[1], 'b': '%s state %d host %s' % (tag, state, host), 'history': log}
                byid.setdefault(bid, (dig, '%s state %d host %s' % (tag, state, host)))
            return None
        U = proj('U', 'uploader'); uploaded = set()
        for i, m in enumerate(hist):
            if i == 0 or rnd.random() < .6:
                host = 'hostA'; set_host(base, host)
                U.write(m); rc, out = U.bob('dev', 'r0', '--upload', '--download', 'no')
                if rc != 0: return None, ['(project does not build)']
                uploaded.add(i); log.append('U builds+uploads state %d on %s' % (i, host))
                w = record('U', U, i, host)
                if w: return w, log
        D = proj('D', 'downloader/some/other/place')
        order = list(range(len(hist))); rnd.shuffle(order)
        for j in order[:3]:
            host = rnd.choice(['hostA', 'hostA', 'hostB']); mode = rnd.choice(MODES); set_host(base, host)
            D.write(hist[j]); rc, out = D.bob('dev', 'r0', '--download', mode)
            log.append('D state %d on %s --download %s' % (j, host, mode))
            if rc != 0:
                # the forced modes are specified to fail when an artifact is missing
                if mode.startswith('forced') and 'Downloading artifact failed' in out: log.append('(forced download failed: allowed)'); continue
                return {'kind': 'download-build-failed', 'mode': mode, 'output': out[-600:], 'history': log}, log
            L = proj('L%d' % j, 'local%d-%s' % (j, host)); L.write(hist[j]); rc2, out2 = L.bob('dev', 'r0', '--download', 'no')
            if rc2 != 0: return None, log + ['(local build failed)']
            aD, aL = audits(D), audits(L)
            nonreloc = {n for n in aL if hist[j]['recipes'].get(n.split('/')[-1], {}).get('relocatable') is False}
            # (1) results equal a local build (packages whose result embeds the location are compared by id below)
            tainted = set()
            q = L.query()
            def taint(key, rec):
                t = rec['recipe'] in {n.split('/')[-1] for n in nonreloc} or any(taint_of.get(key + '/' + d, False) for d in rec['deps'])
                return t
            taint_of = {}
            for key in sorted(q, key=lambda k: -k.count('/')):
                rec = q[key]; taint_of[key] = hist[j]['recipes'].get(rec['recipe'], {}).get('relocatable') is False or any(taint_of.get(key + '/' + d, False) for d in rec['deps'])
            if 'r0' not in aD: return {'kind': 'package-missing-after-download-build', 'package': 'r0', 'history': log}, log
            # only what this invocation built or downloaded is current: below a downloaded package nothing is (re)made, and
            # directories left from earlier states of the history stay as they are
            made = {'r0'}
            for l in out.split('\n'):
                mm = re.match(r'^\s*(PACKAGE|DOWNLOAD)\s+dev/dist/([^/]+)/', l)
                if mm and 'skipped' not in l and 'not found' not in l: made.add(mm.group(2))
            for name in aL:
                if name not in aD or name.split('/')[-1] not in made: continue
                path_tainted = any(taint_of.get(k) for k in q if k.split('/')[-1] == name.split('/')[-1])
                if not path_tainted and aD[name][1] != aL[name][1]:
                    return {'kind': 'download-build-differs-from-local-build', 'package': name, 'mode': mode, 'state': j, 'host': host, 'history': log}, log
                # (4) same state, same host, other location: same Build-Id (unless the location is part of the result)
                if not path_tainted and aD[name][0] != aL[name][0]:
                    return {'kind': 'same-state-different-build-id', 'package': name, 'D': aD[name][0], 'L': aL[name][0], 'history': log}, log
            # (2) everything available => nothing is built
            if j in uploaded and host == 'hostA' and mode == 'yes' and not any(taint_of.values()):
                ex = [e for e in H.executed_steps(out) if e[0] in ('BUILD', 'PACKAGE')]
                if ex: return {'kind': 'build-step-executed-although-artifact-was-uploaded', 'executed': ex[:4], 'state': j, 'history': log}, log
            for tag, p in (('D', D), ('L', L)):
                w = record(tag, p, j, host)
                if w: return w, log
            L.cleanup()
        return None, log
    except Exception as ex:
        import traceback
        return None, ['harness problem: %r %s' % (ex, traceback.format_exc()[-300:])]
    finally:
        shutil.rmtree(base, ignore_errors=True)

# ---------------------------------------------------------------------------------------------- directed scenarios
def lib_model(base, src, tag, extra=''):
    return {'recipes': {
        'r0': {'root': True, 'depends': ['lib'], 'buildScript': 'cat "$2/lib.txt" > result.txt\n', 'packageScript': 'cp "$1/result.txt" .\n'},
        'lib': {'checkoutSCM': {'scm': 'import', 'url': 'src/lib'}, 'buildScript': '# script revision %s\ncat "$1/data.txt" > lib.txt\n' % tag, 'packageScript': 'cp "$1/lib.txt" .\n'}},
        'config': {}, 'files': {'default.yaml': 'archive:\n  backend: file\n  path: "%s"\n' % os.path.join(base, 'archive'), 'src/lib/data.txt': src + '\n'}}

def result_of(p):
    try: return open(os.path.join(p.dir, 'dev/dist/r0/1/workspace/result.txt')).read().strip()
    except OSError: return None

def bid_of(p, pkg):
    try:
        with gzip.open(os.path.join(p.dir, 'dev/dist', pkg, '1/audit.json.gz'), 'rt') as f: return json.load(f)['artifact']['build-id']
    except OSError: return None

def misprediction():
    """stale live-build-id prediction: D downloaded state 1 (sources never checked out), then sources and script change"""
    base = tempfile.mkdtemp(prefix='c07m-'); log = []
    def proj(sub):
        d = os.path.join(base, sub, 'proj'); os.makedirs(d); return P.Project(root=d)
    try:
        os.makedirs(os.path.join(base, 'archive'))
        U = proj('uploader'); D = proj('developer/some/other/place'); L = proj('local'); E = proj('e/dl'); E2 = proj('e2/local')
        U.write(lib_model(base, 'state-1', 'v1')); rc, out = U.bob('dev', 'r0', '--upload'); log.append('U uploads state 1')
        if rc != 0: return None, ['(setup failed)']
        D.write(lib_model(base, 'state-1', 'v1')); rc, out = D.bob('dev', 'r0', '--download', 'yes'); log.append('D downloads state 1')
        if rc != 0 or os.path.exists(os.path.join(D.dir, 'dev/src/lib')): return None, ['(setup: sources were checked out)']
        # the uploader also publishes state 2, so after the restart everything D needs is in the archive
        U.write(lib_model(base, 'state-2', 'v2')); rc, out = U.bob('dev', 'r0', '--upload'); log.append('U uploads state 2')
        D.write(lib_model(base, 'state-2', 'v2')); rc, out = D.bob('dev', 'r0', '-b', '--download', 'yes', '--upload'); log.append('D state 2, build-only, download yes')
        if rc != 0: return {'kind': 'download-build-failed', 'output': out[-600:], 'history': log}, log
        restarted = 'wrongly predicted' in out
        if result_of(D) != 'state-2': return {'kind': 'download-build-differs-from-local-build', 'result': result_of(D), 'expected': 'state-2', 'history': log}, log
        L.write(lib_model(base, 'state-2', 'v2')); L.bob('dev', 'r0', '--download', 'no')
        built = {e[1] for e in H.executed_steps(out) if e[0] == 'PACKAGE'}
        for pkg in ('lib', 'r0'):
            if pkg == 'lib' and not any('/lib/' in b for b in built): continue      # not made in this run: may be absent or from state 1
            if bid_of(D, pkg) != bid_of(L, pkg):
                return {'kind': 'same-state-different-build-id', 'package': pkg, 'D': bid_of(D, pkg), 'L': bid_of(L, pkg), 'after': 'restart on wrongly predicted sources', 'history': log}, log
        if restarted:
            ex = [e for e in H.executed_steps(out) if e[0] == 'PACKAGE' and '/r0/' in e[1]]
            # after the restart the corrected Build-Id of the root package is in the archive: it has to be downloaded
            if ex: return {'kind': 'build-step-executed-although-artifact-was-uploaded', 'executed': ex, 'after': 'restart on wrongly predicted sources', 'history': log}, log
        E.write(lib_model(base, 'state-1', 'v2')); E.bob('dev', 'r0', '--download', 'yes')
        E2.write(lib_model(base, 'state-1', 'v2')); E2.bob('dev', 'r0', '--download', 'no')
        if result_of(E) != result_of(E2): return {'kind': 'download-build-differs-from-local-build', 'result': result_of(E), 'expected': result_of(E2), 'history': log + ['E: new recipe, old sources']}, log
        return None, log + ['restart seen: %s' % restarted]
    except Exception as ex:
        return None, ['harness problem: %r' % (ex,)]
    finally:
        shutil.rmtree(base, ignore_errors=True)

def dirty_uploader():
    """git sources with live Build-Id prediction: the uploader's checkout carries an uncommitted edit when it builds and
    uploads again.  A pristine downloader (same upstream commit) must end up with what a purely local build gives."""
    import subprocess
    base = tempfile.mkdtemp(prefix='c07g-'); log = []
    env = {'GIT_CONFIG_NOSYSTEM': '1', 'GIT_AUTHOR_NAME': 'u', 'GIT_AUTHOR_EMAIL': 'u@example.com', 'GIT_COMMITTER_NAME': 'u', 'GIT_COMMITTER_EMAIL': 'u@example.com', 'HOME': base}
    def git(cwd, *a):
        e = dict(os.environ); e.update(env); subprocess.run(['git', *a], cwd=cwd, check=True, stdout=subprocess.DEVNULL, stderr=subprocess.DEVNULL, env=e)
    def proj(sub):
        d = os.path.join(base, sub, 'proj'); os.makedirs(d); p = P.Project(root=d); p.env.update(env); return p
    try:
        up = os.path.join(base, 'upstream'); os.makedirs(up); os.makedirs(os.path.join(base, 'archive')); git(up, 'init', '-q', '-b', 'master')
        open(os.path.join(up, 'data.txt'), 'w').write('committed content v1\n'); git(up, 'add', 'data.txt'); git(up, 'commit', '-q', '-m', 'v1')
        model = {'recipes': {'r0': {'root': True, 'checkoutSCM': {'scm': 'git', 'url': 'file://' + up, 'branch': 'master'},
                                    'buildScript': 'cp "$1/data.txt" result.txt\n', 'packageScript': 'cp "$1/result.txt" .\n'}},
                 'config': {}, 'files': {'default.yaml': 'archive:\n  backend: file\n  path: "%s"\n' % os.path.join(base, 'archive')}}
        U = proj('uploader'); D = proj('some/where/else'); L = proj('local')
        U.write(model); rc, out = U.bob('dev', 'r0', '--upload'); log.append('U: fresh checkout, build, upload')
        if rc != 0: return None, ['(setup failed: %s)' % out[-200:]]
        src = None
        for root, dirs, files in os.walk(os.path.join(U.dir, 'dev', 'src')):
            if 'data.txt' in files and '.git' in dirs: src = os.path.join(root, 'data.txt')
        if src is None: return None, ['(setup failed: no checkout)']
        open(src, 'w').write('LOCAL UNCOMMITTED EDIT\n'); log.append('U: uncommitted edit in the checkout')
        rc, out = U.bob('dev', 'r0', '--upload'); log.append('U: build and upload again')
        if rc != 0: return None, ['(setup failed: second upload)']
        D.write(model); rc, outD = D.bob('dev', 'r0', '--download', 'yes'); log.append('D: pristine project elsewhere, download yes')
        if rc != 0: return {'kind': 'download-build-failed', 'output': outD[-400:], 'history': log}, log
        L.write(model); rc, outL = L.bob('dev', 'r0', '--download', 'no'); log.append('L: purely local build')
        if rc != 0: return None, ['(setup failed: local build)']
        if result_of(D) != result_of(L):
            return {'kind': 'download-build-differs-from-local-build', 'result': result_of(D), 'expected': result_of(L), 'history': log,
                    'what': 'the live-build-id mapping of a locally modified checkout was published for the pristine commit'}, log
        return None, log
    except Exception as ex:
        return None, ['harness problem: %r' % (ex,)]
    finally:
        shutil.rmtree(base, ignore_errors=True)

def moving_branch():
    """git branch without pinned commit: the downloading workspace is used again after the upstream branch moved; its second run must
    deliver what a purely local build of the new state delivers (predictions are refreshed in normal builds)"""
    import subprocess
    base = tempfile.mkdtemp(prefix='c07b-'); log = []
    env = {'GIT_CONFIG_NOSYSTEM': '1', 'GIT_AUTHOR_NAME': 'u', 'GIT_AUTHOR_EMAIL': 'u@example.com', 'GIT_COMMITTER_NAME': 'u', 'GIT_COMMITTER_EMAIL': 'u@example.com', 'HOME': base}
    def git(cwd, *a):
        e = dict(os.environ); e.update(env); subprocess.run(['git', *a], cwd=cwd, check=True, stdout=subprocess.DEVNULL, stderr=subprocess.DEVNULL, env=e)
    def proj(sub):
        d = os.path.join(base, sub, 'proj'); os.makedirs(d); p = P.Project(root=d); p.env.update(env); return p
    try:
        up = os.path.join(base, 'upstream'); os.makedirs(up); os.makedirs(os.path.join(base, 'archive')); git(up, 'init', '-q', '-b', 'master')
        def commit(text):
            open(os.path.join(up, 'data.txt'), 'w').write(text + '\n'); git(up, 'add', 'data.txt'); git(up, 'commit', '-q', '-m', text)
        commit('version 1')
        model = {'recipes': {'r0': {'root': True, 'checkoutSCM': {'scm': 'git', 'url': 'file://' + up, 'branch': 'master'},
                                    'buildScript': 'cp "$1/data.txt" result.txt\n', 'packageScript': 'cp "$1/result.txt" .\n'}},
                 'config': {}, 'files': {'default.yaml': 'archive:\n  backend: file\n  path: "%s"\n' % os.path.join(base, 'archive')}}
        U = proj('uploader'); D = proj('down/loader'); L = proj('local')
        for pr in (U, D, L): pr.write(model)
        rc, out = U.bob('dev', 'r0', '--upload'); log.append('U uploads version 1')
        if rc != 0: return None, ['(setup failed: %s)' % out[-200:]]
        rc, out = D.bob('dev', 'r0', '--download', 'yes'); log.append('D: download yes (version 1)')
        if rc != 0 or result_of(D) != 'version 1': return None, ['(setup failed: first download)']
        commit('version 2'); log.append('upstream branch moves to version 2')
        rc, out = U.bob('dev', 'r0', '--upload'); log.append('U updates and uploads version 2')
        if rc != 0 or result_of(U) != 'version 2': return None, ['(setup failed: uploader did not update)']
        rc, outD = D.bob('dev', 'r0', '--download', 'yes'); log.append('D: download yes, again')
        if rc != 0: return {'kind': 'download-build-failed', 'output': outD[-400:], 'history': log}, log
        rc, outL = L.bob('dev', 'r0', '--download', 'no'); log.append('L: purely local build')
        if result_of(D) != result_of(L):
            return {'kind': 'download-build-differs-from-local-build', 'result': result_of(D), 'expected': result_of(L), 'history': log, 'what': 'a stale live-build-id prediction was reused after the upstream branch moved'}, log
        return None, log
    except Exception as ex:
        return None, ['harness problem: %r' % (ex,)]
    finally:
        shutil.rmtree(base, ignore_errors=True)

def hosttool():
    """fingerprinted and/or non-relocatable tools at two locations and on two emulated hosts"""
    base = tempfile.mkdtemp(prefix='c07h-'); log = []
    def proj(sub):
        d = os.path.join(base, sub, 'proj'); os.makedirs(d); return P.Project(root=d)
    def model():
        tool = lambda fp: dict({'checkoutSCM': {'scm': 'import', 'url': 'src/tool'}, 'buildScript': 'cp "$1/tool.in" tool.in\n',
                                'packageScript': 'sed -e "s|@PREFIX@|$PWD|" "$1/tool.in" > tool.conf\ncat "%s" >> tool.conf\n' % fp_file(base) if fp else 'sed -e "s|@PREFIX@|$PWD|" "$1/tool.in" > tool.conf\n',
                                'relocatable': False}, **({'fingerprintIf': True, 'fingerprintScript': 'cat "%s"\n' % fp_file(base)} if fp else {}))
        return {'recipes': {'r0': {'root': True, 'depends': ['hosttool', 'plaintool'], 'buildScript': 'cat "$2/tool.conf" > hosttool.conf\ncat "$3/tool.conf" > plaintool.conf\n', 'packageScript': 'cp "$1/"*.conf .\n'},
                            'hosttool': tool(True), 'plaintool': tool(False)}, 'config': {},
                'files': {'default.yaml': 'archive:\n  backend: file\n  path: "%s"\n' % os.path.join(base, 'archive'), 'src/tool/tool.in': 'prefix=@PREFIX@\n'}}
    def conf(p, pkg):
        try: return open(os.path.join(p.dir, 'dev/dist', pkg, '1/workspace/tool.conf')).read()
        except OSError: return None
    try:
        os.makedirs(os.path.join(base, 'archive')); set_host(base, 'hostA')
        A = proj('alice'); A.write(model()); rc, out = A.bob('dev', 'r0', '--upload'); log.append('A uploads on hostA')
        if rc != 0: return None, ['(setup failed)']
        for sub, host in (('bob/other/place', 'hostA'), ('carol/elsewhere', 'hostB')):
            set_host(base, host)
            Bp = proj(sub); Bp.write(model()); rc, out = Bp.bob('dev', 'r0', '--download', 'yes'); log.append('%s downloads on %s' % (sub, host))
            if rc != 0: return {'kind': 'download-build-failed', 'output': out[-500:], 'history': log}, log
            for pkg in ('hosttool', 'plaintool'):
                want = 'prefix=%s\n' % os.path.join(Bp.dir, 'dev/dist', pkg, '1/workspace') + ('%s\n' % host if pkg == 'hosttool' else '')
                if conf(Bp, pkg) != want:
                    return {'kind': 'download-build-differs-from-local-build', 'package': pkg, 'got': conf(Bp, pkg), 'local_build_would_give': want, 'history': log}, log
        return None, log
    except Exception as ex:
        return None, ['harness problem: %r' % (ex,)]
    finally:
        shutil.rmtree(base, ignore_errors=True)


def corrupt_artifact():
    """an artifact whose content does not match the result hash of its audit trail, or that lacks the audit trail, is never used"""
    import tarfile, io, glob
    base = tempfile.mkdtemp(prefix='c07c-'); log = []
    def proj(sub):
        d = os.path.join(base, sub, 'proj'); os.makedirs(d); return P.Project(root=d)
    try:
        os.makedirs(os.path.join(base, 'archive'))
        U = proj('u'); U.write(lib_model(base, 'state-1', 'v1')); rc, out = U.bob('dev', 'r0', '--upload')
        if rc != 0: return None, ['(setup failed)']
        arts = glob.glob(os.path.join(base, 'archive', '*', '*', '*.tgz'))
        for variant in ('content-changed', 'audit-dropped'):
            for a in arts:
                with tarfile.open(a, 'r:gz') as src:
                    pax = dict(src.pax_headers); members = [(m, src.extractfile(m).read() if m.isfile() else None) for m in src.getmembers()]
                buf = io.BytesIO()
                with tarfile.open(fileobj=buf, mode='w:gz', format=tarfile.PAX_FORMAT, pax_headers={'bob-archive-vsn': pax.get('bob-archive-vsn', '1')}) as dst:
                    for m, data in members:
                        if variant == 'audit-dropped' and m.name.startswith('meta/'): continue
                        if variant == 'content-changed' and m.isfile() and m.name.startswith('content/'): data = b'TAMPERED\n'; m.size = len(data)
                        dst.addfile(m, io.BytesIO(data) if data is not None else None)
                os.chmod(a, 0o644); open(a, 'wb').write(buf.getvalue())
            D = proj('d-' + variant); D.write(lib_model(base, 'state-1', 'v1')); rc, out = D.bob('dev', 'r0', '--download', 'yes'); log.append('D downloads %s artifacts' % variant)
            r = result_of(D)
            # a failing build (artifact rejected) is fine; a successful one must deliver the real result
            if rc == 0 and r != 'state-1':
                return {'kind': 'corrupt-artifact-was-used', 'variant': variant, 'result': r, 'history': log}, log
            if rc != 0:
                # the very same command again: a rejected artifact must not be taken as "already downloaded" the second time
                rc3, out3 = D.bob('dev', 'r0', '--download', 'yes'); r3 = result_of(D); log.append('same command again -> %d' % rc3)
                if rc3 == 0 and r3 != 'state-1': return {'kind': 'corrupt-artifact-was-used', 'variant': variant, 'result': r3, 'when': 'second invocation after the rejection', 'history': log}, log
                rc2, out2 = D.bob('dev', 'r0', '--download', 'no'); r2 = result_of(D)
                if rc2 == 0 and r2 != 'state-1': return {'kind': 'rejected-artifact-content-survived-into-the-next-build', 'variant': variant, 'result': r2, 'history': log}, log
        return None, log
    except Exception as ex:
        return None, ['harness problem: %r' % (ex,)]
    finally:
        shutil.rmtree(base, ignore_errors=True)

def replay(rep):
    import concurrent.futures as cf
    seed = int(os.environ.get('VERIF_SEED', '0') or 0)
    thorough = os.environ.get('VERIF_TIER') == 'thorough'
    n = 24 if thorough else 6; steps = 3 if thorough else 2
    tried = 0; distinct = set(); samples = []; problems = 0
    with cf.ThreadPoolExecutor(max_workers=8) as ex:
        futs = [ex.submit(misprediction), ex.submit(dirty_uploader), ex.submit(moving_branch), ex.submit(hosttool), ex.submit(corrupt_artifact)] + [ex.submit(one_case, seed * 1000 + i, steps) for i in range(n)]
        for f in cf.as_completed(futs):
            w, log = f.result(); tried += 1
            if log and (str(log[-1]).startswith('harness problem') or str(log[-1]).startswith('(project does not build') or str(log[-1]).startswith('(setup')): problems += 1; samples.append({'problem': log[-1]}) if len(samples) < 3 else None; continue
            distinct.add(tuple(log))
            if len(samples) < 3: samples.append({'history': log})
            if w is not None: return {'reproduced': True, 'tried': tried, 'witness': w}
    if problems > tried // 2: return {'reproduced': None, 'detail': 'harness problems in %d of %d cases: %s' % (problems, tried, samples[:2])}
    return {'reproduced': False, 'tried': tried, 'distinct': len(distinct), 'samples': samples,
            'bound': '5 directed scenarios (live-build-id misprediction + restart, uploader with a locally modified git checkout, downloader reused after the upstream branch moved, fingerprinted/non-relocatable tool at 2 locations x 2 hosts, tampered artifacts) + %d generated projects x %d edits, uploader + downloader (3 states, random download mode, 2 emulated hosts) + local reference builds' % (n, steps),
            'detail': 'download builds equalled local builds; equal Build-Ids always had equal content; uploaded states were taken without build steps'}
