# Native bounded search for C13 (bounded; real `bob dev` runs whose step scripts dump what they observe):
#  every checkout/build/package script writes its NUL separated environment and arguments to a dump directory, every
#  fingerprint script its environment.  Checked per step:
#   (1) visible recipe variables == declared (strong + weak, own and earlier steps of the package) that are set, byte for
#       byte equal to the values given on the command line (values over quotes, dollars, backslashes, newlines, unicode)
#   (2) no host variable outside the whitelist is visible (a canary variable is planted in the invoking environment),
#       unless -E is given; whitelisted host variables are
#   (3) arguments are the dependency results in declared order; consumed tools are on PATH / LD_LIBRARY_PATH
#   (4) fingerprint scripts see only fingerprintVars
#  Sandboxed execution (mount set, read-only dependencies) is NOT searched: the namespace helper needs user namespaces.
import os, sys, json, random, copy, shutil, tempfile, traceback
from replay import projlib as P, idlib as I

ALPHABET = ['plain', 'two words', "sq'uote", 'dq"uote', 'do$llar', '${brace}', '$(subshell)', '`backtick`', 'back\\slash', 'trailing\\',
            'new\nline', 'tab\there', 'semi;colon', 'amp&er', 'pipe|', 'glob*?', 'hash#', 'ünï©ødé', 'emoji-\U0001F600', ' lead', 'trail ', '', '!bang', '~tilde', '%percent', '\x01ctrl']
BOBVARS = {'PATH', 'LD_LIBRARY_PATH', 'BOB_CWD', 'PWD', 'SHLVL', '_', 'OLDPWD'}

def instrument(model, dump, values):
    """scripts dump env/args; every recipe variable takes its value from a -D definition (taken literally by bob)"""
    m = copy.deepcopy(model)
    for name, r in m['recipes'].items():
        if not name.startswith('r'): continue
        r['environment'] = {v: '${RAW_%s_%s}' % (name, v) for v in I.VARS}
        def dumpcmd(step): return 'env -0 > "%s/%s.%s.env"\nprintf \'%%s\\0\' "$@" > "%s/%s.%s.args"\n' % (dump, name, step, dump, name, step)
        if 'checkoutSCM' in r: del r['checkoutSCM']
        r['checkoutDeterministic'] = True
        r['checkoutScript'] = dumpcmd('src') + 'echo src > s.txt\n'
        r['buildScript'] = dumpcmd('build') + 'echo b > out.txt\n'
        r['packageScript'] = dumpcmd('dist') + 'echo p > result.txt\n'
        r.pop('provideVars', None)
    return m

def one_case(seed):
    rnd = random.Random(seed); log = []
    base = tempfile.mkdtemp(prefix='c13-'); dump = os.path.join(base, 'dump'); os.makedirs(dump)
    p = P.Project(root=os.path.join(base, 'proj'));
    try:
        model = I.gen(rnd)
        if 'tool' not in model['recipes']:        # every project consumes a tool somewhere (clause: tools are found on PATH / LD_LIBRARY_PATH)
            model['recipes']['tool'] = {'buildScript': 'echo tool\n', 'packageScript': 'mkdir -p bin lib lib64; echo tool\n', 'provideTools': {'gen': {'path': 'bin', 'libs': ['lib', 'lib64']}}}
            model['recipes']['r0'].setdefault('depends', []).append({'name': 'tool', 'use': ['tools']}); model['recipes']['r0']['buildTools'] = ['gen']
        # one fingerprinted recipe
        fpn = rnd.choice([n for n in sorted(model['recipes']) if n.startswith('r')])
        values = {}
        m = instrument(model, dump, values)
        fpvars = sorted(rnd.sample(I.VARS, 2))
        m['recipes'][fpn].update({'fingerprintIf': True, 'fingerprintVars': fpvars, 'fingerprintScript': 'env -0 > "%s/%s.fingerprint.env"\necho fp\n' % (dump, fpn)})
        # tools define variables for their users (provideTools: environment): a step that declares such a variable sees the tool's value,
        # whether the tool is used strongly or weakly
        TOOL_OPT = 'tool-opt-1 with blanks'        # (values of provideTools environments are subject to string substitution: nothing to substitute here)
        tr = m['recipes'].get('tool')
        if tr is not None and isinstance(tr.get('provideTools', {}).get('gen'), dict):
            tr['provideTools']['gen']['environment'] = {'TOOL_OPT': TOOL_OPT}
            for name, r in m['recipes'].items():
                if name.startswith('r') and any('gen' in r.get(k, []) for k in ('checkoutTools', 'checkoutToolsWeak', 'buildTools', 'buildToolsWeak', 'packageTools', 'packageToolsWeak')):
                    r['packageVars'] = sorted(set(r.get('packageVars', [])) | {'TOOL_OPT'}); r['__tool_opt__'] = True
        # a recipe may declare variables that carry the names of the computed ones: the consumed tools still have to be found
        for name, r in m['recipes'].items():
            if name.startswith('r') and any('gen' in r.get(k, []) for k in ('buildTools', 'buildToolsWeak', 'packageTools')) and seed % 2 == 0:
                r['environment']['PATH'] = '/usr/bin:/bin:/declared/bin'; r['environment']['LD_LIBRARY_PATH'] = '/declared/lib'
                for k in ('buildVars', 'packageVars'): r[k] = sorted(set(r.get(k, [])) | {'PATH', 'LD_LIBRARY_PATH'})
        defs = []
        for name in m['recipes']:
            if not name.startswith('r'): continue
            for v in I.VARS:
                val = rnd.choice(ALPHABET) + rnd.choice(['', rnd.choice(ALPHABET)])
                values[(name, v)] = val; defs.append('-DRAW_%s_%s=%s' % (name, v, val))
        wl_extra = 'WL_CANARY'
        m.setdefault('files', {})['default.yaml'] = 'whitelist: ["%s"]\n' % wl_extra
        p.write(m)
        keep = rnd.random() < .25
        hostenv = {'LEAK_CANARY': 'host-secret', wl_extra: 'whitelisted-value', 'VA': 'host-VA-must-not-leak',
                   'wl_canary': 'case-twin-of-a-whitelisted-name', 'Home': 'case-twin-of-HOME', 'WL_CANARY_2': 'prefix-twin'}
        rc, out = p.bob('dev', 'r0', *(['-E'] if keep else []), *defs, env=hostenv)
        log.append('bob dev r0 %s with %d definitions' % ('-E' if keep else '', len(defs)))
        if rc != 0: return None, ['(project does not build: %s)' % out[-200:].replace('\n', ' ')]
        q = I.query(p, env=None) if False else None
        paths = p.paths()
        for name, r in m['recipes'].items():
            if not name.startswith('r'): continue
            strong, weak = I.expected_vars(r)
            for step in ('src', 'build', 'dist'):
                f = os.path.join(dump, '%s.%s.env' % (name, step))
                if not os.path.exists(f): continue
                env = dict(e.split('=', 1) for e in open(f, 'rb').read().decode('utf-8', 'surrogateescape').split('\0') if '=' in e)
                want = {v: values[(name, v)] for v in (strong[step] | weak[step]) if (name, v) in values}
                for v in I.VARS:
                    if v in want:
                        if env.get(v) != want[v]:
                            return {'kind': 'declared-variable-has-the-wrong-value', 'package': name, 'step': step, 'variable': v, 'expected': want[v], 'observed': env.get(v), 'history': log}, log
                    elif v in env and not keep:
                        return {'kind': 'undeclared-variable-visible', 'package': name, 'step': step, 'variable': v, 'value': env[v], 'declared': sorted(want), 'history': log}, log
                if not keep:
                    for canary in ('LEAK_CANARY', 'wl_canary', 'Home', 'WL_CANARY_2'):
                        if canary in env: return {'kind': 'host-variable-leaked', 'variable': canary, 'package': name, 'step': step, 'history': log}, log
                    if env.get(wl_extra) != 'whitelisted-value': return {'kind': 'whitelisted-host-variable-missing', 'package': name, 'step': step, 'history': log}, log
                    extra = [k for k in env if k not in want and k not in BOBVARS and k != wl_extra and not (k == 'TOOL_OPT' and r.get('__tool_opt__') and step == 'dist') and not k.startswith('BOB_') and k not in ('HOME', 'TERM', 'USER', 'LANG', 'LOGNAME', 'SHELL', 'TMPDIR', 'TEMP', 'TMP', 'PATHEXT', 'SSH_AGENT_PID', 'SSH_AUTH_SOCK', 'http_proxy', 'https_proxy', 'ftp_proxy', 'no_proxy')]
                    if extra: return {'kind': 'unexpected-variable-visible', 'package': name, 'step': step, 'variables': extra[:5], 'history': log}, log
                elif 'LEAK_CANARY' not in env:
                    return {'kind': 'preserve-env-did-not-preserve', 'package': name, 'step': step, 'history': log}, log
                if step == 'dist' and r.get('__tool_opt__') and env.get('TOOL_OPT') != TOOL_OPT:
                    return {'kind': 'variable-defined-by-a-consumed-tool-has-the-wrong-value', 'package': name, 'step': step, 'expected': TOOL_OPT, 'observed': env.get('TOOL_OPT'),
                            'tool_lists': {k: r.get(k) for k in ('buildTools', 'buildToolsWeak', 'packageTools', 'packageToolsWeak', 'checkoutToolsWeak') if r.get(k)}, 'history': log}, log
                # arguments: own previous step, then dependencies in declared order
                args = [a for a in open(os.path.join(dump, '%s.%s.args' % (name, step)), 'rb').read().decode().split('\0') if a]
                if step == 'build':
                    deps = [d if isinstance(d, str) else d['name'] for d in r.get('depends', []) if isinstance(d, str) or 'tools' not in d.get('use', ['result'])]
                    want_args = [os.path.basename(os.path.dirname(os.path.dirname(a.rstrip('/')))) for a in args[1:]]
                    if want_args != deps:
                        return {'kind': 'arguments-not-in-declared-order', 'package': name, 'observed': want_args, 'declared': deps, 'history': log}, log
                # tools
                tools = {'build': r.get('buildTools', []) + r.get('buildToolsWeak', []), 'dist': r.get('buildTools', []) + r.get('buildToolsWeak', []) + r.get('packageTools', [])}.get(step, [])
                if 'gen' in tools and not any('/tool/' in x and x.rstrip('/').endswith('bin') for x in env.get('PATH', '').split(':')):
                    return {'kind': 'consumed-tool-not-on-PATH', 'package': name, 'step': step, 'PATH': env.get('PATH'), 'history': log}, log
                if 'gen' in tools and not any('/tool/' in x for x in env.get('LD_LIBRARY_PATH', '').split(':')):
                    return {'kind': 'consumed-tool-not-on-LD_LIBRARY_PATH', 'package': name, 'step': step, 'history': log}, log
        f = os.path.join(dump, '%s.fingerprint.env' % fpn)
        if os.path.exists(f) and not keep:
            env = dict(e.split('=', 1) for e in open(f, 'rb').read().decode('utf-8', 'surrogateescape').split('\0') if '=' in e)
            st_, wk_ = I.expected_vars(m['recipes'][fpn])
            # the script runs for the build and for the package step, each with the variables selected for that step; the
            # dump holds the last run: it has to match one of the two
            seen = {v: env[v] for v in I.VARS if v in env}
            cands = [{v: values[(fpn, v)] for v in fpvars if v in (st_[l] | wk_[l])} for l in ('build', 'dist')]
            if seen not in cands:
                extra = [v for v in seen if v not in fpvars]
                if extra: return {'kind': 'fingerprint-script-sees-undeclared-variable', 'package': fpn, 'variable': extra[0], 'fingerprintVars': fpvars, 'history': log}, log
                return {'kind': 'fingerprint-variables-wrong', 'package': fpn, 'observed': seen, 'expected_one_of': cands, 'history': log}, log
            for canary in ('LEAK_CANARY', 'wl_canary', 'Home', 'WL_CANARY_2'):
                if canary in env: return {'kind': 'host-variable-leaked', 'variable': canary, 'package': fpn, 'step': 'fingerprint', 'history': log}, log
        return None, log
    except Exception as ex:
        return None, ['harness problem: %r %s' % (ex, traceback.format_exc()[-400:])]
    finally:
        shutil.rmtree(base, ignore_errors=True)

def directed_provided_args():
    """positional arguments: direct dependencies in declared order, followed by the dependencies they provide upwards -- also when the
    provided package is named directly as well with a use list that lacks `result`"""
    p = P.Project(prefix='c13a-')
    try:
        mk = lambda nm, extra=None: dict({'buildScript': 'true\n', 'packageScript': 'echo %s > name.txt\n' % nm}, **(extra or {}))
        dump = 'for a in "${@:2}"; do cat "$a"/name.txt; done > args.txt\n'
        R = {'lib-a': mk('lib-a', {'provideTools': {'ta': '.'}}), 'lib-c': mk('lib-c'),
             'lib-b': mk('lib-b', {'depends': ['lib-a', 'lib-c'], 'provideDeps': ['lib-a', 'lib-c']}),
             'ctrl': {'root': True, 'depends': ['lib-b'], 'buildScript': dump, 'packageScript': 'cp "$1"/args.txt .\n'},
             'r0': {'root': True, 'depends': [{'name': 'lib-a', 'use': ['tools']}, 'lib-b', {'name': 'lib-c', 'use': ['environment']}], 'buildScript': dump, 'packageScript': 'cp "$1"/args.txt .\n'}}
        p.write({'recipes': R, 'config': {}})
        for root in ('ctrl', 'r0'):
            rc, out = p.bob('dev', root)
            if rc != 0: return None, ['(project does not build: %s)' % out[-200:].replace('\n', ' ')]
            got = open(os.path.join(p.dir, 'dev/dist/%s/1/workspace/args.txt' % root)).read().split()
            if got != ['lib-b', 'lib-a', 'lib-c']:
                return {'kind': 'arguments-not-in-declared-order', 'package': root, 'observed': got, 'declared': ['lib-b', 'lib-a (provided by lib-b)', 'lib-c (provided by lib-b)'],
                        'what': 'a provided dependency that is also named directly without `result` is missing from the arguments'}, ['directed provided args']
        return None, ['directed provided args']
    except Exception as ex:
        return None, ['harness problem: %r' % (ex,)]
    finally:
        p.cleanup()

def replay(rep):
    import concurrent.futures as cf
    seed = int(os.environ.get('VERIF_SEED', '0') or 0)
    thorough = os.environ.get('VERIF_TIER') == 'thorough'
    n = 40 if thorough else 8
    tried = 0; distinct = set(); samples = []; problems = 0
    with cf.ThreadPoolExecutor(max_workers=8) as ex:
        futs = [ex.submit(directed_provided_args)] + [ex.submit(one_case, seed * 1000 + i) for i in range(n)]
        for f in cf.as_completed(futs):
            w, log = f.result(); tried += 1
            if log and (str(log[-1]).startswith('harness problem') or str(log[-1]).startswith('(project')): problems += 1; samples.append({'problem': log[-1]}) if len(samples) < 3 else None; continue
            distinct.add(tuple(log))
            if len(samples) < 3: samples.append({'history': log})
            if w is not None: return {'reproduced': True, 'tried': tried, 'witness': w}
    if problems > tried // 2: return {'reproduced': None, 'detail': 'harness problems in %d of %d cases: %s' % (problems, tried, samples[:2])}
    return {'reproduced': False, 'tried': tried, 'distinct': len(distinct), 'samples': samples,
            'bound': '%d generated projects (2-4 recipes, 5 variables each with values from a 26 element alphabet of shell-hostile strings and pairs of them, tool provider, one fingerprinted recipe), one real build each, 1/4 of them with -E; no sandbox modes' % n,
            'detail': 'every step saw exactly its declared variables with exact values, no host variable leaked, arguments and tool paths as declared'}
