# Native bounded search for C04: the package graph computed with warm caches (in-memory memo, .bob-packages*.pickle,
# .bob-cache.sqlite3, .bob-tree.sqlite3 left behind by earlier invocations in the same directory) must equal the graph
# computed in a fresh copy of the project without any cache file, after every edit of a history and for both sandbox
# settings alternately.
import os, random, shutil, tempfile, json, concurrent.futures as cf
from replay import projlib as P

def cold_copy(p, model):
    c = P.Project(prefix='c04cold-'); c.write(model); return c

def gen_shared(rnd):
    """projects rich in shared sub-recipes reached under differing environments/tools/sandboxes"""
    m = P.gen_model(rnd)
    r = m['recipes']
    # a shared leaf that uses a tool, reached through an intermediate recipe that does not, under two tool variants
    r['cc1'] = {'packageScript': 'echo cc1 > cc\n', 'provideTools': {'cc': '.'}}
    r['cc2'] = {'packageScript': 'echo cc2 > cc\n', 'provideTools': {'cc': '.'}}
    r['leaf'] = {'buildTools': ['cc'], 'buildScript': 'cat ${BOB_TOOL_PATHS[cc]}/cc > out.txt\n', 'packageScript': 'cp "$1"/out.txt result.txt\n'}
    r['mid'] = {'depends': ['leaf'], 'buildScript': 'cp "$2"/result.txt out.txt\n', 'packageScript': 'cp "$1"/out.txt result.txt\n'}
    r['sbx'] = {'packageScript': 'mkdir -p bin\n', 'provideSandbox': {'paths': ['/bin']}}
    r['sb-helper'] = {'packageScript': 'echo helper > result.txt\n'}
    order = rnd.sample(['leaf', 'mid'], 2)
    r['u1'] = {'depends': [{'name': 'cc1', 'use': ['tools'], 'forward': True}] + order, 'buildScript': 'true\n', 'packageScript': 'echo u1 > result.txt\n'}
    r['u2'] = {'depends': [{'name': 'cc2', 'use': ['tools'], 'forward': True}, 'mid'], 'buildScript': 'true\n', 'packageScript': 'echo u2 > result.txt\n'}
    r['r0'].setdefault('depends', []).extend(rnd.sample(['u1', 'u2'], 2))
    r['r0']['depends'].append({'name': 'sb-helper', 'if': '$(is-sandbox-enabled)'})
    r['r0']['depends'].insert(0, {'name': 'sbx', 'use': ['sandbox'], 'forward': True})
    # a shared recipe that takes its sandbox from its OWN dependency, reached once without and once with that sandbox already
    # inherited; below it a package whose environment depends on the sandbox that was passed in
    r['sblib'] = {'environment': {'IN_SANDBOX': '$(is-sandbox-enabled)'}, 'buildScript': 'true\n', 'packageVars': ['IN_SANDBOX'], 'packageScript': 'echo $IN_SANDBOX > result.txt\n'}
    r['sb2'] = {'packageScript': 'mkdir -p bin\n', 'provideSandbox': {'paths': ['/usr/bin']}}
    r['xs'] = {'depends': ['sblib', {'name': 'sb2', 'use': ['sandbox']}], 'buildScript': 'true\n', 'packageScript': 'true\n'}
    r['ys'] = {'depends': [{'name': 'sb2', 'use': ['sandbox'], 'forward': True}, 'xs'], 'buildScript': 'true\n', 'packageScript': 'true\n'}
    r['top2'] = {'root': True, 'depends': rnd.sample(['xs', 'ys'], 2), 'buildScript': 'true\n', 'packageScript': 'true\n'}
    return m

def ls(p, sandbox):
    rc, out = p.bob('ls', '-r', '--sandbox' if sandbox else '--no-sandbox')
    return rc, sorted(l.strip() for l in out.split('\n') if l.strip() and not l.startswith(('INFO', 'See ', 'WARNING')) and 'conda' not in l)

def one_history(seed, steps):
    rnd = random.Random(seed)
    p = P.Project(prefix='c04-')
    try:
        model = gen_shared(rnd); hist = [model]; log = []
        for i in range(steps + 1):
            p.write(model)
            for sandbox in rnd.sample([False, True], 2):
                c = cold_copy(p, model)
                try:
                    try: warm = p.query(sandbox=sandbox)
                    except RuntimeError as ex: warm = {'__error__': str(ex)[-200:]}
                    try: cold = c.query(sandbox=sandbox)
                    except RuntimeError as ex: cold = {'__error__': str(ex)[-200:]}
                    if ('__error__' in warm) != ('__error__' in cold) or ('__error__' not in warm and warm != cold):
                        diff = sorted(k for k in set(warm) | set(cold) if warm.get(k) != cold.get(k))[:6]
                        return {'kind': 'warm-graph-differs-from-cold', 'sandbox': sandbox, 'history': log, 'differing_packages': diff}, log
                    # in-memory memoisation (PackageMatcher) against the same calculation with every memo lookup missing
                    c2 = cold_copy(p, model)          # (a fresh copy: the first cold query left its package cache file behind)
                    try: nomemo = c2.query(sandbox=sandbox, env={'VERIF_NOMEMO': '1'})
                    except RuntimeError as ex: nomemo = {'__error__': str(ex)[-200:]}
                    finally: c2.cleanup()
                    if ('__error__' in nomemo) != ('__error__' in cold) or ('__error__' not in cold and nomemo != cold):
                        diff = sorted(k for k in set(nomemo) | set(cold) if nomemo.get(k) != cold.get(k))[:6]
                        return {'kind': 'memoised-graph-differs-from-unmemoised', 'sandbox': sandbox, 'history': log, 'differing_packages': diff,
                                'memoised': {k: cold.get(k, {}).get('steps', {}).get('dist', {}).get('env') for k in diff[:2]} if '__error__' not in cold else cold,
                                'unmemoised': {k: nomemo.get(k, {}).get('steps', {}).get('dist', {}).get('env') for k in diff[:2]} if '__error__' not in nomemo else nomemo}, log
                    w, cl = ls(p, sandbox), ls(c, sandbox)
                    if w != cl:
                        return {'kind': 'warm-query-differs-from-cold', 'sandbox': sandbox, 'history': log, 'warm_only': sorted(set(w[1]) - set(cl[1]))[:6], 'cold_only': sorted(set(cl[1]) - set(w[1]))[:6]}, log
                finally:
                    c.cleanup()
                log.append('query sandbox=%s' % sandbox)
            model, d = P.apply_edit(rnd, model, hist); hist.append(model); log.append(d)
        return None, log
    except Exception as ex:
        return None, ['harness problem: %r' % (ex,)]
    finally:
        p.cleanup()

def replay(rep):
    seed = int(os.environ.get('VERIF_SEED', '0') or 0)
    thorough = os.environ.get('VERIF_TIER') == 'thorough'
    n = 40 if thorough else 12; steps = 4 if thorough else 2
    tried = 0; distinct = set(); samples = []; problems = 0
    with cf.ThreadPoolExecutor(max_workers=8) as ex:
        futs = [ex.submit(one_history, seed * 1000 + i, steps) for i in range(n)]
        for f in cf.as_completed(futs):
            w, log = f.result(); tried += 1
            if log and str(log[-1]).startswith('harness problem'): problems += 1; continue
            distinct.add(tuple(log))
            if len(samples) < 3: samples.append({'history': log})
            if w is not None: return {'reproduced': True, 'tried': tried, 'witness': w}
    if problems > tried // 2: return {'reproduced': None, 'detail': 'harness problems in %d of %d cases' % (problems, tried)}
    return {'reproduced': False, 'tried': tried, 'distinct': len(distinct), 'samples': samples,
            'bound': '%d generated projects with shared sub-recipes under two tool variants, a sandbox-dependent dependency and a recipe taking its sandbox from its own dependency (memoised vs. memo switched off), %d edits each, both sandbox settings after every edit' % (n, steps),
            'detail': 'package graph and recursive listing with warm caches equal the cold computation'}
