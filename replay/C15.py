# Native replay / bounded search for C15: real LocalShare on a scratch store.  Sequential histories plus a systematic
# exploration of two-project interleavings: operation B of "another project" is run (in a thread) at the k-th
# instrumented step of operation A, for every k.  Monitors: no operation fails because of the other one or because
# the store is empty; a visible package is complete and matches its recorded hash; at most one installer wins;
# a package handed out to a user is still there afterwards unless gc was forced; repo.json == sum of installed sizes.
import os, sys, json, shutil, tempfile, threading, random, time, traceback

HOOKS = ['lockFile', 'hashDirectoryWithSize', 'checkUnused']
OSHOOKS = ['rename', 'mkdir', 'makedirs']

def mk_workspace(base, name, content):
    ws = os.path.join(base, name, 'workspace'); os.makedirs(ws)
    with open(os.path.join(ws, 'file'), 'w') as f: f.write(content)
    with open(os.path.join(base, name, 'audit.json.gz'), 'wb') as f: f.write(b'audit')
    return ws

def store_consistent(share_dir):
    """installed packages complete + hash ok; repo.json accounts exactly the installed packages (at rest)"""
    from bob.utils import hashDirectory
    pkgs = {}
    for a in os.listdir(share_dir):
        pa = os.path.join(share_dir, a)
        if not os.path.isdir(pa) or len(a) != 2: continue
        for b in os.listdir(pa):
            for c in os.listdir(os.path.join(pa, b)):
                p = os.path.join(pa, b, c)
                mf = os.path.join(p, 'pkg.json')
                if not os.path.exists(mf): return 'package %s visible without pkg.json (incomplete)' % p
                meta = json.load(open(mf))
                if not os.path.isdir(os.path.join(p, 'workspace')): return 'package %s visible without workspace' % p
                if hashDirectory(os.path.join(p, 'workspace')).hex() != meta['hash']: return 'package %s does not match its recorded hash' % p
                pkgs[(a + b + c)[:-2]] = meta['size']
    rj = os.path.join(share_dir, 'repo.json')
    rec = json.load(open(rj)).get('pkgs', {}) if os.path.exists(rj) else {}
    if rec != pkgs: return 'repo.json records %r but installed packages are %r' % (rec, pkgs)
    return None

class Project:
    def __init__(self, base, name, share_dir, quota):
        from bob.share import LocalShare
        self.base = os.path.join(base, name); os.makedirs(self.base)
        spec = {'path': share_dir}
        if quota is not None: spec['quota'] = quota
        self.share = LocalShare(spec); self.n = 0; self.phase = 'before'; self.links = []
    def op(self, kind, bid, content='c'):
        """returns ('ok', result) or ('exc', repr)"""
        from bob.utils import hashDirectory
        try:
            if kind == 'install':
                self.n += 1
                ws = mk_workspace(self.base, 'w%d' % self.n, content)
                h = hashDirectory(ws)
                self.phase = 'share-api'
                try: path, installed = self.share.installSharedPackage(ws, bid, h, False)
                finally: self.phase = 'after-api'
                # builder._installSharedPackage replaces the workspace by a link to the shared location, whether this call
                # installed the package or found it installed by somebody else; the link is made after the share API returned
                if getattr(self, 'window', None): self.window()
                if path is not None and os.path.isdir(os.path.join(path, 'workspace')):
                    shutil.rmtree(ws); os.symlink(os.path.join(path, 'workspace'), ws); self.links.append((ws, path))
                return ('ok', ('install', path, installed, ws))
            if kind == 'use':
                self.n += 1
                ws = os.path.join(self.base, 'u%d' % self.n, 'workspace'); os.makedirs(os.path.dirname(ws))
                self.phase = 'share-api'
                try: path, h = self.share.useSharedPackage(ws, bid)
                finally: self.phase = 'after-api'
                # builder.LocalBuilder._useSharedPackage links the workspace only after the share API returned
                if getattr(self, 'window', None): self.window()
                if path is not None: os.symlink(os.path.join(path, 'workspace'), ws); self.links.append((ws, path))
                return ('ok', ('use', path, ws))
            if kind.startswith('gc'):
                pu, pn, dry = {'gc-auto': (False, False, False), 'gc-unused': (False, True, False), 'gc-all': (True, True, False), 'gc-dry': (False, True, True)}[kind]
                return ('ok', ('gc', self.share.gc(pu, pn, dryRun=dry)))
        except Exception as ex:
            return ('exc', '%s: %r' % (kind, ex))

def interleave(opA, opB, k, quota, prelude=True):
    """run opA of project 1; at its k-th instrumented step run opB of project 2.  Returns violation or None, and #steps."""
    import bob.share as sh
    base = tempfile.mkdtemp(prefix='c15-'); share_dir = os.path.join(base, 'share'); os.makedirs(share_dir)
    p1 = Project(base, 'p1', share_dir, quota); p2 = Project(base, 'p2', share_dir, quota)
    bid = bytes([7]) * 20; bid2 = bytes([9]) * 20
    # prelude: one package that is installed but no longer used by anybody (its project went away) and one that
    # project 2 still uses, so that gc has something to decide about
    if prelude:
        p3 = Project(base, 'p3', share_dir, quota)
        pre = p3.op('install', bid2, 'other')
        shutil.rmtree(p3.base, ignore_errors=True)
        pre2 = p2.op('install', bytes([11]) * 20, 'used')
    # (without prelude the store is still empty: repo.json does not exist yet)
    count = [0]; res = {}; thr = [None]
    saved = {n: getattr(sh, n) for n in HOOKS}; saved_os = {n: getattr(os, n) for n in OSHOOKS}
    main = threading.current_thread(); saved_unlock = sh.unlockFile
    label = [None]; parked = threading.Event(); decided = {}
    held = {'A': 0, 'B': 0}; state = {'A': 'before', 'B': 'before'}      # lock state of the two projects
    me = lambda: 'A' if threading.current_thread() is main else 'B'
    def got(): held[me()] += 1; state[me()] = 'locked'
    def runB():
        try: res['B'] = p2.op(*opB)
        finally: parked.set()
    def step(lbl='share-api'):
        if threading.current_thread() is not main: return
        count[0] += 1
        if count[0] == k and thr[0] is None:
            label[0] = lbl
            # B runs until it has finished or waits for a lock that A holds (no timing: B's lock requests are probed
            # non-blocking first, see lock()); only then A goes on
            t = threading.Thread(target=runB); thr[0] = t; t.start(); parked.wait(20)
    def window():
        # A is back from the share API and has not linked its workspace yet.  A B that waited for A's lock runs now.
        step('builder-window')
        if thr[0] is not None and thr[0].is_alive(): thr[0].join(20)
    def wrap(f):
        def g(*a, **kw):
            step(); return f(*a, **kw)
        return g
    def lock(fd, exclusive):
        step()
        if threading.current_thread() is main: saved['lockFile'](fd, exclusive); got(); return
        import fcntl
        try: fcntl.flock(fd, (fcntl.LOCK_EX if exclusive else fcntl.LOCK_SH) | fcntl.LOCK_NB); got(); return
        except BlockingIOError: pass
        parked.set()
        saved['lockFile'](fd, exclusive); got()
    def unlock(fd):
        # a schedule point right after the lock was given up: whatever the next lock owner reads must be complete
        held[me()] -= 1
        if held[me()] == 0: state[me()] = 'released'
        r = saved_unlock(fd); step(); return r
    def check_unused(meta, path):
        step()
        # gc decides about a package: has the other project not started, does it hold a lock, or is it through?
        decided[os.path.abspath(path)] = state['B' if me() == 'A' else 'A']
        return saved['checkUnused'](meta, path)
    try:
        for n in HOOKS: setattr(sh, n, wrap(saved[n]))
        for n in OSHOOKS: setattr(os, n, wrap(saved_os[n]))
        sh.lockFile = lock; sh.checkUnused = check_unused; sh.unlockFile = unlock
        p1.window = window
        res['A'] = p1.op(*opA)
    finally:
        for n in HOOKS: setattr(sh, n, saved[n])
        for n in OSHOOKS: setattr(os, n, saved_os[n])
        sh.unlockFile = saved_unlock
    if thr[0] is not None:
        thr[0].join(5)
        if thr[0].is_alive(): return {'kind': 'deadlock', 'A': opA[:2], 'B': opB[:2], 'at_step': k}, count[0]
    else:
        res['B'] = p2.op(*opB)
    try:
        for who in ('A', 'B'):
            if res[who][0] == 'exc':
                return {'kind': 'operation-failed', 'failed': res[who][1], 'A': opA[:2], 'B': opB[:2], 'B_started_at_step_of_A': k, 'quota': quota}, count[0]
        wins = sum(1 for who in ('A', 'B') if res[who][1][0] == 'install' and res[who][1][2])
        if opA[0] == 'install' and opB[0] == 'install' and opA[1] == opB[1] and wins > 1:
            return {'kind': 'installed-twice', 'A': opA[:2], 'B': opB[:2], 'at_step': k}, count[0]
        forced = any(o[0] == 'gc-all' for o in (opA, opB))
        for who in ('A', 'B'):
            r = res[who][1]
            if r[0] == 'use' and r[1] is not None and not forced and not os.path.isdir(os.path.join(r[1], 'workspace')):
                # classified by the lock state of the user when gc decided about the package: gc looked while the user had not
                # registered yet or held its locks (the locks did not protect it: 'share-api'), or after the user had
                # registered and released its locks but before the builder made the workspace link (known window F-C15c)
                where = 'builder-window' if decided.get(os.path.abspath(r[1])) == 'released' else 'share-api'
                return {'kind': 'collected-while-in-use/' + str(where), 'detail': 'useSharedPackage handed out %s but gc removed it' % os.path.relpath(r[1], share_dir),
                        'A': opA[0], 'B': opB[0], 'B_started_at_step_of_A': k, 'B_started_in': label[0]}, count[0]
            if r[0] == 'install' and r[1] is not None and not forced and any(o[0].startswith('gc') for o in (opA, opB)) is False and not os.path.isdir(r[1]):
                # with a quota every install of the other project runs an automatic gc: a package whose workspace link does not
                # exist yet (the builder links after the share API returned) counts as unused there -> install-side variant of
                # the known window.  Without quota nobody collects anything: a missing package would be a different defect.
                kind = 'collected-while-in-use/install-window' if quota is not None else 'installed-package-missing'
                return {'kind': kind, 'A': opA[:2], 'B': opB[:2], 'at_step': k}, count[0]
        if not forced:
            # every package a workspace links to (prelude of project 2 included) is still there: nobody forced its removal
            for proj in (p1, p2):
                for ws, path in proj.links:
                    if os.path.islink(ws) and not os.path.isdir(os.path.join(path, 'workspace')):
                        return {'kind': 'collected-while-in-use/linked', 'detail': 'workspace %s links to %s which was collected without force' % (os.path.relpath(ws, base), os.path.relpath(path, share_dir)),
                                'A': opA[:2], 'B': opB[:2], 'B_started_at_step_of_A': k, 'quota': quota}, count[0]
        c = store_consistent(share_dir)
        if c is not None: return {'kind': 'store-inconsistent', 'detail': c, 'A': opA[:2], 'B': opB[:2], 'B_started_at_step_of_A': k}, count[0]
        return None, count[0]
    finally:
        shutil.rmtree(base, ignore_errors=True)

def sequential(quota, rnd):
    base = tempfile.mkdtemp(prefix='c15s-'); share_dir = os.path.join(base, 'share'); os.makedirs(share_dir)
    try:
        p = Project(base, 'p', share_dir, quota); log = []; forced_at = 0
        for i in range(rnd.randint(1, 6)):
            kind = rnd.choice(['gc-auto', 'gc-unused', 'gc-all', 'gc-dry', 'install', 'install', 'use'])
            bid = bytes([rnd.randint(1, 3)]) * 20
            before = sorted(os.listdir(share_dir))
            r = p.op(kind, bid, 'content%d' % rnd.randint(1, 2) * rnd.randint(1, 400)); log.append((kind, bid[:1].hex()))
            if r[0] == 'exc': return {'kind': 'operation-failed', 'failed': r[1], 'history': log, 'quota': quota}
            if kind == 'gc-dry' and sorted(os.listdir(share_dir)) != before: return {'kind': 'dry-run-mutated', 'history': log}
            if kind == 'gc-all': forced_at = len(p.links)
            for ws, path in p.links[forced_at:]:
                if not os.path.isdir(os.path.join(path, 'workspace')):
                    return {'kind': 'collected-while-in-use/linked', 'detail': 'a workspace links to %s which was collected without force' % os.path.relpath(path, share_dir), 'history': log, 'quota': quota}
            c = store_consistent(share_dir)
            if c is not None: return {'kind': 'store-inconsistent', 'detail': c, 'history': log, 'quota': quota}
        return None
    finally:
        shutil.rmtree(base, ignore_errors=True)


def unregistered_user():
    """a project that finds the package already installed links to it: it must be recorded as a user, otherwise a later
    gc --all-unused of anybody removes the package under its feet"""
    base = tempfile.mkdtemp(prefix='c15u-'); share_dir = os.path.join(base, 'share'); os.makedirs(share_dir)
    try:
        p1 = Project(base, 'p1', share_dir, None); p2 = Project(base, 'p2', share_dir, None)
        bid = bytes([5]) * 20
        r1 = p1.op('install', bid, 'same'); r2 = p2.op('install', bid, 'same')
        if r1[0] != 'ok' or r2[0] != 'ok': return None
        path = r2[1][1]; ws2 = r2[1][3]
        if not os.path.islink(ws2): return None
        shutil.rmtree(p1.base, ignore_errors=True)            # project 1 goes away
        g = p2.op('gc-unused', bid)
        if not os.path.isdir(os.path.join(path, 'workspace')):
            return {'kind': 'collected-while-in-use/never-registered', 'detail': 'project 2 found the package installed and linked its workspace to it; after project 1 went away gc --all-unused removed the package although the workspace of project 2 still links to it',
                    'history': ['p1 install', 'p2 install (already installed)', 'p1 removed', 'p2 gc-unused']}
        return None
    finally:
        shutil.rmtree(base, ignore_errors=True)

def oldest_first(rnd):
    """automatic cleaning removes unused packages oldest (least recently USED) first, only until the quota is met: N packages
    of equal size are installed and aged, some are used again later (by their recorded workspace or by a new one), all projects
    vanish, then an install under a quota with room for K packages must keep exactly the K-1 most recently used ones"""
    import time
    base = tempfile.mkdtemp(prefix='c15o-'); share_dir = os.path.join(base, 'share'); os.makedirs(share_dir); log = []
    try:
        n = rnd.randint(2, 4); projs = []; paths = []; last_use = []
        for i in range(n):
            p = Project(base, 'p%d' % i, share_dir, None); r = p.op('install', bytes([0x20 + i]) * 20, chr(65 + i) * 1000)
            if r[0] != 'ok' or not r[1][2]: return None
            projs.append(p); paths.append(r[1][1]); last_use.append(None)
        def age(i, seconds):
            t = time.time() - seconds; os.utime(os.path.join(paths[i], 'pkg.json'), (t, t)); last_use[i] = t
        for i in range(n): age(i, 10000 - 1000 * i); log.append('P%d installed, last use %ds ago' % (i, 10000 - 1000 * i))
        # later re-uses: by the recorded workspace itself (rebuild) or by another project
        for i in rnd.sample(range(n), rnd.randint(1, n - 1)):
            who = rnd.choice(['same', 'other'])
            if who == 'same':
                ws = projs[i].links[0][0]; r = projs[i].share.useSharedPackage(ws, bytes([0x20 + i]) * 20)
            else:
                r = projs[(i + 1) % n].op('use', bytes([0x20 + i]) * 20); r = r[1][1:] if r[0] == 'ok' else (None,)
            if r[0] is None: return None
            last_use[i] = time.time()     # the moment of the use, whatever the store recorded
            time.sleep(0.03)          # (file time stamps are coarse: keep the uses apart)
            log.append('P%d used again now by %s workspace' % (i, 'its recorded' if who == 'same' else 'another'))
        size = json.load(open(os.path.join(share_dir, 'repo.json')))['pkgs'][(bytes([0x20]) * 20).hex()]
        for p in projs: shutil.rmtree(p.base, ignore_errors=True)
        log.append('all projects removed')
        k = rnd.randint(1, n)                       # room for k packages (and a half)
        q = Project(base, 'q', share_dir, str(size * k + size // 2)); r = q.op('install', bytes([0x7f]) * 20, 'Z' * 1000)
        log.append('install under a quota with room for %d packages' % k)
        if r[0] != 'ok': return {'kind': 'operation-failed', 'failed': r[1], 'history': log}
        if not os.path.isdir(r[1][1]): return {'kind': 'fresh-package-collected', 'history': log}
        have = {i for i in range(n) if os.path.isdir(paths[i])}; gone = set(range(n)) - have
        if len(have) != min(n, k - 1):
            return {'kind': 'automatic-cleaning-not-until-the-quota-is-met', 'kept': sorted('P%d' % i for i in have), 'room_for_old_packages': k - 1, 'history': log}
        # (equal time stamps may be ordered either way)
        bad = [(a, b) for a in have for b in gone if last_use[a] < last_use[b]]
        if bad:
            return {'kind': 'automatic-cleaning-not-oldest-first', 'kept': sorted('P%d' % i for i in have), 'removed': sorted('P%d' % i for i in gone), 'history': log,
                    'what': 'P%d was kept although P%d, used more recently, was removed' % bad[0]}
        return None
    finally:
        shutil.rmtree(base, ignore_errors=True)

def two_spellings():
    """two projects reach the same store under different spellings of its path (a symlinked mount point): a package that a workspace of
    the one links to is in use for the other as well"""
    base = tempfile.mkdtemp(prefix='c15y-'); share_dir = os.path.join(base, 'share'); os.makedirs(share_dir)
    try:
        alias = os.path.join(base, 'alias'); os.symlink(share_dir, alias)
        pa = Project(base, 'pa', alias, None); pb = Project(base, 'pb', share_dir, '1')
        bid = bytes([6]) * 20
        r = pa.op('install', bid, 'payload')
        if r[0] != 'ok' or not pa.links: return None
        ws, path = pa.links[0]
        for kind in ('install', 'gc-unused'):
            g = pb.op(kind, bytes([8]) * 20, 'other' * 50)       # over quota: automatic cleaning; then an explicit non-forced gc
            if g[0] != 'ok': return {'kind': 'operation-failed', 'failed': g[1], 'history': ['A installs via the alias path', 'B %s via the real path' % kind]}
            if not os.path.isdir(os.path.join(os.path.realpath(path), 'workspace')):
                return {'kind': 'collected-while-in-use/other-spelling-of-the-store-path', 'detail': 'project A reaches the store through a symlinked path; its linked package was collected by project B (%s)' % kind,
                        'history': ['A installs via the alias path and links its workspace', 'B %s via the real path (not forced)' % kind]}
        return None
    finally:
        shutil.rmtree(base, ignore_errors=True)

def replay(rep):
    seed = int(os.environ.get('VERIF_SEED', '0') or 0); rnd = random.Random(seed)
    budget = float(os.environ.get('VERIF_BOUNDED_BUDGET', '25')); t0 = time.time(); tried = 0
    distinct = set(); samples = []
    for quota in (None, '1', '10KiB'):
        for _ in range(12):
            tried += 1
            w = sequential(quota, rnd)
            if w is not None: return {'reproduced': True, 'tried': tried, 'witness': w}
    w = unregistered_user(); tried += 1
    if w is not None: return {'reproduced': True, 'tried': tried, 'witness': w}
    w = two_spellings(); tried += 1
    if w is not None: return {'reproduced': True, 'tried': tried, 'witness': w}
    for _ in range(30):
        w = oldest_first(rnd); tried += 1
        if w is not None: return {'reproduced': True, 'tried': tried, 'witness': w}
    bid = bytes([7]) * 20; bid2 = bytes([9]) * 20
    ops = [('install', bid, 'x'), ('gc-unused', bid), ('use', bid2), ('gc-auto', bid)]
    if os.environ.get('VERIF_TIER') == 'thorough': ops += [('use', bid), ('install', bid2, 'other'), ('gc-all', bid)]
    budget = 600        # the case list is fixed (deterministic coverage); the time limit is only a safety net
    known = {}
    for quota in ('1', None):
        for A in ops:
            for B in ops:
                k = 1
                while time.time() - t0 < budget:
                    tried += 1
                    w, steps = interleave(A, B, k, quota)
                    if k <= steps: distinct.add((A[0], A[1], B[0], B[1], k, quota))     # B really ran inside A
                    if len(samples) < 3 and k <= steps: samples.append({'A': A[0], 'B': B[0], 'B_started_at_step_of_A': k, 'quota': quota})
                    if w is not None and w['kind'] in ('collected-while-in-use/builder-window', 'collected-while-in-use/install-window'):
                        known.setdefault(w['kind'], w); w = None       # listed separately (known finding F-C15c); keep searching
                    if w is not None: return {'reproduced': True, 'tried': tried, 'witness': w, 'also': list(known.values())}
                    if k > steps or k > 40: break      # B was not started any more: A has fewer than k steps
                    k += 1
    # the very first installations into an empty store, two projects, different and equal Build-Ids
    for quota in ('1', None):
        for A, B in ((('install', bid, 'x'), ('install', bid2, 'other')), (('install', bid, 'x'), ('install', bid, 'x')), (('install', bid, 'x'), ('gc-unused', bid)), (('install', bid, 'x'), ('use', bid))):
            k = 1
            while True:
                tried += 1
                w, steps = interleave(A, B, k, quota, prelude=False)
                if k <= steps: distinct.add(('empty-store', A[0], B[0], B[1] == A[1], k, quota))
                if w is not None and w['kind'] in ('collected-while-in-use/builder-window', 'collected-while-in-use/install-window'): known.setdefault(w['kind'], w); w = None
                if w is not None:
                    w['store'] = 'empty at the start'; return {'reproduced': True, 'tried': tried, 'witness': w, 'also': list(known.values())}
                if k > steps or k > 40: break
                k += 1
    if known: return {'reproduced': True, 'tried': tried, 'distinct': len(distinct), 'samples': samples, 'witness': list(known.values())[0]}
    return {'reproduced': False, 'tried': tried, 'distinct': len(distinct), 'samples': samples, 'bound': 'pairs of operations of two projects, B inserted at every instrumented step of A; sequential histories <= 6 operations',
            'detail': 'no monitored clause violated'}
