# Native bounded search for C16: develop-mode directory assignment and `bob clean` over generated edit histories.
#  * two steps of the same kind share a workspace only if they have the same recipe and Variant-Id
#  * a (recipe, variant) that still exists keeps its directory across recipe changes
#  * `bob clean --dry-run` deletes nothing; `bob clean` keeps every directory of the current graph (a following build
#    executes no build/package step) and removes build/dist directories that belong to no current package
import os, random, concurrent.futures as cf
from replay import projlib as P, buildhist as H

def mapping(p):
    """(recipe, label, vid) -> set of workspaces, via bob's own query-path and the package graph"""
    q = p.query()
    paths = p.paths()
    m = {}
    for key, rec in q.items():
        for label, s in rec['steps'].items():
            ws = paths.get(key, {}).get(label)
            if ws: m.setdefault((rec['recipe'], label, s['vid']), set()).add(ws)
    return m

def all_dirs(p):
    out = set()
    for label in ('build', 'dist'):
        base = os.path.join(p.dir, 'dev', label)
        for dp, ds, fs in os.walk(base):
            if os.path.basename(dp) == 'workspace': out.add(os.path.relpath(dp, p.dir)); ds[:] = []
    return out

def one_history(seed, steps):
    rnd = random.Random(seed)
    p = P.Project(prefix='c16-')
    try:
        model = P.gen_model(rnd); hist = [model]; log = []
        prev = {}
        for i in range(steps + 1):
            p.write(model)
            rc, out = p.bob('dev', 'r0')
            if rc != 0: return None, log + ['(project does not build)']
            m = mapping(p)
            owner = {}
            for key, wss in m.items():
                for ws in wss:
                    if ws in owner and owner[ws][:3] != key:
                        return {'kind': 'directory-shared-by-different-variants', 'workspace': ws, 'a': list(owner[ws]), 'b': list(key), 'history': log}, log
                    owner[ws] = key
            for key, wss in m.items():
                if key in prev and not (prev[key] & wss):
                    return {'kind': 'existing-variant-changed-directory', 'variant': list(key), 'before': sorted(prev[key]), 'after': sorted(wss), 'history': log}, log
            prev = m
            if rnd.random() < .6:
                before = all_dirs(p)
                rc, out = p.bob('clean', '--dry-run')
                if all_dirs(p) != before: return {'kind': 'dry-run-deleted', 'history': log}, log
                rc, out = p.bob('clean'); log.append('bob clean')
                used = {ws for wss in m.values() for ws in wss}
                gone = [d for d in before if d in used and not os.path.isdir(os.path.join(p.dir, d))]
                if gone: return {'kind': 'clean-deleted-directory-in-use', 'deleted': gone, 'history': log}, log
                left = [d for d in all_dirs(p) if d not in used]
                if left: return {'kind': 'clean-left-garbage', 'left': left, 'history': log}, log
                rc2, out2 = p.bob('dev', 'r0')
                ex = [e for e in H.executed_steps(out2) if e[0] != 'CHECKOUT']
                if ex: return {'kind': 'clean-lost-up-to-date-result', 'reexecuted': ex[:5], 'history': log}, log
            model, d = P.apply_edit(rnd, model, hist); hist.append(model); log.append(d)
        return None, log
    except Exception as ex:
        return None, ['harness problem: %r' % (ex,)]
    finally:
        p.cleanup()

def directed(seed):
    """a library in two variants; the second one changes while the first stays (new entries must avoid kept directories)"""
    rnd = random.Random(seed)
    p = P.Project(prefix='c16d-')
    try:
        lib = {'packageVars': ['FLAVOR'], 'buildVars': ['FLAVOR'], 'buildScript': 'echo "lib ${FLAVOR}" > out.txt\n', 'packageScript': 'cp "$1"/out.txt result.txt\n'}
        def mk(f2):
            return {'recipes': {'lib': lib, 'r0': {'root': True, 'depends': [{'name': 'lib', 'environment': {'FLAVOR': 'a'}}, 'r1'], 'buildScript': 'cat "$2"/result.txt "$3"/result.txt > out.txt\n', 'packageScript': 'cp "$1"/out.txt result.txt\n'},
                                'r1': {'depends': [{'name': 'lib', 'environment': {'FLAVOR': f2}}], 'buildScript': 'cp "$2"/result.txt out.txt\n', 'packageScript': 'cp "$1"/out.txt result.txt\n'}}, 'config': {}}
        log = []
        prev = {}
        for f2 in ('b', 'c', 'b'):
            p.write(mk(f2)); log.append('second lib variant FLAVOR=%s' % f2)
            rc, out = p.bob('dev', 'r0')
            if rc != 0: return None, log
            m = mapping(p); owner = {}
            for key, wss in m.items():
                for ws in wss:
                    if ws in owner and owner[ws] != key:
                        return {'kind': 'directory-shared-by-different-variants', 'workspace': ws, 'a': list(owner[ws]), 'b': list(key), 'history': log}, log
                    owner[ws] = key
            for key, wss in m.items():
                if key in prev and not (prev[key] & wss):
                    return {'kind': 'existing-variant-changed-directory', 'variant': list(key), 'history': log}, log
            prev = m
            res = open(os.path.join(p.dir, 'dev/dist/r0/1/workspace/result.txt')).read()
            if res != 'lib a\nlib %s\n' % f2: return {'kind': 'wrong-content-through-shared-directory', 'result': res, 'history': log}, log
        return None, log
    except Exception as ex:
        return None, ['harness problem: %r' % (ex,)]
    finally:
        p.cleanup()

def directed_twins(seed):
    """two byte-identical recipes (same Variant-Ids, different recipes => different develop directories): clean must keep both"""
    p = P.Project(prefix='c16t-')
    try:
        z = {'buildScript': 'echo z > out.txt\n', 'packageScript': 'cp "$1"/out.txt result.txt\n'}
        model = {'recipes': {'zA': dict(z), 'zB': dict(z), 'old': dict(z, buildScript='echo old > out.txt\n'),
                             'r0': {'root': True, 'depends': ['zA', 'zB', 'old'], 'buildScript': 'cat "$2"/result.txt "$3"/result.txt > out.txt\n', 'packageScript': 'cp "$1"/out.txt result.txt\n'}}, 'config': {}}
        log = ['twins zA/zB + old']
        p.write(model); rc, out = p.bob('dev', 'r0')
        if rc != 0: return None, log
        model['recipes']['r0']['depends'] = ['zA', 'zB']; del model['recipes']['old']; p.write(model); log.append('drop recipe old')
        rc, out = p.bob('dev', 'r0')
        m = mapping(p); used = {ws for wss in m.values() for ws in wss}
        before = all_dirs(p)
        p.bob('clean', '--dry-run')
        if all_dirs(p) != before: return {'kind': 'dry-run-deleted', 'history': log}, log
        rc, out = p.bob('clean'); log.append('bob clean')
        gone = [d for d in before if d in used and not os.path.isdir(os.path.join(p.dir, d))]
        if gone: return {'kind': 'clean-deleted-directory-in-use', 'deleted': sorted(gone), 'history': log}, log
        left = [d for d in all_dirs(p) if d not in used]
        if left: return {'kind': 'clean-left-garbage', 'left': left, 'history': log}, log
        return None, log
    except Exception as ex:
        return None, ['harness problem: %r' % (ex,)]
    finally:
        p.cleanup()


def directed_modes(seed):
    """a project built in release AND develop mode: cleaning one mode must not touch the up-to-date results of the other"""
    rnd = random.Random(seed)
    p = P.Project(prefix='c16m-')
    try:
        model = P.gen_model(rnd); log = []
        p.write(model)
        rc, out = p.bob('build', 'r0'); log.append('bob build (release)')
        if rc != 0: return None, log + ['(project does not build)']
        rc, out = p.bob('dev', 'r0'); log.append('bob dev (develop)')
        if rc != 0: return None, log + ['(project does not build)']
        def dirs(top):
            out = set()
            for dp, ds, fs in os.walk(os.path.join(p.dir, top)):
                if os.path.basename(dp) == 'workspace': out.add(os.path.relpath(dp, p.dir)); ds[:] = []
            return out
        for mode_args, other_top, other_cmd in ((['clean'], 'work', ['build', 'r0']), (['clean', '--release'], 'dev', ['dev', 'r0']), (['clean', '-s'], 'work', ['build', 'r0'])):
            before = dirs(other_top)
            rc, out = p.bob(*mode_args); log.append('bob ' + ' '.join(mode_args))
            gone = sorted(before - dirs(other_top))
            if gone: return {'kind': 'clean-deleted-directory-in-use', 'deleted': gone[:6], 'what': 'cleaning one mode removed up-to-date workspaces of the other mode', 'history': log}, log
            rc2, out2 = p.bob(*other_cmd)
            ex = [e for e in H.executed_steps(out2) if e[0] != 'CHECKOUT']
            if ex: return {'kind': 'clean-lost-up-to-date-result', 'reexecuted': ex[:5], 'history': log}, log
        return None, log
    except Exception as ex:
        return None, ['harness problem: %r' % (ex,)]
    finally:
        p.cleanup()

def directed_src_policy():
    """source directories only on request: after a recipe was dropped its unused SOURCE workspace goes away only with -s/--src
    (whatever other options are given), unused build/package workspaces go away always, --dry-run deletes nothing"""
    base_model = {'recipes': {'r0': {'root': True, 'depends': ['lib'], 'buildScript': 'cp "$2"/result.txt out.txt\n', 'packageScript': 'cp "$1"/out.txt result.txt\n'},
                              'lib': {'checkoutDeterministic': True, 'checkoutScript': 'echo src > s.txt\n', 'buildScript': 'cp "$1"/s.txt out.txt\n', 'packageScript': 'cp "$1"/out.txt result.txt\n'}}, 'config': {}}
    dropped = {'recipes': {'r0': {'root': True, 'buildScript': 'echo alone > out.txt\n', 'packageScript': 'cp "$1"/out.txt result.txt\n'}}, 'config': {}}
    log = []
    try:
        for mode, build_cmd, top in (('develop', 'dev', 'dev'), ('release', 'build', 'work')):
            for opts in (['-f'], [], ['-v'], ['-s'], ['-s', '-f'], ['--dry-run', '-f'], ['--dry-run', '-s', '-f']):
                p = P.Project(prefix='c16s-')
                try:
                    p.write(base_model); rc, out = p.bob(build_cmd, 'r0')
                    if rc != 0: return None, ['harness problem: project does not build']
                    p.write(dropped); rc, out = p.bob(build_cmd, 'r0')
                    def ws():
                        o = set()
                        for dp, ds, fs in os.walk(os.path.join(p.dir, top)):
                            if os.path.basename(dp) == 'workspace': o.add(os.path.relpath(dp, p.dir)); ds[:] = []
                        return o
                    before = ws()
                    args = ['clean'] + (['--release'] if mode == 'release' else []) + opts
                    rc, out = p.bob(*args); log.append('%s: bob %s' % (mode, ' '.join(args)))
                    gone = before - ws()
                    is_src = lambda d: '/src/' in ('/' + d + '/')
                    src_gone = sorted(d for d in gone if is_src(d)); other_gone = sorted(d for d in gone if not is_src(d))
                    if '--dry-run' in opts and gone:
                        return {'kind': 'dry-run-deleted', 'deleted': sorted(gone)[:4], 'history': log}, log
                    if '-s' not in opts and src_gone:
                        return {'kind': 'source-directory-deleted-without-request', 'deleted': src_gone[:4], 'options': opts, 'mode': mode, 'history': log}, log
                    if '--dry-run' not in opts and not any('lib' in d for d in other_gone):
                        return {'kind': 'clean-kept-garbage', 'kept': sorted(d for d in ws() if 'lib' in d and not is_src(d))[:4], 'options': opts, 'mode': mode, 'history': log}, log
                    if '-s' in opts and '--dry-run' not in opts and not src_gone:
                        return {'kind': 'clean-kept-unused-source-directory-although-requested', 'options': opts, 'mode': mode, 'history': log}, log
                finally:
                    p.cleanup()
        return None, log
    except Exception as ex:
        return None, ['harness problem: %r' % (ex,)]

def replay(rep):
    seed = int(os.environ.get('VERIF_SEED', '0') or 0)
    thorough = os.environ.get('VERIF_TIER') == 'thorough'
    n = 32 if thorough else 10; steps = 4 if thorough else 3
    tried = 0; distinct = set(); samples = []; problems = 0
    with cf.ThreadPoolExecutor(max_workers=8) as ex:
        futs = [ex.submit(directed, seed), ex.submit(directed_twins, seed), ex.submit(directed_src_policy), ex.submit(directed_modes, seed), ex.submit(directed_modes, seed + 77)] + [ex.submit(one_history, seed * 1000 + i, steps) for i in range(n)]
        for f in cf.as_completed(futs):
            w, log = f.result(); tried += 1
            if log and str(log[-1]).startswith('harness problem'): problems += 1; continue
            distinct.add(tuple(log))
            if len(samples) < 3: samples.append({'history': log})
            if w is not None: return {'reproduced': True, 'tried': tried, 'witness': w}
    if problems > tried // 2: return {'reproduced': None, 'detail': 'harness problems in %d of %d cases' % (problems, tried)}
    return {'reproduced': False, 'tried': tried, 'distinct': len(distinct), 'samples': samples,
            'bound': '5 directed histories (variants, identical twin recipes, 2 x release+develop mode clean, option matrix of clean over a dropped recipe: sources only with -s) + %d generated projects with %d edits each, bob clean after 60%% of the builds' % (n, steps),
            'detail': 'directory table injective and stable; clean kept every used directory and removed the rest'}
