# Native replay / bounded search for C11: real hashDirectory on generated trees.
#  (1) cache transparency: after every step of a modification history hashDirectory(path, index) == hashDirectory(path)
#  (2) content exactness: two trees have equal hashes iff an independent canonical serialisation (names, file types,
#      permission bits, contents, link targets; not timestamps, not what a link points to) is equal.
import os, sys, random, shutil, tempfile, stat, time

def canonical(root):
    out = []
    def walk(d, rel):
        for n in sorted(os.listdir(d)):
            p = os.path.join(d, n); r = rel + '/' + n
            st = os.lstat(p)
            if stat.S_ISDIR(st.st_mode):
                if n in ('.git', '.svn', '.portage-cache'): continue
                out.append(('d', r, stat.S_IMODE(st.st_mode))); walk(p, r)
            elif n == 'BaseDirList.txt': continue            # (the file ignore list applies to everything that is not a directory)
            elif stat.S_ISLNK(st.st_mode): out.append(('l', r, os.readlink(p)))
            elif stat.S_ISREG(st.st_mode):
                out.append(('f', r, stat.S_IMODE(st.st_mode), open(p, 'rb').read()))
            else: out.append(('o', r, stat.S_IFMT(st.st_mode), stat.S_IMODE(st.st_mode)))
    walk(root, '')
    return out

NAMES = ['a', 'b', 'mike', 'sub', 'data', 'z', 'a.txt', 'sub2', 'é', 'x y', '.git', '.svn', 'BaseDirList.txt', '.portage-cache']      # incl. the names of the ignore lists, as files, links and directories

def random_tree(rnd, root, outside):
    os.makedirs(root)
    def fill(d, depth):
        for n in rnd.sample(NAMES, rnd.randint(1, 4)):
            p = os.path.join(d, n); k = rnd.random()
            if k < .25 and depth < 2: os.mkdir(p); fill(p, depth + 1)
            elif k < .4: os.symlink(rnd.choice(['data', '../a', outside, os.path.join(outside, 'f'), 'nowhere']), p)
            else:
                with open(p, 'wb') as f: f.write(rnd.choice([b'', b'x', b'hello', b'hellp', b'\0' * 5]))
                os.chmod(p, rnd.choice([0o644, 0o755, 0o600]))
    fill(root, 0)

def mutate(rnd, root, outside):
    """one modification step; returns a description"""
    entries = []
    for dp, ds, fs_ in os.walk(root):
        for n in ds + fs_: entries.append(os.path.join(dp, n))
    op = rnd.choice(['create', 'create-before', 'modify', 'rewrite-same-size', 'rewrite-keep-mtime', 'rewrite-keep-mtime', 'chmod', 'delete', 'rename', 'file2dir', 'dir2link', 'touch', 'outside'])
    if op == 'outside':
        # change only what a symlink points to, outside the tree: must not change the hash
        if os.path.isdir(outside): shutil.rmtree(outside); open(outside, 'w').close()
        else: os.unlink(outside); os.makedirs(outside); open(os.path.join(outside, 'f'), 'w').close()
        return op
    if op in ('create', 'create-before') or not entries:
        dirs = [root] + [e for e in entries if os.path.isdir(e) and not os.path.islink(e)]
        d = rnd.choice(dirs); n = rnd.choice(NAMES if op == 'create' else ['0first', 'a0', 'b0'])
        p = os.path.join(d, n)
        if not os.path.lexists(p):
            with open(p, 'wb') as f: f.write(rnd.choice([b'new', b'', b'q' * 7]))
        return op + ' ' + os.path.relpath(p, root)
    e = rnd.choice(entries); rel = os.path.relpath(e, root)
    try:
        if op == 'modify' and os.path.isfile(e) and not os.path.islink(e):
            with open(e, 'ab') as f: f.write(b'+')
        elif op == 'rewrite-same-size' and os.path.isfile(e) and not os.path.islink(e):
            c = open(e, 'rb').read()
            if c:
                with open(e, 'wb') as f: f.write(bytes([(c[0] + 1) % 256]) + c[1:])
        elif op == 'rewrite-keep-mtime' and os.path.isfile(e) and not os.path.islink(e):
            # in place, same size, old mtime restored (cp -p / rsync -t): only ctime tells
            c = open(e, 'rb').read(); st_ = os.stat(e)
            if c:
                import time as _t; _t.sleep(0.002)
                with open(e, 'r+b') as f: f.write(bytes([(c[0] + 1) % 256]) + c[1:])
                os.utime(e, ns=(st_.st_atime_ns, st_.st_mtime_ns))
        elif op == 'chmod' and not os.path.islink(e): os.chmod(e, rnd.choice([0o644, 0o755, 0o700, 0o600]))
        elif op == 'delete':
            if os.path.isdir(e) and not os.path.islink(e): shutil.rmtree(e)
            else: os.unlink(e)
        elif op == 'rename':
            tgt = os.path.join(os.path.dirname(e), rnd.choice(NAMES))
            if not os.path.lexists(tgt): os.rename(e, tgt)
        elif op == 'file2dir' and os.path.isfile(e) and not os.path.islink(e):
            os.unlink(e); os.mkdir(e); open(os.path.join(e, 'inner'), 'w').close()
        elif op == 'dir2link' and os.path.isdir(e) and not os.path.islink(e):
            shutil.rmtree(e); os.symlink('data', e)
        elif op == 'touch': os.utime(e, (1, 1), follow_symlinks=False)
    except OSError:
        pass
    return op + ' ' + rel

def one_history(rnd, steps):
    from bob.utils import hashDirectory
    base = tempfile.mkdtemp(prefix='c11-'); root = os.path.join(base, 'tree'); outside = os.path.join(base, 'outside')
    os.makedirs(outside); open(os.path.join(outside, 'f'), 'w').close()
    cache = os.path.join(base, 'cache.bin')
    try:
        random_tree(rnd, root, outside)
        log = []; seen = {}
        for i in range(steps + 1):
            cached = hashDirectory(root, cache); plain = hashDirectory(root)
            if cached != plain:
                return {'kind': 'cache-not-transparent', 'history': log, 'cached': cached.hex(), 'uncached': plain.hex()}
            can = repr(canonical(root))
            for (c2, h2, l2) in seen.values():
                if (c2 == can) != (h2 == plain):
                    return {'kind': 'hash-not-content-exact', 'history': log, 'other_state_after': l2, 'same_content': c2 == can, 'same_hash': h2 == plain}
            seen[i] = (can, plain, list(log))
            time.sleep(0.002)
            log.append(mutate(rnd, root, outside))
        return None
    finally:
        shutil.rmtree(base, ignore_errors=True)

def replay(rep):
    seed = int(os.environ.get('VERIF_SEED', '0') or 0)
    budget = float(os.environ.get('VERIF_BOUNDED_BUDGET', '25')); t0 = time.time()
    rnd = random.Random(seed); n = 0
    while time.time() - t0 < budget and n < 3000:
        n += 1
        w = one_history(rnd, rnd.randint(2, 7))
        if w is not None: return {'reproduced': True, 'tried': n, 'witness': w}
    return {'reproduced': False, 'tried': n, 'bound': 'trees <= 3 levels, <= 4 entries per directory, histories of <= 7 modifications',
            'detail': '%d modification histories: cached == uncached hash after every step, hash equality == content equality among all visited states' % n}
