# Native bounded search for C12 (bounded; real git repositories, real `bob dev` / `bob clean`):
#  a local upstream repository (master, rel branch, tags), a project whose recipe checks it out (branch | tag | commit |
#  branch+commit with gitCommitOnBranch), histories that interleave recipe SCM edits, upstream commits, user work in the
#  source workspace (dirty tracked file, untracked file, local commit, new branch, detached HEAD + commit) and bob runs
#   (1) every user commit stays reachable from some ref (not only the reflog) in the workspace or in an attic directory,
#       every user file (dirty or untracked) survives with its content in place or in the attic
#   (2) a workspace the user never touched equals a fresh checkout of the final specification
import os, sys, json, random, shutil, tempfile, subprocess, traceback, glob

ENV = {'GIT_CONFIG_NOSYSTEM': '1', 'GIT_AUTHOR_NAME': 'u', 'GIT_AUTHOR_EMAIL': 'u@example.com', 'GIT_COMMITTER_NAME': 'u', 'GIT_COMMITTER_EMAIL': 'u@example.com',
       'GIT_AUTHOR_DATE': '2020-01-01T00:00:00', 'GIT_COMMITTER_DATE': '2020-01-01T00:00:00'}

def git(cwd, *args, check=True):
    e = dict(os.environ); e.update(ENV)
    p = subprocess.run(['git', *args], cwd=cwd, stdout=subprocess.PIPE, stderr=subprocess.STDOUT, text=True, env=e)
    if check and p.returncode != 0: raise RuntimeError('git %s failed: %s' % (' '.join(args), p.stdout[-300:]))
    return p.stdout.strip()

def repos_below(d):
    out = []
    for root, dirs, files in os.walk(d):
        if '.git' in dirs: out.append(root); dirs[:] = []
    return out

def commit_held(repo, c):
    e = dict(os.environ); e.update(ENV)
    p = subprocess.run(['git', 'rev-list', '--all', 'HEAD'], cwd=repo, stdout=subprocess.PIPE, stderr=subprocess.DEVNULL, text=True, env=e)
    return c in p.stdout.split()

def tree_of(d):
    out = {}
    for root, dirs, files in os.walk(d):
        if '.git' in dirs: dirs.remove('.git')
        for f in files:
            p = os.path.join(root, f)
            try: out[os.path.relpath(p, d)] = open(p, 'rb').read()
            except OSError: pass
    return out

def one_case(seed, steps):
    from replay import projlib as P
    rnd = random.Random(seed); log = []
    base = tempfile.mkdtemp(prefix='c12-'); home = os.path.join(base, 'home'); os.makedirs(home)
    try:
        up = os.path.join(base, 'upstream'); os.makedirs(up)
        git(up, 'init', '-q', '-b', 'master')
        def upcommit(branch, n):
            git(up, 'checkout', '-q', branch, check=False)
            with open(os.path.join(up, 'file.txt'), 'w') as f: f.write('%s-%d\n' % (branch, n))
            with open(os.path.join(up, '%s-%d.txt' % (branch, n)), 'w') as f: f.write('x\n')
            git(up, 'add', '-A'); git(up, 'commit', '-q', '-m', '%s %d' % (branch, n)); return git(up, 'rev-parse', 'HEAD')
        commits = {'master': [], 'rel': []}
        for i in range(3): commits['master'].append(upcommit('master', i))
        git(up, 'tag', 'v1', commits['master'][1])
        git(up, 'branch', 'rel', commits['master'][0])
        for i in range(2): commits['rel'].append(upcommit('rel', i))
        git(up, 'tag', 'r1', commits['rel'][0]); git(up, 'checkout', '-q', 'master')
        counter = {'master': 3, 'rel': 2}
        proj = P.Project(root=os.path.join(base, 'proj'))
        proj.env.update(ENV); proj.env['HOME'] = home
        spec = {'branch': 'master'}
        def write():
            scm = dict(scm='git', url='file://' + up, **spec)
            import yaml
            with open(os.path.join(proj.dir, 'config.yaml'), 'w') as f: f.write('bobMinimumVersion: "0.25"\npolicies:\n  gitCommitOnBranch: True\n')
            with open(os.path.join(proj.dir, 'recipes', 'r0.yaml'), 'w') as f:
                yaml.safe_dump({'root': True, 'checkoutSCM': scm, 'buildScript': 'true\n', 'packageScript': 'true\n'}, f)
        def ws():
            for r in repos_below(os.path.join(proj.dir, 'dev')):
                if os.sep + 'attic' not in r.replace(os.path.join(proj.dir, 'dev'), ''): return r
            return None
        user_commits = []; user_files = {}; touched = False
        write(); rc, out = proj.bob('dev', 'r0'); log.append('bob dev (%s)' % spec)
        if rc != 0 or ws() is None: return None, ['(setup failed: %s)' % out[-200:].replace('\n', ' ')]
        OPS = ['recipe', 'recipe', 'upstream', 'user-dirty', 'user-untracked', 'user-commit', 'user-branch', 'user-detach', 'bob', 'bob', 'bob-clean-checkout', 'bob-clean-src']
        for i in range(steps):
            op = rnd.choice(OPS) if i < steps - 1 else 'bob'
            w = ws()
            if op == 'recipe':
                k = rnd.choice(['branch', 'tag', 'commit', 'branch+commit', 'branch+commit-old'])
                if k == 'branch': spec = {'branch': rnd.choice(['master', 'rel'])}
                elif k == 'tag': spec = {'tag': rnd.choice(['v1', 'r1'])}
                elif k == 'commit': spec = {'commit': rnd.choice(commits['master'] + commits['rel'])}
                elif k == 'branch+commit': b = rnd.choice(['master', 'rel']); spec = {'branch': b, 'commit': commits[b][-1]}
                else: b = rnd.choice(['master', 'rel']); spec = {'branch': b, 'commit': commits[b][0]}
                write(); log.append('recipe: %s' % json.dumps(spec))
            elif op == 'upstream':
                b = rnd.choice(['master', 'rel']); commits[b].append(upcommit(b, counter[b])); counter[b] += 1; git(up, 'checkout', '-q', 'master'); log.append('upstream commit on %s' % b)
            elif op.startswith('user') and w is not None:
                touched = True
                if op == 'user-dirty':
                    with open(os.path.join(w, 'file.txt'), 'a') as f: f.write('user edit %d\n' % i)
                    user_files['file.txt'] = open(os.path.join(w, 'file.txt'), 'rb').read(); log.append('user: edit tracked file')
                elif op == 'user-untracked':
                    n = 'notes-%d.txt' % i
                    with open(os.path.join(w, n), 'w') as f: f.write('precious %d\n' % i)
                    user_files[n] = open(os.path.join(w, n), 'rb').read(); log.append('user: untracked file %s' % n)
                elif op == 'user-commit':
                    n = 'work-%d.txt' % i
                    with open(os.path.join(w, n), 'w') as f: f.write('work %d\n' % i)
                    git(w, 'add', n); git(w, 'commit', '-q', '-m', 'user %d' % i); user_commits.append(git(w, 'rev-parse', 'HEAD'))
                    log.append('user: commit on %s' % git(w, 'rev-parse', '--abbrev-ref', 'HEAD'))
                elif op == 'user-branch':
                    tgt = rnd.choice(['origin/master', 'origin/rel', 'HEAD'])
                    r = git(w, 'checkout', '-q', '-b', 'feature-%d' % i, tgt, check=False); log.append('user: new branch feature-%d at %s' % (i, tgt))
                elif op == 'user-detach':
                    r = git(w, 'checkout', '-q', '--detach', 'HEAD', check=False); log.append('user: detached HEAD')
            elif op.startswith('bob'):
                args = {'bob': ['dev', 'r0'], 'bob-clean-checkout': ['dev', 'r0', '--clean-checkout'], 'bob-clean-src': ['clean', '-s']}[op]
                rc, out = proj.bob(*args); log.append('bob %s -> %d' % (' '.join(args), rc))
                all_repos = repos_below(os.path.join(proj.dir, 'dev'))
                for c in user_commits:
                    if not any(commit_held(r, c) for r in all_repos):
                        return {'kind': 'user-commit-no-longer-reachable-from-any-ref', 'commit': c[:12], 'history': log, 'bob_output': out[-400:]}, log
                dirs = [d for d in glob.glob(os.path.join(proj.dir, 'dev', 'src', '*', '*', '*')) if os.path.isdir(d)] + all_repos
                for name, content in user_files.items():
                    found = False
                    for d in set(dirs):
                        for root, ds, fs in os.walk(d):
                            if '.git' in ds: ds.remove('.git')
                            if name in fs and open(os.path.join(root, name), 'rb').read() == content: found = True
                    if not found:
                        return {'kind': 'user-file-lost-or-overwritten', 'file': name, 'history': log, 'bob_output': out[-400:]}, log
        # (2) untouched workspace == fresh checkout of the final specification
        if not touched:
            rc, out = proj.bob('dev', 'r0')
            fresh = P.Project(root=os.path.join(base, 'fresh')); fresh.env.update(ENV); fresh.env['HOME'] = home
            shutil.copy(os.path.join(proj.dir, 'config.yaml'), os.path.join(fresh.dir, 'config.yaml')); shutil.copy(os.path.join(proj.dir, 'recipes', 'r0.yaml'), os.path.join(fresh.dir, 'recipes', 'r0.yaml'))
            rc2, out2 = fresh.bob('dev', 'r0')
            if rc == 0 and rc2 == 0:
                a = [r for r in repos_below(os.path.join(proj.dir, 'dev')) if 'attic' not in r]; b = repos_below(os.path.join(fresh.dir, 'dev'))
                if a and b and tree_of(a[0]) != tree_of(b[0]):
                    ta, tb = tree_of(a[0]), tree_of(b[0])
                    return {'kind': 'untouched-workspace-differs-from-fresh-checkout', 'differs': sorted(k for k in set(ta) | set(tb) if ta.get(k) != tb.get(k))[:5], 'history': log}, log
                if a and b and git(a[0], 'rev-parse', 'HEAD') != git(b[0], 'rev-parse', 'HEAD'):
                    return {'kind': 'untouched-workspace-at-a-different-commit-than-a-fresh-checkout', 'history': log}, log
            elif rc != rc2:
                return {'kind': 'untouched-workspace-build-fails-where-a-fresh-checkout-works' if rc else 'fresh-checkout-fails', 'history': log, 'bob_output': (out if rc else out2)[-400:]}, log
        return None, log
    except Exception as ex:
        return None, ['harness problem: %r %s' % (ex, traceback.format_exc()[-400:])]
    finally:
        shutil.rmtree(base, ignore_errors=True)

def directed_branch_switch():
    """unpushed commit on the configured branch, user sits on another pushed branch, recipe commit moves back"""
    from replay import projlib as P
    base = tempfile.mkdtemp(prefix='c12d-'); home = os.path.join(base, 'home'); os.makedirs(home); log = []
    try:
        up = os.path.join(base, 'upstream'); os.makedirs(up); git(up, 'init', '-q', '-b', 'master')
        cs = []
        for i in range(3):
            with open(os.path.join(up, 'file.txt'), 'w') as f: f.write('v%d\n' % i)
            git(up, 'add', 'file.txt'); git(up, 'commit', '-q', '-m', 'c%d' % i); cs.append(git(up, 'rev-parse', 'HEAD'))
        proj = P.Project(root=os.path.join(base, 'proj')); proj.env.update(ENV); proj.env['HOME'] = home
        import yaml
        def write(commit):
            with open(os.path.join(proj.dir, 'config.yaml'), 'w') as f: f.write('bobMinimumVersion: "0.25"\npolicies:\n  gitCommitOnBranch: True\n')
            with open(os.path.join(proj.dir, 'recipes', 'r0.yaml'), 'w') as f:
                yaml.safe_dump({'root': True, 'checkoutSCM': {'scm': 'git', 'url': 'file://' + up, 'branch': 'master', 'commit': commit}, 'buildScript': 'true\n', 'packageScript': 'true\n'}, f)
        for variant in ('other-branch', 'same-branch', 'detached'):
            shutil.rmtree(os.path.join(proj.dir, 'dev'), ignore_errors=True)
            for f in glob.glob(os.path.join(proj.dir, '.bob-*')): os.unlink(f)
            write(cs[2]); rc, out = proj.bob('dev', 'r0')
            if rc != 0: return None, ['(setup failed)']
            w = repos_below(os.path.join(proj.dir, 'dev'))[0]
            with open(os.path.join(w, 'user.txt'), 'w') as f: f.write('precious\n')
            git(w, 'add', 'user.txt'); git(w, 'commit', '-q', '-m', 'local user work'); uc = git(w, 'rev-parse', 'HEAD')
            if variant == 'other-branch': git(w, 'checkout', '-q', '-b', 'feature', 'origin/master')
            elif variant == 'detached': git(w, 'checkout', '-q', '--detach', 'origin/master')
            write(cs[1]); rc, out = proj.bob('dev', 'r0'); log.append('%s: recipe commit moved back, bob dev -> %d' % (variant, rc))
            if not any(commit_held(r, uc) for r in repos_below(os.path.join(proj.dir, 'dev'))):
                return {'kind': 'user-commit-no-longer-reachable-from-any-ref', 'variant': variant, 'commit': uc[:12], 'history': log, 'bob_output': out[-300:]}, log
        return None, log
    except Exception as ex:
        return None, ['harness problem: %r %s' % (ex, traceback.format_exc()[-300:])]
    finally:
        shutil.rmtree(base, ignore_errors=True)


def directed_new_scm_over_user_files():
    """the user created files in a directory that bob does not manage yet; the recipe then adds an SCM that wants this directory"""
    from replay import projlib as P
    base = tempfile.mkdtemp(prefix='c12n-'); home = os.path.join(base, 'home'); os.makedirs(home); log = []
    try:
        up = os.path.join(base, 'upstream'); os.makedirs(up); git(up, 'init', '-q', '-b', 'master')
        with open(os.path.join(up, 'file.txt'), 'w') as f: f.write('main\n')
        git(up, 'add', '-A'); git(up, 'commit', '-q', '-m', 'c0')
        up2 = os.path.join(base, 'vendor-upstream'); os.makedirs(up2); git(up2, 'init', '-q', '-b', 'master')
        with open(os.path.join(up2, 'config.h'), 'w') as f: f.write('#define UPSTREAM 1\n')
        git(up2, 'add', '-A'); git(up2, 'commit', '-q', '-m', 'v0')
        import yaml
        for variant in ('git-into-dir', 'import-into-dir'):
            proj = P.Project(root=os.path.join(base, 'proj-' + variant)); proj.env.update(ENV); proj.env['HOME'] = home
            os.makedirs(os.path.join(proj.dir, 'vendor-src')); open(os.path.join(proj.dir, 'vendor-src', 'config.h'), 'w').write('#define IMPORTED 1\n')
            def write(second):
                scm = [{'scm': 'git', 'url': 'file://' + up, 'branch': 'master'}] + ([second] if second else [])
                with open(os.path.join(proj.dir, 'config.yaml'), 'w') as f: f.write('bobMinimumVersion: "0.25"\n')
                with open(os.path.join(proj.dir, 'recipes', 'r0.yaml'), 'w') as f:
                    yaml.safe_dump({'root': True, 'checkoutSCM': scm, 'buildScript': 'true\n', 'packageScript': 'true\n'}, f)
            write(None); rc, out = proj.bob('dev', 'r0')
            if rc != 0: return None, ['(setup failed: %s)' % out[-200:].replace('\n', ' ')]
            w = repos_below(os.path.join(proj.dir, 'dev'))[0]
            os.makedirs(os.path.join(w, 'vendor')); precious = b'/* user work, never committed */\n'
            with open(os.path.join(w, 'vendor', 'config.h'), 'wb') as f: f.write(precious)
            second = {'scm': 'git', 'url': 'file://' + up2, 'branch': 'master', 'dir': 'vendor'} if variant == 'git-into-dir' else {'scm': 'import', 'url': 'vendor-src', 'dir': 'vendor'}
            write(second); rc, out = proj.bob('dev', 'r0'); log.append('%s: user file vendor/config.h, recipe adds an SCM with dir vendor, bob dev -> %d' % (variant, rc))
            found = False
            for root, ds, fs in os.walk(os.path.join(proj.dir, 'dev')):
                if '.git' in ds: ds.remove('.git')
                if 'config.h' in fs and open(os.path.join(root, 'config.h'), 'rb').read() == precious: found = True
            if not found:
                return {'kind': 'user-file-lost-or-overwritten', 'file': 'vendor/config.h', 'variant': variant, 'history': log, 'bob_output': out[-400:]}, log
        return None, log
    except Exception as ex:
        return None, ['harness problem: %r %s' % (ex, traceback.format_exc()[-300:])]
    finally:
        shutil.rmtree(base, ignore_errors=True)

def directed_clean_unused():
    """non-forced `bob clean -s` over git source workspaces that became unused: whatever holds user work (untracked file, modified
    tracked file, unpushed commit on the configured branch or on a side branch, stash-free detached work) survives, the pristine one goes"""
    import subprocess
    from replay import projlib as P
    base = tempfile.mkdtemp(prefix='c12c-'); log = []
    env = {'GIT_CONFIG_NOSYSTEM': '1', 'GIT_AUTHOR_NAME': 'u', 'GIT_AUTHOR_EMAIL': 'u@example.com', 'GIT_COMMITTER_NAME': 'u', 'GIT_COMMITTER_EMAIL': 'u@example.com', 'HOME': base}
    def git(cwd, *a):
        e = dict(os.environ); e.update(env); subprocess.run(['git', *a], cwd=cwd, check=True, stdout=subprocess.DEVNULL, stderr=subprocess.DEVNULL, env=e)
    try:
        up = os.path.join(base, 'up'); os.makedirs(up); git(up, 'init', '-q', '-b', 'master')
        open(os.path.join(up, 'f.txt'), 'w').write('v1\n'); git(up, 'add', 'f.txt'); git(up, 'commit', '-q', '-m', 'c1')
        kinds = ['untracked', 'modified', 'commit-on-branch', 'commit-on-side-branch', 'pristine']
        R = {'r0': {'root': True, 'depends': ['p-' + k for k in kinds], 'buildScript': 'true\n', 'packageScript': 'true\n'}}
        for k in kinds: R['p-' + k] = {'checkoutSCM': {'scm': 'git', 'url': 'file://' + up, 'branch': 'master'}, 'buildScript': 'cp "$1"/f.txt .\n', 'packageScript': 'cp "$1"/f.txt .\n'}
        p = P.Project(root=os.path.join(base, 'proj')); p.env.update(env); p.write({'recipes': R, 'config': {}})
        rc, out = p.bob('dev', 'r0'); log.append('five git packages built')
        if rc != 0: return None, ['(setup: %s)' % out[-200:]]
        ws = {k: os.path.join(p.dir, 'dev/src/p-%s/1/workspace' % k) for k in kinds}
        if not all(os.path.isdir(os.path.join(w, '.git')) for w in ws.values()): return None, ['(setup: workspaces not found)']
        open(os.path.join(ws['untracked'], 'notes.txt'), 'w').write('user notes\n')
        open(os.path.join(ws['modified'], 'f.txt'), 'a').write('user edit\n')
        w = ws['commit-on-branch']; open(os.path.join(w, 'f.txt'), 'a').write('committed\n'); git(w, 'commit', '-q', '-am', 'user commit')
        w = ws['commit-on-side-branch']; git(w, 'checkout', '-q', '-b', 'work'); open(os.path.join(w, 'f.txt'), 'a').write('side\n'); git(w, 'commit', '-q', '-am', 'side commit'); git(w, 'checkout', '-q', 'master')
        log.append('user work: untracked file / modified file / commit on master / commit on a side branch / nothing')
        p.write({'recipes': {'r0': {'root': True, 'buildScript': 'true\n', 'packageScript': 'true\n'}}, 'config': {}})
        rc, out = p.bob('dev', 'r0'); log.append('all five packages removed from the recipes')
        rc, out = p.bob('clean', '--dry-run', '-s'); log.append('bob clean --dry-run -s')
        if not all(os.path.isdir(w) for w in ws.values()): return {'kind': 'dry-run-deleted', 'history': log}, log
        rc, out = p.bob('clean', '-s'); log.append('bob clean -s (not forced)')
        attic = [os.path.join(dp, d) for dp, ds, fs in os.walk(p.dir) for d in ds if 'attic' in d]
        for k in kinds[:-1]:
            if not os.path.isdir(ws[k]) and not attic:
                return {'kind': 'user-work-destroyed-by-non-forced-clean', 'user_work': k, 'workspace': os.path.relpath(ws[k], p.dir), 'history': log, 'output': out[-300:]}, log
        if os.path.isdir(ws['pristine']): return {'kind': 'clean-kept-unused-source-directory-although-requested', 'history': log}, log
        return None, log
    except Exception as ex:
        return None, ['harness problem: %r' % (ex,)]
    finally:
        shutil.rmtree(base, ignore_errors=True)

def scm_set_changes():
    """SCMs removed from / moved inside / added back to a checkout: an untouched workspace equals a fresh checkout (shared with C01)"""
    from replay import C01
    w, log = C01.directed_scm_set_edits('dev', kind='untouched-workspace-differs-from-fresh-checkout')
    if log and str(log[-1]).startswith('(project does not'): log = ['(setup: %s)' % log[-1]]
    return w, log

def url_switch():
    from replay import C01
    w, log = C01.directed_url_switch('dev', kind='untouched-workspace-differs-from-fresh-checkout')
    if log and str(log[-1]).startswith('(project does not'): log = ['(setup: %s)' % log[-1]]
    return w, log

def replay(rep):
    import concurrent.futures as cf
    seed = int(os.environ.get('VERIF_SEED', '0') or 0)
    thorough = os.environ.get('VERIF_TIER') == 'thorough'
    n = 40 if thorough else 10; steps = 8 if thorough else 6
    tried = 0; distinct = set(); samples = []; problems = 0
    with cf.ThreadPoolExecutor(max_workers=8) as ex:
        futs = [ex.submit(directed_branch_switch), ex.submit(directed_new_scm_over_user_files), ex.submit(scm_set_changes), ex.submit(url_switch), ex.submit(directed_clean_unused)] + [ex.submit(one_case, seed * 1000 + i, steps) for i in range(n)]
        for f in cf.as_completed(futs):
            w, log = f.result(); tried += 1
            if log and (str(log[-1]).startswith('harness problem') or str(log[-1]).startswith('(setup')): problems += 1; samples.append({'problem': log[-1]}) if len(samples) < 3 else None; continue
            distinct.add(tuple(log))
            if len(samples) < 3: samples.append({'history': log})
            if w is not None: return {'reproduced': True, 'tried': tried, 'witness': w}
    if problems > tried // 2: return {'reproduced': None, 'detail': 'harness problems in %d of %d cases: %s' % (problems, tried, samples[:2])}
    return {'reproduced': False, 'tried': tried, 'distinct': len(distinct), 'samples': samples,
            'bound': 'directed branch-switch scenario (3 variants), new SCM over a directory with user files (git, import), SCM set changes (remove/move/if/add back), url SCM url changes, non-forced clean -s over unused git workspaces with 4 kinds of user work + %d generated histories of %d operations over one git upstream (2 branches, 2 tags): recipe SCM edits, upstream commits, 5 kinds of user work, bob dev / --clean-checkout / clean -s; url/import/svn SCMs and nested SCMs are not generated' % (n, steps),
            'detail': 'every user commit stayed reachable from a ref and every user file survived (in place or attic); untouched workspaces equalled fresh checkouts'}
