# Native bounded search for C03 (bounded; real RecipeSet/generatePackages in subprocesses):
#  the Variant-Ids of a generated project are identical under
#   (1) a different absolute project location, (2) different PYTHONHASHSEEDs, (3) permuted recipe file creation order
#       and permuted key order inside the recipe files, (4) repeated evaluation,
#   (5) every id-irrelevant single edit (value / list of weak variables, metaEnvironment, netAccess, jobServer,
#       audit-file lists, shared/relocatable flags), (6) sandbox on/off for recipes that do not depend on the sandbox
#  and (7) equal the ids recorded for these generated projects on the pinned tree (replay/golden_C03.json): ids survive
#  changes of Bob.  Build-Id purity is covered by C07's native search (different locations / hosts).
import os, sys, json, random, copy, shutil, tempfile, traceback, subprocess
from replay import projlib as P, idlib as I

GOLD = os.path.join(os.path.dirname(os.path.abspath(__file__)), 'golden_C03.json')

def write_shuffled(p, model, rnd):
    """like Project.write, but files are created in random order and mappings are dumped in random key order"""
    import yaml
    rd = os.path.join(p.dir, 'recipes'); shutil.rmtree(rd, ignore_errors=True); os.makedirs(rd)
    shutil.rmtree(os.path.join(p.dir, 'classes'), ignore_errors=True)
    def shuf(x):
        if isinstance(x, dict):
            ks = list(x); rnd.shuffle(ks); return {k: shuf(x[k]) for k in ks}
        return x
    names = list(model['recipes']); rnd.shuffle(names)
    for n in names:
        with open(os.path.join(rd, n + '.yaml'), 'w') as f: yaml.safe_dump(shuf(model['recipes'][n]), f, default_flow_style=False, sort_keys=False)
    with open(os.path.join(p.dir, 'config.yaml'), 'w') as f: f.write('bobMinimumVersion: "0.25"\n')
    for rel, content in (model.get('files') or {}).items():
        q = os.path.join(p.dir, rel); os.makedirs(os.path.dirname(q), exist_ok=True)
        with open(q, 'w') as f: f.write(content)

IRRELEVANT = [
    ('value of a weak variable', lambda r, rnd: r.get('buildVarsWeak') and [v for v in r['buildVarsWeak'] if v not in I.expected_vars(r)[0]['dist']] and r['environment'].__setitem__([v for v in r['buildVarsWeak'] if v not in I.expected_vars(r)[0]['dist']][0], 'weak-changed') is None),
    ('metaEnvironment', lambda r, rnd: r.__setitem__('metaEnvironment', {'LICENSE': 'MIT-%d' % rnd.randint(0, 9)}) is None),
    ('buildNetAccess', lambda r, rnd: r.__setitem__('buildNetAccess', True) is None),
    ('jobServer', lambda r, rnd: r.__setitem__('jobServer', True) is None),
    ('packageAuditFiles', lambda r, rnd: r.__setitem__('packageAuditFiles', {'lic': 'LICENSE'}) is None),
    ('unused variable in environment', lambda r, rnd: r['environment'].__setitem__('UNUSED_%d' % rnd.randint(0, 9), 'x') is None),
    ('packageVarsWeak list', lambda r, rnd: r.__setitem__('packageVarsWeak', sorted(set(r.get('packageVarsWeak', [])) | {'NOT_SET_ANYWHERE'})) is None),
]

def one_case(seed, golden, record):
    rnd = random.Random(seed); log = []
    base = tempfile.mkdtemp(prefix='c03-')
    try:
        model = I.gen(rnd)
        def ids(sub, shuffle_seed=None, hashseed=None, sandbox=False, m=None):
            d = os.path.join(base, sub); os.makedirs(d, exist_ok=True); p = P.Project(root=d)
            if shuffle_seed is None: p.write(m or model)
            else: write_shuffled(p, m or model, random.Random(shuffle_seed))
            return I.ids_of(I.query(p, sandbox=sandbox, env={'PYTHONHASHSEED': str(hashseed)} if hashseed is not None else None))
        try: ref = ids('a')
        except RuntimeError as e: return None, ['(project invalid: %s)' % str(e)[-100:]]
        w = I.check_weak_tools(model, I.query(P.Project(root=os.path.join(base, 'a'))), log)
        if w: return w, log
        flat = {'%s|%s' % k: v for k, v in sorted(ref.items())}
        if record is not None: record[str(seed)] = flat
        elif golden is not None and str(seed) in golden and golden[str(seed)] != flat:
            diff = [k for k in flat if golden[str(seed)].get(k) != flat[k]][:3]
            return {'kind': 'ids-differ-from-the-recorded-ids-of-the-pinned-tree', 'steps': diff, 'seed': seed}, log
        variants = [('other location', dict(sub='some/where/else/deeper')), ('hash seed 1', dict(sub='a', hashseed=1)), ('hash seed 4242', dict(sub='a', hashseed=4242)),
                    ('file and key order permuted', dict(sub='b', shuffle_seed=seed + 1, hashseed=7)), ('file and key order permuted again', dict(sub='c', shuffle_seed=seed + 2, hashseed=99)),
                    ('evaluated again', dict(sub='a'))]
        for what, kw in variants:
            got = ids(**kw); log.append(what)
            if got != ref:
                diff = sorted(k for k in ref if got.get(k) != ref[k])[:3]
                return {'kind': 'variant-id-depends-on-' + what.replace(' ', '-'), 'steps': [list(k) for k in diff], 'history': log}, log
        # sandbox on/off: nothing in the generated projects consumes the sandbox
        got = ids(sub='a', sandbox=True); log.append('sandbox flag on')
        if got != ref: return {'kind': 'variant-id-depends-on-unused-sandbox-mode', 'history': log}, log
        for desc, fn in IRRELEVANT:
            m2 = copy.deepcopy(model); name = rnd.choice([n for n in sorted(m2['recipes']) if n.startswith('r')])
            try:
                if not fn(m2['recipes'][name], rnd): continue
            except Exception: continue
            got = ids(sub='e', m=m2); log.append('irrelevant edit: %s of %s' % (desc, name))
            if got != ref:
                diff = sorted(k for k in ref if got.get(k) != ref[k])[:3]
                return {'kind': 'id-irrelevant-edit-changed-a-variant-id', 'edit': desc, 'recipe': name, 'steps': [list(k) for k in diff], 'history': log}, log
        return None, log
    except Exception as ex:
        return None, ['harness problem: %r %s' % (ex, traceback.format_exc()[-300:])]
    finally:
        shutil.rmtree(base, ignore_errors=True)


def directed_tools():
    """sandboxed project with several tools, fingerprinted and not, used in different steps: ids under many hash seeds"""
    rnd = random.Random(11); base = tempfile.mkdtemp(prefix='c03d-')
    try:
        tools = {}
        for i, nm in enumerate(['cc', 'ld', 'packer', 'strip', 'gen']):
            tools[nm] = {'path': 'bin'}
            tools[nm]['fingerprintIf'] = (i % 2 == 0)
            if i % 2 == 0: tools[nm]['fingerprintScript'] = 'echo %s-host-dependency\n' % nm
        R = {'root': {'root': True, 'depends': [{'name': 'sandbox', 'use': ['sandbox'], 'forward': True}, {'name': 'toolbox', 'use': ['tools'], 'forward': True}, 'app', 'app2'], 'buildScript': 'true\n', 'packageScript': 'true\n'},
             'sandbox': {'packageScript': 'true\n', 'provideSandbox': {'paths': ['/bin', '/usr/bin']}},
             'toolbox': {'packageScript': 'true\n', 'provideTools': tools},
             'app': {'checkoutScript': 'true\n', 'checkoutDeterministic': True, 'buildTools': ['ld', 'strip'], 'buildScript': 'true\n', 'packageTools': ['packer', 'cc', 'gen'], 'packageScript': 'true\n', 'fingerprintIf': False},
             'app2': {'buildTools': ['cc'], 'buildScript': 'echo 2\n', 'packageTools': ['ld', 'packer'], 'packageScript': 'true\n'}}
        ref = None
        for hs in range(10):
            d = os.path.join(base, 'h%d' % hs); os.makedirs(d); p = P.Project(root=d); p.write({'recipes': R, 'config': {}})
            got = I.ids_of(I.query(p, sandbox=True, env={'PYTHONHASHSEED': str(hs)}))
            if ref is None: ref = got
            elif got != ref:
                diff = sorted(k for k in ref if got.get(k) != ref[k])[:3]
                return {'kind': 'variant-id-depends-on-hash-seed', 'hash_seed': hs, 'steps': [list(k) for k in diff], 'project': 'sandbox + 5 tools (fingerprinted / not) used in build and package steps'}, ['directed tools']
        return None, ['directed tools: 10 hash seeds']
    except Exception as ex:
        return None, ['harness problem: %r' % (ex,)]
    finally: shutil.rmtree(base, ignore_errors=True)

def directed_scm_variants():
    """one recipe whose checkoutSCM is written with ${VAR}, reached in two variants (tag v1 below a, tag v2 below b): the ids of a
    variant do not depend on which variant is reached first, on how often the recipe is reached, or on unrelated roots"""
    base = tempfile.mkdtemp(prefix='c03v-')
    try:
        def model(order, extra_root):
            R = {'lib': {'checkoutSCM': {'scm': 'git', 'url': 'https://example.invalid/lib.git', 'tag': '${LIBTAG}', 'dir': 'src/${LIBTAG}'}, 'buildScript': 'echo lib\n', 'packageScript': 'echo lib\n'},
                 'a': {'depends': [{'name': 'lib', 'environment': {'LIBTAG': 'v1'}}], 'buildScript': 'echo a\n', 'packageScript': 'echo a\n'},
                 'b': {'depends': [{'name': 'lib', 'environment': {'LIBTAG': 'v2'}}], 'buildScript': 'echo b\n', 'packageScript': 'echo b\n'},
                 'r0': {'root': True, 'depends': order, 'buildScript': 'echo r\n', 'packageScript': 'echo r\n'}}
            if extra_root: R[extra_root] = {'root': True, 'depends': [{'name': 'lib', 'environment': {'LIBTAG': 'v9'}}], 'buildScript': 'echo x\n', 'packageScript': 'echo x\n'}
            return {'recipes': R, 'config': {}}
        ref = None
        for what, order, extra in (('a before b', ['a', 'b'], None), ('b before a', ['b', 'a'], None), ('an unrelated root reached first', ['a', 'b'], 'aaa-first'), ('an unrelated root reached last', ['a', 'b'], 'zzz-last')):
            d = os.path.join(base, what.replace(' ', '_')); os.makedirs(d); p = P.Project(root=d); p.write(model(order, extra))
            q = I.query(p); got = {k: v for k, v in I.ids_of(q).items() if k[0].startswith('r0/')}
            if got[('r0/a/lib', 'src')] == got[('r0/b/lib', 'src')]:
                return {'kind': 'same-variant-id-for-different-scm-tags', 'case': what, 'what': 'lib checked out at tag v1 and at tag v2 share one Variant-Id'}, [what]
            if ref is None: ref = got
            elif got != ref:
                diff = sorted(k for k in ref if got.get(k) != ref[k])[:3]
                return {'kind': 'variant-id-depends-on-which-variant-of-a-recipe-is-reached-first', 'case': what, 'steps': [list(k) for k in diff]}, [what]
        return None, ['directed scm variants']
    except Exception as ex:
        return None, ['harness problem: %r' % (ex,)]
    finally: shutil.rmtree(base, ignore_errors=True)

def directed_tool_variants():
    """a tool-providing package whose variants differ only in what the tool hands to its users (provideTools environment): the ids and
    environments of a consumer do not depend on which roots exist or on the order in which they are parsed"""
    base = tempfile.mkdtemp(prefix='c03t-')
    try:
        def model(roots):
            R = {'tool': {'packageScript': 'true\n', 'provideTools': {'t': {'path': '.', 'environment': {'TOOL_FLAVOUR': '${FLAVOUR}'}}}},
                 'lib': {'depends': [{'name': 'tool', 'use': ['tools']}], 'packageTools': ['t'], 'packageVars': ['TOOL_FLAVOUR'], 'packageScript': 'echo "$TOOL_FLAVOUR" > flavour.txt\n'}}
            for r, fl in roots.items(): R[r] = {'root': True, 'environment': {'FLAVOUR': fl}, 'depends': ['lib'], 'packageScript': 'true\n'}
            return {'recipes': R, 'config': {}}
        ref = None
        for what, roots in (('root b alone', {'b': 'fb'}), ('root a parsed before b', {'a': 'fa', 'b': 'fb'}), ('root z parsed after b', {'b': 'fb', 'z': 'fz'})):
            d = os.path.join(base, what.replace(' ', '_')); os.makedirs(d); p = P.Project(root=d); p.write(model(roots))
            q = I.query(p); got = {k: (v['vid'], v['env'].get('TOOL_FLAVOUR')) for k, rec in q.items() if k.startswith('b/') or k == 'b' for l, v in rec['steps'].items() for k in [(k, l)]}
            env = q['b/lib']['steps']['dist']['env'].get('TOOL_FLAVOUR')
            if env != 'fb': return {'kind': 'environment-of-a-package-depends-on-other-roots', 'case': what, 'observed': env, 'expected': 'fb'}, [what]
            if ref is None: ref = got
            elif got != ref:
                return {'kind': 'variant-id-depends-on-unrelated-roots', 'case': what, 'steps': sorted(str(k) for k in ref if got.get(k) != ref[k])[:3]}, [what]
        return None, ['directed tool variants']
    except Exception as ex:
        return None, ['harness problem: %r' % (ex,)]
    finally: shutil.rmtree(base, ignore_errors=True)

def replay(rep):
    import concurrent.futures as cf
    seed = int(os.environ.get('VERIF_SEED', '0') or 0)
    thorough = os.environ.get('VERIF_TIER') == 'thorough'
    n = 24 if thorough else 6
    golden = json.load(open(GOLD)) if os.path.exists(GOLD) else None
    record = {} if os.environ.get('C03_RECORD_GOLDEN') else None
    tried = 0; distinct = set(); samples = []; problems = 0
    with cf.ThreadPoolExecutor(max_workers=8) as ex:
        futs = [ex.submit(directed_tools), ex.submit(directed_scm_variants), ex.submit(directed_tool_variants)] + [ex.submit(one_case, 7000 + i, golden, record) for i in range(n)]       # fixed seeds: the golden ids refer to them
        for f in cf.as_completed(futs):
            w, log = f.result(); tried += 1
            if log and (str(log[-1]).startswith('harness problem') or str(log[-1]).startswith('(project invalid')): problems += 1; samples.append({'problem': log[-1]}) if len(samples) < 3 else None; continue
            distinct.add(tuple(log))
            if len(samples) < 3: samples.append({'history': log[:6]})
            if w is not None: return {'reproduced': True, 'tried': tried, 'witness': w}
    if record is not None:
        old = json.load(open(GOLD)) if os.path.exists(GOLD) else {}
        old.update(record); json.dump(old, open(GOLD, 'w'), indent=0, sort_keys=True)
    if problems > tried // 2: return {'reproduced': None, 'detail': 'harness problems in %d of %d cases: %s' % (problems, tried, samples[:2])}
    return {'reproduced': False, 'tried': tried, 'distinct': len(distinct), 'samples': samples,
            'bound': '%d generated projects (fixed seeds), each evaluated at 2 locations, 4 hash seeds, 2 file/key order permutations, sandbox flag on/off, 7 id-irrelevant edits; golden ids recorded on the pinned tree for %s of them' % (n, len(golden) if golden else 0),
            'detail': 'all evaluations gave identical Variant-Ids, equal to the recorded ones'}
