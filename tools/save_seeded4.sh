#!/bin/sh
# tools/save_seeded4.sh <Cxx> "<what my check reported>"   -- round 4: /tmp/seeded4/<Cxx>/ -> /verif/seeded/<Cxx>-e
id=$1-e; mkdir -p /verif/seeded/$id
cp /tmp/seeded4/$1/patch.diff /tmp/seeded4/$1/demo.py /verif/seeded/$id/
python3 - "$1" "$2" <<'PY'
import json,sys
p,what=sys.argv[1:3]
m=json.load(open('/tmp/seeded4/%s/meta.json'%p))
m['confirmed_by_me']={'check': what}
json.dump(m,open('/verif/seeded/%s-e/meta.json'%p,'w'),indent=1)
PY
