#!/bin/sh
# tools/save_seeded.sh <Cxx> <a|b> "<what my check reported>"
id=$1-$2; mkdir -p /verif/seeded/$id
cp /tmp/seeded/$1/$2/patch.diff /tmp/seeded/$1/$2/demo.py /verif/seeded/$id/
python3 - "$1" "$2" "$3" <<'PY'
import json,sys
p,x,what=sys.argv[1:4]
m=json.load(open('/tmp/seeded/%s/%s/meta.json'%(p,x)))
m['confirmed_by_me']={'check': what}
json.dump(m,open('/verif/seeded/%s-%s/meta.json'%(p,x),'w'),indent=1)
PY
