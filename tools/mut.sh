#!/bin/sh
# tools/mut.sh <Cxx> <file> <sed-expr>   -- dev helper: run a check against a mutated scratch worktree (/tmp/wt)
[ -d /tmp/wt ] || git -C /repo worktree add --detach /tmp/wt HEAD >/dev/null 2>&1
git -C /tmp/wt checkout -q -- . 
sed -i "$3" /tmp/wt/$2
git -C /tmp/wt diff | grep '^[-+]' | grep -v '^+++\|^---'
cd /verif && VERIF_REPO=/tmp/wt ./check $1 2>&1 | grep -v conda | cut -c1-600
git -C /tmp/wt checkout -q -- .
