#!/usr/bin/env python3
# Regenerates MANIFEST.json from tools/claims.json (claimed checks) + properties.jsonl (everything else -> not_applicable)
import json, os
ROOT = os.path.dirname(os.path.dirname(os.path.abspath(__file__)))
claims = json.load(open(os.path.join(ROOT, 'tools', 'claims.json')))
props = [json.loads(l) for l in open(os.path.join(ROOT, 'properties.jsonl'))]
checks = []; na = []
for p in props:
    c = claims['claimed'].get(p['id'])
    b = claims.get('bounded', {}).get(p['id'])
    if b and not c:
        checks.append({
            'property_id': p['id'], 'quick_cmd': './check %s --tier quick' % p['id'], 'thorough_cmd': './check %s --tier thorough' % p['id'],
            'evidence_file': 'evidence/%s.json' % p['id'], 'replay_cmd_template': '/venv/bin/python replay/run.py %s {path}' % p['id'], 'engine': 'pyvc',
            'level_claimed': {'category': b['category'], 'text': b['text'], 'design_ref': 'DESIGN.md section 4, ' + p['id']},
            'level_note': b['note'], 'technique': b['technique']})
        continue
    if c:
        checks.append({
            'property_id': p['id'],
            'quick_cmd': './check %s --tier quick' % p['id'],
            'thorough_cmd': './check %s --tier thorough' % p['id'],
            'evidence_file': 'evidence/%s.json' % p['id'],
            'replay_cmd_template': '/venv/bin/python replay/run.py %s {path}' % p['id'],
            'engine': 'pyvc',
            'level_claimed': {'category': 'proof', 'text': c['text'], 'design_ref': c.get('design_ref', 'DESIGN.md section 4, ' + p['id'])},
            'level_note': c['note'],
            'technique': c.get('technique', 'contract-based deductive verification: VCs generated from the real AST, discharged by z3/cvc5'),
        })
    else:
        na.append({'property_id': p['id'], 'reason': claims['not_applicable'].get(p['id'], 'machinery for this property not completed yet (see DESIGN.md section 9); not claimed')})
m = {
    'version': 1,
    'setup_cmd': 'sh tools/setup.sh',
    'hooks': {'guard': 'BOB_VERIF', 'enable': 'none needed: contracts are sidecar files, /repo is parsed not patched', 
              'baseline_off_cmd': 'cd /repo && /venv/bin/python -m pytest -ra -q -p no:cacheprovider --timeout=900 --continue-on-collection-errors',
              'source_commits': claims.get('hook_commits', []), 'add_only': True},
    'engines': [{'name': 'pyvc', 'path': 'pyvc/', 'serves_properties': sorted(claims['claimed']),
                 'kind_free_text': 'home-made deductive verifier for a Python subset: symbolic execution of the real AST with sidecar contracts, loop invariants, modular call contracts; obligations discharged by z3 5.1 (API), cvc5 1.0.3 and z3-new (CLI)'}],
    'checks': checks,
    'not_applicable': na,
    'notes': 'Exit codes of ./check: 0 held, 1 violation (VIOLATION line), 2 undecided, 3 checker crash. Known findings: known_findings.json.',
}
json.dump(m, open(os.path.join(ROOT, 'MANIFEST.json'), 'w'), indent=1)
print('claimed', [c['property_id'] for c in checks])
