#!/bin/sh
# tools/try2.sh <Cxx> <patch> -- like try_seeded3.sh but on the second scratch worktree /tmp/wt2
P=$1; D=$2; shift; shift
git -C /tmp/wt2 checkout -q -- . && git -C /tmp/wt2 clean -fdq
git -C /tmp/wt2 apply $D || exit 9
cd /verif && VERIF_REPO=/tmp/wt2 ./check $P "$@" 2>&1 | grep -v "conda\|^INFO\|^See" | grep "VIOLATION\|^$P:\|UNDECIDED" | cut -c1-300
git -C /tmp/wt2 checkout -q -- . && git -C /tmp/wt2 clean -fdq
