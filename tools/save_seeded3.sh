#!/bin/sh
# tools/save_seeded3.sh <Cxx> "<what my check reported>"   -- round 3: /tmp/seeded3/<Cxx>/ -> /verif/seeded/<Cxx>-d
id=$1-d; mkdir -p /verif/seeded/$id
cp /tmp/seeded3/$1/patch.diff /tmp/seeded3/$1/demo.py /verif/seeded/$id/
python3 - "$1" "$2" <<'PY'
import json,sys
p,what=sys.argv[1:3]
m=json.load(open('/tmp/seeded3/%s/meta.json'%p))
m['confirmed_by_me']={'check': what}
json.dump(m,open('/verif/seeded/%s-d/meta.json'%p,'w'),indent=1)
PY
