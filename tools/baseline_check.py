#!/usr/bin/env python3
# Compare a junit xml of the repo's test suite with /root/.vp/BASELINE.json stable_pass (guard off).
import json, sys, xml.etree.ElementTree as ET
base = json.load(open('/root/.vp/BASELINE.json'))
want = set(base['stable_pass'])
t = ET.parse(sys.argv[1]).getroot()
passed = set()
for tc in t.iter('testcase'):
    name = '%s::%s' % (tc.get('classname'), tc.get('name'))
    if not any(ch.tag in ('failure', 'error', 'skipped') for ch in tc): passed.add(name)
missing = sorted(want - passed)
print('stable_pass: %d, passed now: %d of them, missing: %d' % (len(want), len(want & passed), len(missing)))
for m in missing[:20]: print('  MISSING', m)
sys.exit(1 if missing else 0)
