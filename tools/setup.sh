#!/bin/sh
# Offline setup: nothing to build; verify the tools the checks need are present.
set -e
python3-vt -c "import z3, sys; assert z3.get_version_string().startswith('5.'), z3.get_version_string()"
test -x /usr/bin/cvc5
test -x /venv/bin/python
mkdir -p evidence replays
echo setup ok
