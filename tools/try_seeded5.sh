#!/bin/sh
# tools/try_seeded5.sh <Cxx> [extra check args]  -- dev helper: run a check against round-5 seeded change applied to the scratch worktree /tmp/wt
P=$1; shift
git -C /tmp/wt checkout -q -- . && git -C /tmp/wt clean -fdq
git -C /tmp/wt apply /tmp/seeded5/$P/patch.diff || exit 9
cd /verif && VERIF_REPO=/tmp/wt ./check $P "$@" 2>&1 | grep -v "conda\|^INFO\|^See" | grep "VIOLATION\|^$P:\|UNDECIDED\|native:" | cut -c1-420
git -C /tmp/wt checkout -q -- . && git -C /tmp/wt clean -fdq
