#!/bin/sh
# tools/save_seeded5.sh <Cxx> "<what my check reported>"   -- round 5: /tmp/seeded5/<Cxx>/ -> /verif/seeded/<Cxx>-f
id=$1-f; mkdir -p /verif/seeded/$id
cp /tmp/seeded5/$1/patch.diff /tmp/seeded5/$1/demo.py /verif/seeded/$id/
python3 - "$1" "$2" <<'PY'
import json,sys
p,what=sys.argv[1:3]
m=json.load(open('/tmp/seeded5/%s/meta.json'%p))
m['confirmed_by_me']={'check': what}
json.dump(m,open('/verif/seeded/%s-f/meta.json'%p,'w'),indent=1)
PY
