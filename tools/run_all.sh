#!/bin/sh
# tools/run_all.sh [quick|thorough]  -- run every claimed check on /repo, print the summary lines
cd /verif
for c in $(python3 -c "import json; print(' '.join(x['property_id'] for x in json.load(open('MANIFEST.json'))['checks']))"); do
  ./check $c --tier ${1:-quick} 2>/dev/null | grep -v conda | grep -v "^KNOWN" | tail -1 | cut -c1-170
done
