#!/usr/bin/env python3
# tools/profile_obligations.py [Cxx ...]  -- dev helper: solve every obligation of every unit sequentially and list the slow ones
import sys, os, time, json, subprocess
ROOT = os.path.dirname(os.path.dirname(os.path.abspath(__file__)))
props = sys.argv[1:] or ['C%02d' % i for i in range(1, 21)]
for p in props:
    env = dict(os.environ, PYTHONPATH=ROOT)
    units = json.loads(subprocess.run(['python3-vt', '-m', 'pyvc.worker', p, '--list'], cwd=ROOT, capture_output=True, text=True, env=env).stdout.strip().split('\n')[-1])
    for u in units:
        if u.get('kind') == 'watch' or not u.get('verify', True): continue
        r = subprocess.run(['python3-vt', '-m', 'pyvc.worker', p, u['name']], cwd=ROOT, capture_output=True, text=True, env=env)
        try: res = json.loads([l for l in r.stdout.strip().split('\n') if l.startswith('{')][-1])
        except Exception: print(p, u['name'], 'NO RESULT'); continue
        for o in res.get('obligations', []):
            if (o.get('ms') or 0) > 4000 or o['verdict'] != 'discharged': print(p, o.get('ms'), o['verdict'], o.get('by'), o['name'][:150], flush=True)
print('done')
